"""C18 - the dual mesh swaps nodes and faces with correct ring order."""

from __future__ import annotations

import json
import os
import random
import subprocess
import sys

from harness import meshgen
from harness import x_c18 as drv
from harness.core import Machinery

PROP = "C18"
VERIF = os.path.dirname(os.path.dirname(os.path.abspath(__file__)))

CATALOGUE = [
    "tetrahedron", "cube", "octahedron", "cuboctahedron", "rhombic_dodecahedron", "tetrakis_cube",
    "truncated_octahedron", "truncated_cube", "rhombicuboctahedron", "truncated_octahedron_split",
    "truncated_cube_split",
]  # fmt: skip
EXTRA = ["pyramid5", "pyramid7", "pyramid8", "triakis_octahedron"]  # valence 5, 7, 8 (DualScope.tla)
INVS = ["WellFormedD", "RingLaws", "RingGeometry", "DualityLaws", "RenumLaw", "EmitCase"]
FILES = [
    ("mpas_QU1920", "/repo/test/meshfiles/mpas/QU/mesh.QU.1920km.151026.nc", {"use_dual": False}),
    ("mpas_QU1920_dual", "/repo/test/meshfiles/mpas/QU/mesh.QU.1920km.151026.nc", {"use_dual": True}),
    ("exodus_CSne8", "/repo/test/meshfiles/exodus/outCSne8/outCSne8.g", {}),
    ("scrip_CSne8", "/repo/test/meshfiles/scrip/outCSne8/outCSne8.nc", {}),
    ("ugrid_quad_hexagon", "/repo/test/meshfiles/ugrid/quad-hexagon/grid.nc", {}),
    ("ugrid_ov_RLL10_CSne4", "/repo/test/meshfiles/ugrid/ov_RLL10deg_CSne4/ov_RLL10deg_CSne4.ug", {}),
    ("ugrid_geoflow", "/repo/test/meshfiles/ugrid/geoflow-small/grid.nc", {}),
]
PARTIAL_FILES = {"ugrid_quad_hexagon"}


def tla_set(xs, quote=False):
    return "{" + ", ".join(('"%s"' % x) if quote else str(x) for x in xs) + "}"


def scope_cfg(names, rots, cuts, perm_nodes, perm_faces):
    return (
        "INIT DInit\nNEXT DNext\nCONSTANTS\n NameSet = %s\n RotSet = %s\n CutSet = %s\n PermNodes = %s\n PermFaces = %s\n"
        % (tla_set(names, True), tla_set(rots), tla_set(cuts), tla_set(perm_nodes, True), tla_set(perm_faces, True))
        + "".join("INVARIANT %s\n" % i for i in INVS)
        + "CHECK_DEADLOCK FALSE\n"
    )


def generate(ctx, names, rots, cuts, perm_nodes, perm_faces):
    """Model-check the ring laws on the scope; every state comes back as a case with its expected table."""
    r = ctx.tlc_ok(
        "DualScope",
        scope_cfg(names, rots, cuts, perm_nodes, perm_faces),
        what="ring laws (single cycle, exact CCW geometry, Euler duality, involution, renumbering) on %d meshes x %d rotations x cuts %s; perms of %s"
        % (len(names), len(rots) + 1, cuts, perm_nodes),
        workers=8,
        timeout=1500,
    )
    cases = []
    for v in r.prints:
        if not (isinstance(v, tuple) and len(v) == 2 and v[0] == "CASE"):
            continue
        e = v[1]
        cid = "%s/r%d/c%d" % (e["name"], e["rot"], e["cut"])
        if len(e["np"]):
            cid += "/n%s/f%s" % ("".join(map(str, e["np"])), "".join(map(str, e["fp"])))
        cases.append(
            {
                "id": cid,
                "name": e["name"],
                "rot": e["rot"],
                "cut": e["cut"],
                "renumbered": bool(len(e["np"])),
                "nodes": [list(n) for n in e["nodes"]],
                "faces": [list(f) for f in e["faces"]],
                "closed": bool(e["closed"]),
                "expect": [list(x) for x in e["expect"]],
                "n_qual": len(e["qual"]),
                "n_surrounded": len(e["surrounded"]),
                "valences": sorted(e["valences"]),
                "equal_norm": bool(e["equal_norm"]),
                "dual_convex": bool(e["dual_convex"]),
                "pole_node": bool(e["pole_node"]),
                "antimeridian_node": bool(e["antimeridian_node"]),
            }
        )
    if len(cases) + len(names) != r.distinct:
        raise Machinery("DualScope: %d cases printed for %d states (%d unloaded)" % (len(cases), r.distinct, len(names)))
    cases.sort(key=lambda c: c["id"])
    return cases


def python_renumber(case, rng, k):
    """A random renumbering of nodes, faces and start corners of a generated case (code -> spec
    direction: judged by the relations, no expected table travels with it)."""
    n, f = len(case["nodes"]), len(case["faces"])
    pn = list(range(n))
    pf = list(range(f))
    rng.shuffle(pn)
    rng.shuffle(pf)
    nodes = [None] * n
    for old, new in enumerate(pn):
        nodes[new] = case["nodes"][old]
    faces = [None] * f
    for old, new in enumerate(pf):
        g = [pn[x] for x in case["faces"][old]]
        s = rng.randrange(len(g))
        faces[new] = g[s:] + g[:s]
    return {
        "id": "%s/shuffle%d" % (case["id"], k),
        "name": case["name"],
        "rot": case["rot"],
        "cut": case["cut"],
        "renumbered": True,
        "nodes": nodes,
        "faces": faces,
        "closed": case["closed"],
        "n_qual": case["n_qual"],
        "n_surrounded": case["n_surrounded"],
        "valences": case["valences"],
        "pole_node": case["pole_node"],
        "antimeridian_node": case["antimeridian_node"],
    }


def planar_cases(rng, n, size):
    out = []
    for k in range(n):
        nx, ny = rng.randint(3, size), rng.randint(3, size)
        lon, lat, faces = meshgen.planar_mixed(nx, ny, rng, holes=rng.choice([0.0, 0.0, 0.1, 0.3]))
        # place the patch anywhere: shift in longitude (possibly across the antimeridian)
        shift = rng.choice([0.0, 170.0, -175.0, 95.0])
        lon = [((x + shift + 180.0) % 360.0) - 180.0 for x in lon]
        out.append(
            {"id": "planar:%d:%dx%d@%g" % (k, nx, ny, shift), "faces": faces, "lon": lon, "lat": lat, "n_node": len(lon),
             "closed": False, "check_ccw": True, "variant": k, "n_qual": 1}
        )  # fmt: skip
    return out


def planar_fine_cases(rng, n, size):
    """Planar patches scaled in lon/lat to face sizes ~1e-2 .. 1e-5 rad, at a generic position, near a pole and
    across the antimeridian.  Scaling in the (lon, lat) chart keeps incidence and orientation (float pre-check)."""
    out = []
    spots = [("generic", 33.3, 41.7), ("pole", 10.0, 89.5), ("antimeridian", 180.0, -30.0), ("southpole", -120.0, -89.7)]
    for k in range(n):
        nx, ny = rng.randint(3, size), rng.randint(3, size)
        x, y, faces = meshgen.planar_mixed(nx, ny, rng, holes=rng.choice([0.0, 0.0, 0.2]))
        tag, lon0, lat0 = spots[k % len(spots)]
        s = [1e-2, 1e-3, 1e-4, 1e-5][(k // len(spots)) % 4]       # patch spans 40*s degrees: faces ~ 40*s/nx degrees
        lon = [((lon0 + s * a + 180.0) % 360.0) - 180.0 for a in x]
        lat = [lat0 + s * b for b in y]
        out.append(
            {"id": "planarfine:%d:%dx%d:%s:s=%g" % (k, nx, ny, tag, s), "faces": faces, "lon": lon, "lat": lat, "n_node": len(lon),
             "closed": False, "check_ccw": True, "variant": k, "n_qual": 1, "fine": s}
        )  # fmt: skip
    return out


def _dot(a, b):
    return a[0] * b[0] + a[1] * b[1] + a[2] * b[2]


def _det(a, b, c):
    return (
        a[0] * (b[1] * c[2] - b[2] * c[1]) - a[1] * (b[0] * c[2] - b[2] * c[0]) + a[2] * (b[0] * c[1] - b[1] * c[0])
    )


def shrink(case, centre, M, tag):
    """The part of a TLC-certified mesh inside a cap around `centre`, shrunk by 1/M about it.

    Gnomonic projection onto the tangent plane at the centre maps great circles to straight lines; a homothety of
    that plane with factor 1/M keeps lines, incidence, convexity and orientation; so the shrunk faces are convex and
    counter-clockwise because the catalogue faces are (class inherited from the base mesh).  In exact integers node v
    goes to (M-1)(v.c) c + (c.c) v.  The combinatorial ring oracle does not depend on scale.  Python integers are
    unbounded, and the orientation of every shrunk face is re-checked exactly as an admission test (not a verdict)."""
    nodes, cc = case["nodes"], _dot(centre, centre)
    inside = lambda v: _dot(v, centre) > 0 and 4 * _dot(v, centre) ** 2 > cc * _dot(v, v)  # within 60 degrees of the centre
    faces = [f for f in case["faces"] if all(inside(nodes[k]) for k in f)]
    if not faces:
        return None
    used = sorted({k for f in faces for k in f})
    new = {old: i for i, old in enumerate(used)}
    faces = [[new[k] for k in f] for f in faces]
    pts = []
    for k in used:
        v = nodes[k]
        a, b = (M - 1) * _dot(v, centre), cc
        pts.append([a * centre[i] + b * v[i] for i in range(3)])
    # at least one fully surrounded node with >= 3 faces, else nothing is judged for ring order (selection only)
    cnt = {}
    for f in faces:
        for i in range(len(f)):
            e = frozenset((f[i], f[(i + 1) % len(f)]))
            cnt[e] = cnt.get(e, 0) + 1
    surrounded = [
        v for v in range(len(pts))
        if sum(v in f for f in faces) >= 3 and all(cnt[e] == 2 for e in cnt if v in e)
    ]  # fmt: skip
    if not surrounded:
        return None
    for f in faces:
        for i in range(len(f)):
            a, b = pts[f[i]], pts[f[(i + 1) % len(f)]]
            if any(_det(a, b, pts[w]) <= 0 for w in f if w not in (f[i], f[(i + 1) % len(f)])):
                raise Machinery("shrunk face is not convex counter-clockwise: %s %s" % (case["id"], tag))
    return {
        "id": "%s/shrunk:%s:M=%d" % (case["id"], tag, M), "name": case["name"], "rot": case["rot"], "cut": case["cut"],
        "renumbered": False, "nodes": pts, "faces": faces, "closed": False, "n_qual": len(surrounded),
        "n_surrounded": len(surrounded), "valences": case["valences"], "fine": 1.0 / M,
        "pole_node": any(p[0] == 0 and p[1] == 0 for p in pts), "antimeridian_node": any(p[1] == 0 and p[0] < 0 for p in pts),
    }  # fmt: skip


def shrunk_cases(gen, rng, n, Ms):
    """Fine meshes: caps of catalogue meshes shrunk about a node (exactly at a pole / on the antimeridian for the
    rotated images), about a point next to a node (near the pole, generic) and about face interior points."""
    pool = [c for c in gen if c["closed"] and not c["renumbered"]]
    out, tries = [], 0
    while len(out) < n and tries < 40 * n:
        tries += 1
        c = rng.choice(pool)
        kind = ("node", "near", "face")[tries % 3]
        if kind == "face":
            f = rng.choice(c["faces"])
            centre = [sum(c["nodes"][k][i] for k in f) for i in range(3)]
        else:
            v = rng.choice(c["nodes"])
            w = rng.choice([(1, 2, 3), (0, 1, 0), (-2, 1, 1), (3, -1, 2)]) if kind == "near" else (0, 0, 0)
            centre = [(40 if kind == "near" else 1) * v[i] + w[i] for i in range(3)]
        M = Ms[len(out) % len(Ms)]
        r = shrink(c, centre, M, "%s%s" % (kind, "".join("%+d" % x for x in centre)))
        if r is not None and r["id"] not in {x["id"] for x in out}:
            out.append(r)
    return out


PROV_CFG = """INIT Init
NEXT Next
CONSTANTS
 Radii = {"1", "2", "6371229", "1/2"}
 PreOps = {"face_lon", "construct_face_centers", "normalize"}
 MaxPre = %d
INVARIANT TypeOK
INVARIANT UnitSourceNeverMixed
INVARIANT NormalizeLastUnmixes
INVARIANT SameSphereWhenBothSupplied
INVARIANT ShippedCentresSurvive
INVARIANT Emit
CHECK_DEADLOCK FALSE
"""


def prov_scenarios(ctx, max_pre):
    """TLC enumerates coordinate provenance x scale x history before get_dual() (DualProv.tla)."""
    r = ctx.tlc_ok("DualProv", PROV_CFG % max_pre, what="provenance x radius x history scenarios (MaxPre=%d)" % max_pre, workers=4, timeout=600)
    out = []
    for v in r.prints:
        if isinstance(v, tuple) and len(v) == 2 and v[0] == "PROV":
            e = v[1]
            out.append({"nodes": e["nodes"], "centres": e["centres"], "radius": e["radius"], "hist": list(e["hist"]),
                        "mixed": bool(e["mixed"]), "node_scale": e["node_scale"], "face_scale": e["face_scale"],
                        "offc": bool(e["offc"]), "dual_nodes_at": e["dual_nodes_at"]})  # fmt: skip
    if not out:
        raise Machinery("DualProv emitted no scenario")
    out.sort(key=lambda p: (len(p["hist"]), p["hist"], p["nodes"], p["centres"], p["radius"], p["offc"]))
    return out


def with_prov(case, p, k, data=False):
    tag = "n:%s,c:%s%s,R:%s,h:%s" % (p["nodes"], p["centres"], "(off)" if p["offc"] else "", p["radius"], "+".join(p["hist"]) or "-")
    c = dict(case, id="%s/prov=%s" % (case["id"], tag), prov=p, variant=k, data=data, centres="prov")
    return c


DERIVE_CFG = """INIT Init
NEXT Next
CONSTANTS
 ParentOps = {"node_faces", "get_dual", "centres", "edges"}
 Kinds = {"n_face", "n_node", "n_edge"}
 Patterns = {1, 2, 3}
INVARIANT TypeOK
INVARIANT HeldIsMonotone
INVARIANT Emit
CHECK_DEADLOCK FALSE
"""


def derive_scenarios(ctx):
    """TLC enumerates parent history x selection dimension x pattern (DualDerive.tla)."""
    r = ctx.tlc_ok("DualDerive", DERIVE_CFG, what="derived grids: parent history x isel dimension x pattern", workers=4, timeout=600)
    out = []
    for v in r.prints:
        if isinstance(v, tuple) and len(v) == 2 and v[0] == "DERIVE":
            e = v[1]
            out.append({"ops": sorted(e["ops"]), "kind": e["kind"], "pat": int(e["pat"]), "held": bool(e["parent_held_node_faces"])})
    if len(out) != 16 * 3 * 3:
        raise Machinery("DualDerive emitted %d scenarios" % len(out))
    out.sort(key=lambda d: (d["kind"], d["pat"], d["ops"]))
    return out


def with_derive(case, d, k):
    tag = "%s:p%d:%s" % (d["kind"], d["pat"], "+".join(d["ops"]) or "-")
    c = {x: case[x] for x in case if x not in ("expect", "prov")}
    return dict(c, id="%s/isel=%s" % (case["id"], tag), derive=d, variant=k, data=False, centres="derived", closed=False,
                check_ccw=True, n_qual=1, n_surrounded=1)  # fmt: skip


def start_jit_off(ctx, cases):
    """Replay a subset with numba's JIT disabled, in one subprocess (runs beside the main replay)."""
    src = os.path.join(ctx.work, "jitoff_cases.json")
    dst = os.path.join(ctx.work, "jitoff_records.ndjson")
    with open(src, "w") as fh:
        json.dump(cases, fh)
    env = dict(os.environ)
    env["NUMBA_DISABLE_JIT"] = "1"
    env["PYTHONHASHSEED"] = "0"
    p = subprocess.Popen(
        [sys.executable, "-W", "ignore", "-m", "harness.x_c18", src, dst], cwd=VERIF, env=env,
        stdout=subprocess.PIPE, stderr=subprocess.STDOUT, text=True,
    )  # fmt: skip
    return p, dst


def finish_jit_off(p, dst, n):
    try:
        out, _ = p.communicate(timeout=1500)
    except subprocess.TimeoutExpired:
        p.kill()
        raise Machinery("JIT-off replay subprocess timed out")
    if p.returncode != 0 or not os.path.exists(dst):
        raise Machinery("JIT-off replay subprocess failed rc=%s\n%s" % (p.returncode, (out or "")[-3000:]))
    with open(dst) as fh:
        recs = [json.loads(line) for line in fh if line.strip()]
    if len(recs) != n:
        raise Machinery("JIT-off replay returned %d records for %d cases" % (len(recs), n))
    return recs


def judge(ctx, recs):
    """TLC judges the records: {id: failed clauses}, {id: ring diagnosis}."""
    failed, diag = {}, {}
    if not recs:
        return failed, diag
    path = os.path.join(ctx.work, "dual_%d.ndjson" % len(ctx.tlc_runs))
    with open(path, "w") as fh:
        for r in recs:
            fh.write(json.dumps(r) + "\n")
    res = ctx.tlc_ok(
        "JudgeDual",
        "INIT Init\nNEXT Next\nINVARIANT Judge\nCHECK_DEADLOCK FALSE\n",
        what="judge %d recorded duals" % len(recs),
        env={"REC_FILE": path},
        workers=8,
        count=False,
        timeout=2400,
    )
    if res.distinct < len(recs):
        raise Machinery("judge visited %d states for %d records" % (res.distinct, len(recs)))
    for v in res.prints:
        if isinstance(v, tuple) and len(v) == 3 and v[0] == "V":
            failed[v[1]] = set(v[2])
        elif isinstance(v, tuple) and len(v) == 3 and v[0] == "S":
            diag[v[1]] = dict(v[2])
    ctx.traces += len(recs)
    os.remove(path)
    return failed, diag


def run(ctx):
    rng = random.Random(ctx.seed)
    thorough = ctx.tier == "thorough"
    names = CATALOGUE + EXTRA
    rots = list(range(1, 25)) if thorough else [2, 5, 9, 12, 16, 19, 21, 24]
    cuts = [2, 3, 4, 5, 7] if thorough else [2, 3, 5]
    perm_nodes = ["tetrahedron", "octahedron"] if thorough else ["tetrahedron"]
    perm_faces = ["tetrahedron"]

    # 1. model + generator ---------------------------------------------------------------
    gen = generate(ctx, names, rots, cuts, perm_nodes, perm_faces)
    covered = sorted({v for c in gen for v in c["valences"] if v >= 3})
    if not set(range(3, 9)) <= set(covered):
        raise Machinery("generated scope does not cover node valences 3..8: %s" % covered)
    if not any(c["pole_node"] for c in gen) or not any(c["antimeridian_node"] for c in gen):
        raise Machinery("generated scope has no node at a pole / on the antimeridian")
    ctx.note("valences_covered", covered)
    ctx.note("generated", {
        "cases": len(gen), "closed": sum(c["closed"] for c in gen), "partial": sum(not c["closed"] for c in gen),
        "renumbered_by_tlc": sum(c["renumbered"] for c in gen), "with_pole_node": sum(c["pole_node"] for c in gen),
        "with_antimeridian_node": sum(c["antimeridian_node"] for c in gen),
        "dual_faces_not_all_convex": sum(not c["dual_convex"] for c in gen),
    })  # fmt: skip

    cases = []
    for k, c in enumerate(gen):
        c = dict(c, variant=k, centres="derived")
        cases.append(c)
    # random renumberings of the larger meshes (node ids, face ids, start corners), seeded
    pool = [c for c in gen if not c["renumbered"] and c["name"] not in ("tetrahedron",) and c["rot"] in (0, rots[0], rots[-1])]
    for k, c in enumerate(rng.sample(pool, min(len(pool), 600 if thorough else 60))):
        cases.append(dict(python_renumber(c, rng, k), variant=k, centres="derived"))
    # the source supplies the face centres (as lon/lat only, as x/y/z only, as both)
    sup = [c for c in gen if not c["renumbered"] and c["rot"] in (0, rots[1]) and c["cut"] in (0, 5)]
    for k, c in enumerate(sup):
        mode = ("lonlat_only", "xyz_only", "both")[k % 3]
        cases.append(dict(c, id=c["id"] + "/centres=" + mode, variant=k, centres=mode))
    # nothing to produce: no node has three faces -> degenerate, not judged
    skipped_degenerate = [c["id"] for c in cases if c["n_qual"] == 0]
    cases = [c for c in cases if c["n_qual"] > 0]
    ctx.note("not_judged_no_node_with_three_faces", len(skipped_degenerate))

    # fine meshes: caps of the certified meshes shrunk to face sizes 1e-1 .. 1e-6 of the original
    fine = shrunk_cases(gen, rng, 400 if thorough else 90, [10, 100, 1000, 10**4, 10**5, 10**6] if thorough else [100, 10**4, 10**5, 10**3])
    for k, c in enumerate(fine):
        cases.append(dict(c, variant=k, centres="derived"))
    ctx.note("fine_meshes", {"shrunk_catalogue_caps": len(fine), "with_pole_node": sum(c["pole_node"] for c in fine),
                             "with_antimeridian_node": sum(c["antimeridian_node"] for c in fine)})  # fmt: skip

    # provenance x scale x history (DualProv.tla) crossed with every mesh family, fine meshes included
    scen = prov_scenarios(ctx, 2 if thorough else 1)
    plain = [p for p in scen if not p["hist"]]
    withh = [p for p in scen if p["hist"]]
    fams = [c for c in gen if c["closed"] and not c["renumbered"] and c["rot"] == 0]
    fams += [c for c in gen if not c["renumbered"] and c["rot"] == rots[0] and c["cut"] in (0, 5) and c["n_qual"] > 0 and c["name"] in ("pyramid7", "tetrakis_cube", "triakis_octahedron", "truncated_cube_split")]
    pcases, k = [], 0
    for c in (fams if thorough else fams[:15]):
        for p in plain:
            pcases.append(with_prov(c, p, k, data=(k % 7 == 0)))
            k += 1
    hpool = fams if thorough else fams[:: 1]
    for j, p in enumerate(withh):
        for c in (hpool if thorough else [hpool[j % len(hpool)], hpool[(j * 7 + 3) % len(hpool)]]):
            pcases.append(with_prov(c, p, k, data=(k % 7 == 0)))
            k += 1
    for j, c in enumerate(fine):
        for p in (scen[(3 * j) % len(scen)], scen[(3 * j + 1) % len(scen)], plain[j % len(plain)]):
            pcases.append(with_prov(dict(c, centres="prov"), p, k))
            k += 1
    seen = set()
    pcases = [c for c in pcases if not (c["id"] in seen or seen.add(c["id"]))]
    cases += pcases
    ctx.note("provenance_scenarios", {"scenarios": len(scen), "mixed_scale_at_get_dual": sum(p["mixed"] for p in scen),
                                      "cases": len(pcases), "families": len(fams)})  # fmt: skip

    # derived primal grids (DualDerive.tla): isel on n_face / n_node / n_edge of a parent with a TLC-chosen history
    dscen = derive_scenarios(ctx)
    parents = [c for c in gen if c["closed"] and not c["renumbered"] and c["rot"] == 0 and len(c["faces"]) >= 12]
    parents += [c for c in gen if c["closed"] and not c["renumbered"] and c["rot"] == rots[0] and c["name"] in ("tetrakis_cube", "pyramid8", "rhombicuboctahedron")]
    dcases = []
    for j, d in enumerate(dscen):
        for t in range(6 if thorough else 2):
            dcases.append(with_derive(parents[(j * 5 + t * 3) % len(parents)], d, j + t))
    seen = set()
    dcases = [c for c in dcases if not (c["id"] in seen or seen.add(c["id"]))]
    cases += dcases
    ctx.note("derived_grid_scenarios", {"scenarios": len(dscen), "parent_held_node_faces": sum(d["held"] for d in dscen),
                                        "cases": len(dcases), "parents": len(parents)})  # fmt: skip

    # inputs beyond the enumerated scope (code -> spec)
    big = planar_cases(rng, 150 if thorough else 12, 14 if thorough else 9)
    big += planar_fine_cases(rng, 64 if thorough else 16, 9)
    big += [with_prov(c, scen[(5 * j + 2) % len(scen)], j) for j, c in enumerate(big)]
    coarse = [c for c in big if "prov" not in c and not c.get("fine")]
    big += [with_derive(coarse[j % len(coarse)], d, j) for j, d in enumerate(dscen) if j % (1 if thorough else 3) == 0]
    if thorough:
        for tag, path, kw in FILES:
            if os.path.exists(path):
                big.append({"id": "file:" + tag, "file": path, "open_kwargs": kw, "closed": tag not in PARTIAL_FILES, "check_ccw": True,
                            "variant": 0, "data": True, "n_qual": 1})  # fmt: skip

    # JIT off: a subset, in one subprocess
    jo_src = [c for c in cases if c["centres"] in ("derived", "prov") and (c["rot"] in (0, rots[2]) or c["renumbered"])]
    jo_src = rng.sample(jo_src, min(len(jo_src), 600 if thorough else 70))
    jo_cases = [dict(c, id=c["id"] + "/jit=off") for c in jo_src] + [dict(c, id=c["id"] + "/jit=off") for c in big[:6] + [b for b in big if b.get("fine")][:6]]
    proc, dst = start_jit_off(ctx, jo_cases)

    # 2. replay into the implementation ---------------------------------------------------
    try:
        recs, pool_info = drv.safe_map(cases + big)
    except BaseException:
        proc.kill()
        raise
    recs += finish_jit_off(proc, dst, len(jo_cases))
    by_id = {c["id"]: c for c in cases + big + jo_cases}

    # 3. TLC judges -------------------------------------------------------------------------
    skipped = {r["id"]: r["skip"] for r in recs if "skip" in r}
    errs = {r["id"]: r["error"] for r in recs if "error" in r}
    notrun = [r["id"] for r in recs if "notrun" in r]
    if notrun and not errs:
        raise Machinery("%d cases were not replayed although no single case reproduced the crash of a replay worker" % len(notrun))
    ctx.note("replay_pool", pool_info)
    ctx.note("dual_nodes_accepted_through_pole_snap", {"records": sum(bool(r.get("pos_snapped")) for r in recs), "nodes": sum(r.get("pos_snapped", 0) for r in recs)})
    ctx.note("dataset_path", {"judged": sum("dsdata" in r for r in recs), "unavailable": sum("dataset_unavailable" in r for r in recs)})
    good = [r for r in recs if "skip" not in r and "error" not in r and "notrun" not in r]
    small = [r for r in good if len(r["mesh"]) <= 60]
    large = [r for r in good if len(r["mesh"]) > 60]
    failed, diag = judge(ctx, small)
    if large:
        f2, d2 = judge(ctx, large)
        failed.update(f2)
        diag.update(d2)

    def sig_of(rid):
        c = by_id[rid]
        return {
            "centres": c.get("centres", "derived"),
            "jit": "off" if rid.endswith("/jit=off") else "on",
            "closed": bool(c["closed"]),
            "source": "file" if "file" in c else ("planar" if "lon" in c else "catalogue"),
            "fine": bool(c.get("fine")),
            "mixed_scale": bool((c.get("prov") or {}).get("mixed")),
            "radius": (c.get("prov") or {}).get("radius", "1"),
            "shipped_off_centroid": bool((c.get("prov") or {}).get("offc")),
            "derived": (c["derive"]["kind"] if "derive" in c else "no"),
            "parent_held_node_faces": bool((c.get("derive") or {}).get("held")),
        }

    def replay_of(rid):
        c = by_id[rid]
        return {k: c[k] for k in c if k not in ("expect",)}

    for rid, msg in sorted(errs.items()):
        ctx.violation(rid, "Raises", detail=msg, replay=replay_of(rid), sig=dict(sig_of(rid), site=msg.split(":")[0]))
    for rid, cl in sorted(failed.items()):
        # a wrong ring implies a wrong dual edge set and a mismatch with the generated table: report the root clause
        # (the implied ones stay in `detail`)
        shown = cl - {"MatchesGenerated", "EulerDuality"} if "DualRingsCCW" in cl else cl
        for clause in sorted(shown):
            s = sig_of(rid)
            if rid in diag:
                s["ring_failure"] = diag[rid].get("kind")
            ctx.violation(rid, clause, detail={"failed": sorted(cl), "diagnosis": diag.get(rid)}, replay=replay_of(rid), sig=s)

    if pool_info["broken_chunks"] and not errs and not failed:
        raise Machinery("a replay worker died or hung (%s) but no case reproduces it and every record is accepted" % pool_info)

    # 4. bookkeeping ---------------------------------------------------------------------------
    for r in good:
        c = by_id[r["id"]]
        nontrivial = c.get("n_surrounded", 1) > 0
        key = (json.dumps(r["mesh"]), json.dumps(c.get("nodes", c.get("lon"))), c.get("centres", "derived"), r["id"].endswith("/jit=off"))
        ctx.count(len(r["dual"]) or 1, key if nontrivial else None)
    ctx.note("records", {"judged": len(good), "raised": len(errs), "skipped": len(skipped), "not_replayed_after_crashes": len(notrun), "jit_off": len(jo_cases),
                         "planar_or_file": len(big), "skipped_reasons": sorted(set(skipped.values()))})  # fmt: skip
    ctx.exhaustive = False
    ctx.rule = (
        "TLC model-checks DualScope.tla: for every catalogue polyhedron (valence 3..8) x cube rotation x cut x (small meshes) "
        "every renumbering, each surrounded node's ring is one cycle, consecutive faces share a side at the node, the ring is "
        "counter-clockwise by exact integer determinants (wedges tile the turn once; face interior points sorted by azimuth; the "
        "reversed ring is rejected), Euler duality and dual(dual) = mesh hold, renumbering commutes; every state is emitted with "
        "its expected ring table. Each case is built with Grid.from_topology (pole longitude, +-180 and pre-access order varied), "
        "Grid.get_dual, UxDataArray.get_dual and UxDataset.get_dual (face and node tracers) are called, JIT on and (subset) off, and TLC "
        "(JudgeDual.tla) judges table, ring order per surrounded node, sizes, positions (projected to face ids within 1e-8 rad) "
        "and data. Evaluations = dual faces judged; non-trivial = distinct (mesh, placement, configuration) with a surrounded node."
    )
    for r in good[:1] + good[len(good) // 2 : len(good) // 2 + 1]:
        ctx.sample({k: r[k] for k in ("id", "mesh", "dual", "pos", "dn_node", "dn_face") if k in r} if len(r["mesh"]) <= 14 else {"id": r["id"], "n_face": len(r["mesh"]), "n_dual_face": len(r["dual"])})
    ctx.assumptions += [
        "TLC's evaluator and the CommunityModules Json reader",
        "projection: integer tables (fill -> -1 after dtype/fill flags), positions -> face ids by nearest oracle centre within 1e-8 rad",
        "float evaluation of lattice directions to lon/lat degrees",
        "random planar patches and sample files are not TLC-certified counter-clockwise: a float orientation pre-check admits them",
        "partial grids: 'surrounded by at least three faces' is read as 'at least three faces meet at the node' (DESIGN 6/C18); "
        "ring order is judged only at fully surrounded nodes, and the numbering of dual faces is left free",
        "JIT off = NUMBA_DISABLE_JIT=1 with numba's DISABLE_JIT frozen in the subprocess (uxarray/grid/area.py resets it at import)",
        "a face centre within the library's pole-snap cap (1 - |z| < 1e-8, i.e. ~1.4e-4 rad from a pole) may be reported at the pole "
        "itself (C04's stated pole-snapping tolerance); such dual nodes are counted in the evidence, not judged to 1e-8 rad",
        "grids whose file supplies its own face centres (MPAS) are judged against the centres the grid reports, not the centroid oracle",
        "UxDataset.get_dual is judged only when a UxDataset can be built at all (C10's subject); otherwise noted",
    ]

"""X02 (extension) - zonal face weights: interval algebra on a latitude circle.

Subject: uxarray/grid/integrate.py (_process_overlapped_intervals, _get_zonal_face_interval,
_get_faces_constLat_intersection_info, _is_edge_gca, _get_zonal_faces_weight_at_constLat).

Spec   tla/ZonalOps.tla       the definition of the weights (every covered cell of the circle is shared equally
                              among the faces covering it), exact integers scaled by 12
       tla/ZonalIntervals.tla faces as arcs on an integer circle; the implementation-shaped split-at-the-seam +
                              sorted-event sweep (L2); TLC proves L2 = definition and the algebraic laws for every
                              configuration of the scope, and emits configurations
       tla/ZonalMesh.tla      exact latitude structure of lattice meshes (on C13's BoundsSpec)
Judge  tla/JudgeZonal.tla     decides every recorded call
Replay (a) the emitted interval configurations into the real _process_overlapped_intervals (two units, shuffled
           rows, relabelled faces);
       (b) lat-lon rectangles on the cell grid into _get_zonal_faces_weight_at_constLat (is_latlonface=True, and
           with great-circle edges where that cannot change the answer): exact rational expectation;
       (c) catalogue meshes at latitudes at / near / between their exact critical latitudes: which faces must carry
           weight is TLC's, the weights are compared with a float oracle written here and under symmetries.
Not judged (documented limits of the code, decided in JudgeZonal!Claimed / ZonalIntervals!DegenerateRaises): faces
enclosing a pole away from the pole latitude itself (longitude span >= pi), zero-length intervals, two overlapping
intervals of one face.
"""

from __future__ import annotations

import contextlib
import io
import json
import math
import os
import random
import sys

from checks import c13
from harness import catalog
from harness import ux as hux
from harness.core import Machinery
from harness.pool import pmap

PROP = "X02"
TWO_PI = 2.0 * math.pi
SHIMS = os.path.join(os.path.dirname(os.path.dirname(os.path.abspath(__file__))), "harness", "shims")
if SHIMS not in sys.path:
    sys.path.append(SHIMS)  # after every real path: only used when the optional package pyfma is absent

LAWS = [
    "SweepNeverRaises", "SweepIsDefinition", "RowsDefinitionAgrees", "NonNegative", "SumIsCovered", "UntouchedGetsNothing",
    "PermutationLaw", "RotationLaw", "ReflectionLaw", "IdenticalShareEqually", "MonotoneLaw", "NestedLaw",
]


# ----------------------------------------------------------------------------- 1. the model
def model_cfg(m, nf, two=False, maxlen=99, emit=10**6, seed=0):
    return (
        "INIT Init\nNEXT Next\nCONSTANTS\n M = %d\n NF = %d\n TwoArcs = %s\n MaxLen = %d\n EmitMod = %d\n Seed = %d\n"
        "INVARIANT Laws\nINVARIANT DegenerateRaises\nINVARIANT Emit\nCHECK_DEADLOCK FALSE\n" % (m, nf, "TRUE" if two else "FALSE", maxlen, emit, seed)
    )


def model(ctx, m, nf, two=False, maxlen=99, emit=10**6):
    what = "zonal interval laws (%s) on every configuration of %d faces, %s, on a circle of %d cells%s" % (
        ", ".join(LAWS), nf, "up to two arcs each" if two else "one arc each", m, "" if maxlen >= m else ", arcs <= %d cells" % maxlen)
    r = ctx.tlc("ZonalIntervals", model_cfg(m, nf, two, maxlen, emit, ctx.seed % 997), what=what, workers=8, timeout=3000)
    fails = c13.parse_tagged(r.out, tags=("LAWFAIL",))
    if fails:
        raise Machinery("ZonalIntervals: laws %s fail on %s" % (sorted(fails[0][2]), fails[0][1]))
    if not r.ok:
        raise Machinery("ZonalIntervals M=%d NF=%d failed: %s\n%s" % (m, nf, r.violated, r.out[-3000:]))
    out = []
    for v in c13.parse_tagged(r.out, tags=("ZCFG",)):
        c = v[1]
        out.append({"rows": [list(x) for x in c["rows"]], "n": c["n"], "m": c["m"], "w": list(c["w"]), "total": c["total"], "maxlen": c["maxlen"],
                    "two": two})
    out.sort(key=lambda c: json.dumps(c["rows"]))
    return out, r


# ----------------------------------------------------------------------------- 2. the sweep itself
def sweep_call(job):
    """One configuration into the real _process_overlapped_intervals."""
    import pandas as pd

    hux.import_ux()
    from uxarray.grid.integrate import _process_overlapped_intervals

    rows, n, m, unit, order, labels = job["rows"], job["n"], job["m"], job["unit"], job["order"], job["labels"]
    u = 1.0 if unit == "cells" else TWO_PI / m
    data = [{"start": rows[k][0] * u, "end": rows[k][1] * u, "face_index": labels[rows[k][2] - 1]} for k in order]
    rec = {"kind": "sweep", "id": job["id"], "rows": rows, "n": n, "m": m}
    try:
        with contextlib.redirect_stdout(io.StringIO()):
            contrib, total = _process_overlapped_intervals(pd.DataFrame(data))
    except Exception as e:  # noqa - every generated configuration is inside the documented domain
        rec.update(raised=True, error="%s: %s" % (type(e).__name__, str(e)[:120]), got=[0] * n, tot=0, exact=False)
        return rec
    got, exact = [], True
    keys = {float(k): v for k, v in contrib.items()}
    for f in range(n):
        x = 12.0 * float(keys.pop(float(labels[f]), 0.0)) / u
        got.append(int(round(x)))
        exact = exact and abs(x - round(x)) <= 1e-9
    t = float(total) / u
    exact = exact and abs(t - round(t)) <= 1e-9 and not keys  # no contribution for a face that was not handed over
    rec.update(raised=False, got=got, tot=int(round(t)), exact=bool(exact))
    return rec


def sweep_jobs(cfgs, rng):
    jobs = []
    for k, c in enumerate(cfgs):
        nrow = len(c["rows"])
        for v in range(2):
            order = list(range(nrow))
            labels = list(range(c["n"]))
            if v == 1:
                rng.shuffle(order)
                labels = rng.sample([3, 7, 51, 100, 2, 9, 64], c["n"])
            jobs.append({"id": "sweep:%d:%s" % (k, "plain" if v == 0 else "shuffled"), "rows": c["rows"], "n": c["n"], "m": c["m"],
                         "unit": "cells" if (k + v) % 2 == 0 else "radians", "order": order, "labels": labels})
    return jobs


# ----------------------------------------------------------------------------- 3. lat-lon rectangles (exact rational expectation)
BANDS = {"north": (10.0, 30.0, 50.0), "south": (-50.0, -30.0, -10.0), "equator": (-20.0, 0.0, 25.0)}


def xyz(lon, lat):
    return [math.cos(lat) * math.cos(lon), math.cos(lat) * math.sin(lon), math.sin(lat)]


def latlon_call(job):
    import numpy as np

    hux.import_ux()
    from uxarray.grid.integrate import _get_zonal_faces_weight_at_constLat

    m, arcs, bands, lam = job["m"], job["arcs"], job["bands"], job["lam"]
    u = TWO_PI / m
    edges, bounds = [], []
    for (s, ln), (ls, ln_) in zip(arcs, bands):
        lw, le = (s % m) * u, ((s + ln) % m) * u
        c = [xyz(lw, ls), xyz(le, ls), xyz(le, ln_), xyz(lw, ln_)]
        edges.append([[c[0], c[1]], [c[1], c[2]], [c[2], c[3]], [c[3], c[0]]])
        bounds.append([[ls, ln_], [lw, le]])
    rec = {"kind": "weights", "id": job["id"], "rows": job["rows"], "n": len(arcs), "m": m}
    try:
        with contextlib.redirect_stdout(io.StringIO()):
            df = _get_zonal_faces_weight_at_constLat(np.array(edges), math.sin(lam), np.array(bounds), is_directed=False, is_latlonface=job["latlon"])
        w = [float(x) for x in df["weight"].values]
        if [int(x) for x in df["face_index"].values] != list(range(len(arcs))):
            raise Machinery("unexpected face_index column %s" % list(df["face_index"].values))
    except Machinery:
        raise
    except Exception as e:  # noqa
        rec.update(raised=True, error="%s: %s" % (type(e).__name__, str(e)[:120]), got=[0] * len(arcs), exact=False)
        return rec
    t = job["covered"]
    xs = [12.0 * t * x for x in w]
    rec.update(raised=False, got=[int(round(x)) for x in xs], exact=bool(all(abs(x - round(x)) <= 1e-7 for x in xs)), weights=w)
    return rec


def latlon_jobs(cfgs, rng, per_cfg):
    jobs = []
    for k, c in enumerate(cfgs):
        if c["two"] or c["m"] != 12:
            continue
        # arcs per face from the rows (one arc each here): a face through the seam has two rows [0, e] and [s, m]
        m, n = c["m"], c["n"]
        arcs = []
        for f in range(1, n + 1):
            rs = sorted([r for r in c["rows"] if r[2] == f])
            if not rs:
                arcs.append(None)
            elif len(rs) == 1:
                arcs.append((rs[0][0], rs[0][1] - rs[0][0]))
            else:
                arcs.append((rs[1][0], (m - rs[1][0]) + rs[0][1]))
        for _ in range(per_cfg):
            name = rng.choice(sorted(BANDS))
            p0, p1, p2 = (math.radians(x) for x in BANDS[name])
            which = rng.choice(["mid1", "mid2", "shared", "bottom", "above", "below"])
            band_of = [rng.choice([1, 2]) for _ in range(n)]
            lam = {"mid1": (p0 + p1) / 2, "mid2": (p1 + p2) / 2, "shared": p1, "bottom": p0, "above": p1 + 1e-6, "below": p1 - 1e-6}[which]
            lo_hi = [((p0, p1) if band_of[f] == 1 else (p1, p2)) for f in range(n)]
            cand = [f for f in range(n) if arcs[f] is not None and lo_hi[f][0] - 1e-12 <= lam <= lo_hi[f][1] + 1e-12]
            if not cand:
                continue
            renum = {f: i + 1 for i, f in enumerate(cand)}
            rows = [[r[0], r[1], renum[r[2] - 1]] for r in c["rows"] if (r[2] - 1) in renum]
            covered = len({x for r in rows for x in range(r[0], r[1])})
            # great-circle top / bottom edges leave the answer unchanged only where they cannot reach the latitude
            for latlon in ([True, False] if (c["maxlen"] <= 2 and which in ("mid1", "mid2") and name != "equator") or (name == "equator" and which == "shared" and c["maxlen"] <= 2) else [True]):
                jobs.append({"id": "latlon:%d:%s:%s:%s:%s" % (k, name, which, "".join(map(str, band_of)), "LL" if latlon else "GCA"), "m": m,
                             "arcs": [arcs[f] for f in cand], "bands": [((p0, p1) if band_of[f] == 1 else (p1, p2)) for f in cand],
                             "lam": lam, "latlon": latlon, "rows": rows, "covered": covered})
    return jobs


# ----------------------------------------------------------------------------- 4. lattice meshes
def mesh_facts(ctx, entries):
    path = os.path.join(ctx.work, "meshes.ndjson")
    with open(path, "w") as fh:
        for e in entries:
            fh.write(json.dumps({"id": catalog.eid(e), "nodes": e["nodes"], "faces": e["faces"]}) + "\n")
    r = ctx.tlc_ok("ZonalMesh", "INIT Init\nNEXT Next\nINVARIANT Sane\nINVARIANT Emit\nCHECK_DEADLOCK FALSE\n",
                   what="exact critical latitudes and per-face latitude ranges of %d catalogue meshes" % len(entries), workers=8, env={"MESH_FILE": path}, timeout=3000)
    vals = c13.parse_tagged(r.out, tags=("ZMESH", "ZSKIP"))
    if len(vals) != len(entries):
        raise Machinery("ZonalMesh: %d meshes in, %d out" % (len(entries), len(vals)))
    facts = {}
    for v in vals:
        if v[0] == "ZMESH":
            x = v[1]
            facts[x["id"]] = {"crit": [list(c) for c in x["crit"]], "lo": list(x["lo"]), "hi": list(x["hi"]), "pole": [bool(b) for b in x["pole"]],
                              "eqedge": [bool(b) for b in x["eqedge"]], "n": x["n"], "nodepos": sorted(x["nodepos"]),
                              "flat": [sorted(z) for z in x["flat"]], "corners": [sorted(z) for z in x["corners"]], "tops": [sorted(z) for z in x["tops"]], "reenter": [sorted(z) for z in x["reenter"]]}
    os.remove(path)
    return facts, len(vals) - len(facts)


def transform(nodes, faces, t):
    """Exact symmetries of the lattice that keep the latitude circles: quarter turns about the polar axis, the mirror
    y -> -y and the flip z -> -z (the last two reverse orientation: corners are listed the other way round)."""
    if t[0] == "turn":
        q = t[1]
        f = {1: lambda v: [-v[1], v[0], v[2]], 2: lambda v: [-v[0], -v[1], v[2]], 3: lambda v: [v[1], -v[0], v[2]]}[q]
        return [f(v) for v in nodes], [list(x) for x in faces], 1
    if t[0] == "mirror":
        return [[v[0], -v[1], v[2]] for v in nodes], [list(x[::-1]) for x in faces], 1
    return [[v[0], v[1], -v[2]] for v in nodes], [list(x[::-1]) for x in faces], -1


def build_mesh(nodes, faces):
    import numpy as np

    ux = hux.import_ux()
    from uxarray.grid.utils import _get_cartesian_face_edge_nodes

    _, FILL = hux.consts()
    lon = [math.degrees(math.atan2(v[1], v[0])) if (v[0] or v[1]) else 0.0 for v in nodes]
    lat = [math.degrees(math.atan2(v[2], math.hypot(v[0], v[1]))) for v in nodes]
    g = ux.Grid.from_topology(np.array(lon, dtype=float), np.array(lat, dtype=float), hux.pad_table(faces), fill_value=FILL)
    b = np.asarray(g.bounds.values, dtype=float)
    fe = _get_cartesian_face_edge_nodes(g.face_node_connectivity.values, g.n_face, g.n_max_face_edges, g.node_x.values, g.node_y.values, g.node_z.values)
    return b, fe


def call_weights(b, fe, lam):
    import numpy as np

    from uxarray.grid.integrate import _get_zonal_faces_weight_at_constLat

    cand = [f for f in range(len(b)) if b[f][0][0] - 1e-9 <= lam <= b[f][0][1] + 1e-9]
    if not cand:
        return cand, None, "no candidate"
    try:
        with contextlib.redirect_stdout(io.StringIO()):
            df = _get_zonal_faces_weight_at_constLat(fe[np.array(cand)], math.sin(lam), b[np.array(cand)], is_directed=False)
        return cand, [float(x) for x in df["weight"].values], None
    except Exception as e:  # noqa
        return cand, None, "%s: %s" % (type(e).__name__, str(e)[:120])


def unit(v):
    n = math.sqrt(v[0] * v[0] + v[1] * v[1] + v[2] * v[2])
    return (v[0] / n, v[1] / n, v[2] / n)


def face_arcs(vs, lam):
    """Arcs (start, length) of the parallel inside the closed convex face with integer corners vs.  Float oracle,
    independent of uxarray: crossing longitudes from the closed form cos(lon - phi0) = -nz z0 / (h r)."""
    n = len(vs)
    z0, r = math.sin(lam), math.cos(lam)
    us = [unit(v) for v in vs]
    pts = []
    for i in range(n):
        a, b = vs[i], vs[(i + 1) % n]
        nx, ny, nz = a[1] * b[2] - a[2] * b[1], a[2] * b[0] - a[0] * b[2], a[0] * b[1] - a[1] * b[0]
        h = math.hypot(nx, ny)
        if h == 0:
            if abs(z0) < 1e-15:  # an edge of the equator lying on the parallel
                pts += [math.atan2(a[1], a[0]) % TWO_PI, math.atan2(b[1], b[0]) % TWO_PI]
            continue
        c = -nz * z0 / (h * r) if r > 0 else 2.0
        if abs(c) > 1.0 + 1e-12:
            continue
        d = math.acos(max(-1.0, min(1.0, c)))
        nn = math.sqrt(nx * nx + ny * ny + nz * nz)
        ua, ub = us[i], us[(i + 1) % n]
        for lon in (math.atan2(ny, nx) + d, math.atan2(ny, nx) - d):
            p = (r * math.cos(lon), r * math.sin(lon), z0)
            # within the arc: (a x p).n >= 0 and (p x b).n >= 0
            t1 = ((ua[1] * p[2] - ua[2] * p[1]) * nx + (ua[2] * p[0] - ua[0] * p[2]) * ny + (ua[0] * p[1] - ua[1] * p[0]) * nz) / nn
            t2 = ((p[1] * ub[2] - p[2] * ub[1]) * nx + (p[2] * ub[0] - p[0] * ub[2]) * ny + (p[0] * ub[1] - p[1] * ub[0]) * nz) / nn
            if t1 >= -1e-12 and t2 >= -1e-12:
                pts.append(lon % TWO_PI)
    uniq = []
    for x in sorted(pts):
        if not uniq or (abs(x - uniq[-1]) > 1e-9 and abs(x - uniq[0] - TWO_PI) > 1e-9):
            uniq.append(x)
    if len(uniq) < 2:
        return []
    arcs = []
    for i in range(len(uniq)):
        s = uniq[i]
        d = (uniq[(i + 1) % len(uniq)] - s) % TWO_PI
        mid = s + d / 2
        p = (r * math.cos(mid), r * math.sin(mid), z0)
        inside = True
        for j in range(n):
            a, b = us[j], us[(j + 1) % n]
            det = a[0] * (b[1] * p[2] - b[2] * p[1]) - a[1] * (b[0] * p[2] - b[2] * p[0]) + a[2] * (b[0] * p[1] - b[1] * p[0])
            if det < -1e-12:
                inside = False
                break
        if inside:
            arcs.append((s, d))
    return arcs


def oracle_weights(face_vecs, lam):
    """The definition (ZonalOps) in floats: every stretch of the circle is shared equally among the faces covering it."""
    arcs = [face_arcs(vs, lam) for vs in face_vecs]
    cuts = sorted({round(x % TWO_PI, 15) for a in arcs for (s, d) in a for x in (s, s + d)})
    if len(cuts) < 2:
        return None
    w = [0.0] * len(face_vecs)
    total = 0.0
    for i in range(len(cuts)):
        s = cuts[i]
        d = (cuts[(i + 1) % len(cuts)] - s) % TWO_PI
        if d < 1e-13:
            continue
        mid = (s + d / 2) % TWO_PI
        cover = [f for f, a in enumerate(arcs) if any(((mid - s0) % TWO_PI) < d0 for (s0, d0) in a)]
        if cover:
            total += d
            for f in cover:
                w[f] += d / len(cover)
    return [x / total for x in w] if total > 0 else None


def mesh_call(job):
    """All chosen latitudes of one mesh: the mesh itself and one symmetric image."""
    nodes, faces, fx = job["nodes"], job["faces"], job["facts"]
    b, fe = build_mesh(nodes, faces)
    tn, tf, zsign = transform(nodes, faces, job["sym"])
    tb, tfe = build_mesh(tn, tf)
    vecs = [[nodes[i] for i in f] for f in faces]
    recs = []
    for lam_id, kind, k, lam in job["lats"]:
        atpole = kind == "at" and fx["crit"][k - 1][1] == fx["crit"][k - 1][2]
        cand, w, err = call_weights(b, fe, lam)
        n = len(faces)
        rec = {"kind": "mesh", "id": "%s@%s" % (job["id"], lam_id), "n": n, "lam": [kind, k], "lo": fx["lo"], "hi": fx["hi"], "pole": fx["pole"],
               "onpar": [bool(fx["eqedge"][f] and kind == "at" and fx["crit"][k - 1][0] == 0) for f in range(n)], "atpole": bool(atpole),
               "nodepos": fx["nodepos"], "flat": fx["flat"], "corners": fx["corners"], "tops": fx["tops"], "reenter": fx["reenter"],
               "cand": [f + 1 for f in cand], "raised": w is None, "lam_deg": math.degrees(lam), "sym_applied": list(job["sym"])}
        pos, orc, sum1, even, sym = [False] * n, [True] * n, False, False, True
        # narrowing fields for known findings (float, never a verdict): a candidate whose reported longitude bounds wrap
        # through 0 and that meets the parallel in two separate arcs; a candidate with an odd number (>= 3) of contact points
        arcs_c = {f: face_arcs(vecs[f], lam) for f in cand}
        rec["seam_face_two_arcs"] = bool(any(b[f][1][0] > b[f][1][1] and len(arcs_c[f]) >= 2 for f in cand))
        if w is not None:
            for f, x in zip(cand, w):
                pos[f] = x > 1e-12
            sum1 = abs(math.fsum(w) - 1.0) <= 1e-9
            even = all(abs(x - 1.0 / len(w)) <= 1e-12 for x in w)
            if not atpole:
                o = oracle_weights([vecs[f] for f in cand], lam)
                if o is None:
                    orc = [False] * n
                else:
                    for f, x, y in zip(cand, w, o):
                        orc[f] = abs(x - y) <= 1e-9
                    rec["oracle"] = o
            tc, tw, terr = call_weights(tb, tfe, zsign * lam)
            tvecs = [[tn[i] for i in f] for f in tf]
            rec["seam_face_two_arcs"] = bool(rec["seam_face_two_arcs"] or any(tb[f][1][0] > tb[f][1][1] and len(face_arcs(tvecs[f], zsign * lam)) >= 2 for f in tc))
            sym = tw is not None and tc == cand and all(abs(x - y) <= 1e-9 for x, y in zip(w, tw))
            rec["weights"] = w
        else:
            rec["error"] = err
        rec.update(pos=pos, orc=orc, sum1=bool(sum1), even=bool(even), sym=bool(sym))
        recs.append(rec)
    return recs


TARGETED = {"truncated_octahedron_split/r14/c3", "rhombicuboctahedron/r10/c0"}  # every latitude of these meshes is replayed in both tiers


def mesh_jobs(entries, facts, rng, per_mesh):
    jobs = []
    for e in entries:
        fx = facts.get(catalog.eid(e))
        if fx is None:
            continue
        vals = [c13.lat_val(c) for c in fx["crit"]]
        lats = []
        for k in range(1, len(vals) + 1):
            lats.append(("at%d" % k, "at", k, vals[k - 1]))
            if k < len(vals):
                lats.append(("gap%d" % k, "gap", k, (vals[k - 1] + vals[k]) / 2))
                if vals[k] - vals[k - 1] > 1e-3:
                    lats.append(("near%d+" % k, "gap", k, vals[k - 1] + 1e-5))
                    lats.append(("near%d-" % (k + 1), "gap", k, vals[k] - 1e-5))
        if len(lats) > per_mesh and catalog.eid(e) not in TARGETED:
            lats = sorted(rng.sample(lats, per_mesh))
        sym = rng.choice([("turn", 1), ("turn", 2), ("turn", 3), ("mirror",), ("flip",)])
        jobs.append({"id": catalog.eid(e), "nodes": e["nodes"], "faces": e["faces"], "facts": fx, "lats": lats, "sym": sym})
    return jobs


def work(job):
    if job["what"] == "sweep":
        return [sweep_call(job)]
    if job["what"] == "latlon":
        return [latlon_call(job)]
    return mesh_call(job)


# ----------------------------------------------------------------------------- judge
def judge(ctx, recs):
    path = os.path.join(ctx.work, "zonal_recs.ndjson")
    keep = {"sweep": ("kind", "id", "rows", "n", "m", "raised", "got", "tot", "exact"),
            "weights": ("kind", "id", "rows", "n", "m", "raised", "got", "exact"),
            "mesh": ("kind", "id", "n", "lam", "lo", "hi", "pole", "onpar", "atpole", "cand", "raised", "pos", "orc", "sum1", "even", "sym", "nodepos", "flat", "corners", "tops", "reenter")}
    with open(path, "w") as fh:
        for r in recs:
            fh.write(json.dumps({k: r[k] for k in keep[r["kind"]]}) + "\n")
    res = ctx.tlc_ok("JudgeZonal", "INIT Init\nNEXT Next\nINVARIANT Judge\nCHECK_DEADLOCK FALSE\n", what="judge %d recorded calls" % len(recs),
                     env={"REC_FILE": path}, workers=8, count=False, timeout=3000)
    nblocks = (len(recs) + 63) // 64
    if res.distinct != len(recs) + nblocks:
        raise Machinery("JudgeZonal visited %d states for %d records" % (res.distinct, len(recs)))
    failed, unclaimed = {}, set()
    for v in c13.parse_tagged(res.out, tags=("V", "U")):
        if v[0] == "U":
            unclaimed.add(v[1])
        else:
            failed[v[1]] = (sorted(v[2]), dict(v[3]))
    os.remove(path)
    ctx.traces += len(recs)
    return failed, unclaimed


# ----------------------------------------------------------------------------- run
def run(ctx):
    rng = random.Random(ctx.seed)
    thorough = ctx.tier == "thorough"
    hux.import_ux()

    # 1. model: the laws on every configuration of the scope; emitted configurations feed the conformance parts
    cfgs = []
    scopes = [(6, 3, False, 99, 40), (4, 4, False, 99, 60), (6, 2, True, 99, 10), (12, 3, False, 2, 8), (12, 2, False, 5, 4)]
    if thorough:
        scopes = [(8, 3, False, 99, 150), (5, 4, False, 99, 200), (6, 3, True, 99, 400), (12, 3, False, 3, 20), (12, 2, False, 5, 2)]
    for m, nf, two, maxlen, emit in scopes:
        out, r = model(ctx, m, nf, two, maxlen, emit)
        cfgs += out
    ctx.note("configurations_emitted", len(cfgs))

    # 2./3. jobs
    jobs = [dict(j, what="sweep") for j in sweep_jobs(cfgs, rng)]
    ll = latlon_jobs(cfgs, rng, 3 if thorough else 2)
    jobs += [dict(j, what="latlon") for j in ll]

    # 4. meshes: closed catalogue meshes under the 24 rotations, and partial ones
    names = ["cube", "octahedron", "cuboctahedron", "truncated_octahedron", "rhombic_dodecahedron", "tetrakis_cube", "truncated_cube",
             "rhombicuboctahedron", "truncated_octahedron_split", "truncated_cube_split", "tetrahedron"]
    entries = catalog.entries(name=names, cut=[0, 3])
    entries = [e for e in entries if e["rot"] != 0 or True]
    targeted = [e for e in entries if catalog.eid(e) in TARGETED]
    entries = rng.sample([e for e in entries if catalog.eid(e) not in TARGETED], 260 if thorough else 68) + targeted
    facts, skipped = mesh_facts(ctx, entries)
    ctx.note("meshes", {"used": len(facts), "with_a_face_outside_the_C13_quantifier": skipped})
    mj = mesh_jobs(entries, facts, rng, 16 if thorough else 10)
    jobs += [dict(j, what="mesh") for j in mj]

    recs = [r for rs in pmap(work, jobs, chunk=1) for r in rs]
    failed, unclaimed = judge(ctx, recs)
    by_id = {r["id"]: r for r in recs}
    kinds = {}
    for r in recs:
        kinds[r["kind"]] = kinds.get(r["kind"], 0) + 1
        ctx.count(1, r["id"] if r["id"] not in unclaimed else None)
    ctx.note("records", kinds)
    ctx.note("mesh_latitudes_outside_documented_domain_not_judged", len(unclaimed))
    nf = {}
    drop = ("lo", "hi", "pole", "onpar", "nodepos", "flat", "corners", "tops", "reenter")
    for rid in sorted(failed):
        r = by_id[rid]
        clauses, sig = failed[rid]
        for clause in clauses:
            nf[clause] = nf.get(clause, 0) + 1
            s = dict(sig)
            s["kind"] = r["kind"]
            s["error"] = (r.get("error") or "").split(":")[0]
            if r["kind"] == "mesh":
                s["seam_face_two_arcs"] = r.get("seam_face_two_arcs", False)
                s["error_text"] = (r.get("error") or "")[:60]
            ctx.violation(rid, clause, detail={k: r[k] for k in r if k not in drop}, sig=s,
                          replay={k: r[k] for k in r if k in ("id", "kind", "rows", "n", "m", "lam_deg", "cand", "weights", "oracle", "error", "sym_applied", "got")})
    ctx.note("failed_clause_counts", nf)
    for r in recs[:1] + [x for x in recs if x["kind"] == "weights"][:1] + [x for x in recs if x["kind"] == "mesh" and not x["raised"]][:1]:
        ctx.sample({k: r[k] for k in r if k in ("id", "kind", "rows", "got", "tot", "lam_deg", "cand", "weights", "oracle")})
    ctx.exhaustive = True
    ctx.rule = (
        "TLC visits every configuration of <= 4 faces as arcs on a circle of 4..12 cells (one or two arcs per face), proves that the "
        "implementation-shaped sweep equals the definition of the weights and the laws, and emits a deterministic sample; each emitted configuration is "
        "replayed into _process_overlapped_intervals (two units, shuffled rows, relabelled faces) and, as lat-lon rectangles, into "
        "_get_zonal_faces_weight_at_constLat; catalogue meshes are replayed at latitudes at / near / between their exact critical latitudes. "
        "Non-trivial = judged record (inside the documented domain)."
    )
    ctx.assumptions += [
        "TLC's evaluator and the CommunityModules Json reader",
        "the optional package pyfma is absent here: harness/shims/pyfma.py supplies a correctly rounded fma (exact rational arithmetic)",
        "weights on lattice meshes are compared with a float oracle written for the check (closed-form crossing longitudes, the definition of the "
        "weights applied to float arcs); which faces must carry weight is decided exactly by TLC (ZonalMesh / BoundsSpec)",
        "candidate faces are selected from the bounds the implementation itself reports (Grid.bounds, checked by C13), with 1e-9 slack",
        "not judged: faces enclosing a pole away from the pole latitude (documented: longitude span < pi), zero-length intervals and two "
        "overlapping intervals of one face (ZonalIntervals!DegenerateRaises shows the sweep raises there)",
    ]

"""C02 - derived edges are exactly the boundary segments of the faces."""

from __future__ import annotations

import random

from checks import mesh_common as mc
from harness import meshgen
from harness.pool import pmap

PROP = "C02"


def cases_from_meshes(meshes, n_node, tag, l2=False, start=0):
    return [
        {"prop": PROP, "id": "%s:%d" % (tag, k), "mesh": m, "n_node": n_node, "order": k + start, "l2": l2}
        for k, m in enumerate(meshes)
    ]


def large_cases(rng, n, size):
    out = []
    for k in range(n):
        nx = rng.randint(3, size)
        ny = rng.randint(3, size)
        lon, lat, faces = meshgen.planar_mixed(nx, ny, rng, holes=rng.choice([0.0, 0.1, 0.3]))
        out.append(
            {"prop": PROP, "id": "planar:%d:%dx%d" % (k, nx, ny), "mesh": faces, "n_node": len(lon), "lon": lon, "lat": lat, "order": k}
        )
    return out


def run(ctx):
    rng = random.Random(ctx.seed)
    thorough = ctx.tier == "thorough"
    # 1. model: L2 => L1 on an exhaustive scope, which is also the generator
    meshes4, n4 = mc.gen_scope(ctx, 4, 2, [3, 4])
    cases = cases_from_meshes(meshes4, n4, "s4f2", l2=True)
    if thorough:
        meshes5, n5 = mc.gen_scope(ctx, 5, 2, [3, 4, 5])
        cases += cases_from_meshes(meshes5, n5, "s5f2", l2=True)
        meshes43, _ = mc.gen_scope(ctx, 4, 3, [3, 4], invs=["TypeOK", "L2_Edges", "L2_FaceEdges", "L2_NodesPerFace"])
        cases += cases_from_meshes(meshes43, 4, "s4f3", l2=False)
    else:
        meshes5, n5 = mc.gen_scope(ctx, 5, 2, [3, 4, 5], invs=["TypeOK"])
        pick = rng.sample(range(len(meshes5)), 4000)
        cases += [
            {"prop": PROP, "id": "s5f2:%d" % k, "mesh": meshes5[k], "n_node": n5, "order": k, "l2": True} for k in sorted(pick)
        ]
        meshes43, _ = mc.gen_scope(ctx, 4, 3, [3, 4], invs=["TypeOK"])
        pick = rng.sample(range(len(meshes43)), 2000)
        cases += [{"prop": PROP, "id": "s4f3:%d" % k, "mesh": meshes43[k], "n_node": 4, "order": k} for k in sorted(pick)]
    ctx.exhaustive = True
    ctx.rule = (
        "TLC enumerates every face-node table of the scope (MeshScope.tla), checks the L2 transcription "
        "of the edge algorithms against the L1 relations on each, and dumps the tables; each is built with "
        "Grid.from_topology in one of three access orders and the recorded edge tables are judged by TLC "
        "(JudgeMesh.tla). Non-trivial = distinct table with >= 2 faces or a face whose size differs from the row width."
    )
    # the same tables stored wider than their largest face ("any padding layout": every row padded)
    wide = []
    for k, c in enumerate(cases):
        if k % (3 if thorough else 7) == 0:
            w = dict(c)
            w["id"] = c["id"] + ":w%d" % (1 + k % 2)
            w["extra_width"] = 1 + k % 2
            wide.append(w)
    cases += wide
    large = large_cases(rng, 40 if thorough else 10, 14 if thorough else 8)
    cases += large
    recs = pmap(mc.record_case, cases)
    failed, drift, errs = mc.judge(ctx, recs)
    by_id = {c["id"]: c for c in cases}
    for c in cases:
        m = c["mesh"]
        nontrivial = len(m) >= 2 or any(len(f) != max(len(g) for g in m) for f in m)
        ctx.count(1, (tuple(map(tuple, m)), c["n_node"]) if nontrivial else None)
    for rid, msg in errs.items():
        ctx.violation(rid, "Raises", detail=msg, replay=by_id[rid], sig={"site": "Grid.from_topology/edges"})
    for rid, cl in failed.items():
        for clause in sorted(cl):
            ctx.violation(rid, clause, detail={"failed": sorted(cl)}, replay=by_id[rid], sig={"scope": rid.split(":")[0]})
    drift = {k: v for k, v in drift.items() if k not in failed}
    if drift:
        print("MODEL-DRIFT: %d records satisfy the relations but differ from the L2 transcription, e.g. %s" % (len(drift), sorted(drift.items())[:2]))
    ctx.note("model_drift_records", len(drift))
    for r in recs[:2] + recs[-1:]:
        ctx.sample({k: r[k] for k in r if k in ("id", "mesh", "edges", "face_edges", "npf", "n_edge")})
    # 2. observation order, supplied tables, selected / dual grids, MPAS-shaped sources (MeshOrder.tla,
    #    MeshSources.tla): TLC proves the lazy-grid model, generates the histories, writes the sources,
    #    judges the replayed histories (JudgeMeshHist.tla)
    from checks import mesh_hist as mh

    mh.model_check(ctx)
    scope = mh.scope_pool(meshes4, 4, "s4f2", rng, 40) + mh.scope_pool(meshes5, 5, "s5f2", rng, 40) + mh.scope_pool(meshes43, 4, "s4f3", rng, 30)
    hcases, reqs = mh.assemble(ctx, PROP, rng, thorough, scope)
    hrecs, _, _ = mh.run_histories(ctx, PROP, hcases, reqs)
    mh.count_cases(ctx, hcases)
    for r in hrecs[:1] + hrecs[-1:]:
        ctx.sample({k: r[k] for k in r if k in ("id", "order", "derived_by")})
    ctx.rule += (
        " Histories: MeshOrder.tla models the lazy grid by value; TLC proves order independence / dims = shapes / joint "
        "coherence / supplied tables kept for the intended mechanism over every reachable store (before and after "
        "selections and get_dual) and refutes four variant mechanisms; it generates every permutation of the core "
        "observables and simulated orders over all 15, with isel / get_dual steps; MeshSrcGen.tla writes supplied "
        "tables (keyed row order, flipped ends), MPAS encodings and selections and certifies them well-formed; each "
        "history is replayed on a real grid (from_topology, open_grid(dict), UGRID dataset / file, MPAS dataset, "
        "sample files) and judged by JudgeMeshHist.tla. Non-trivial history = distinct (mesh, width, supplied, route, order)."
    )
    ctx.assumptions += [
        "TLC's evaluator and the CommunityModules Json reader",
        "projection of integer tables (harness/ux.py: fill value -> -1 after dtype/fill checks)",
        "inputs larger than the enumerated scope are sampled (random planar mixed meshes), then judged by the same relations",
    ]


def replay(path):
    """./check C02 --replay replays/C02_<clause>_<tier>.json"""
    from checks import mesh_hist as mh

    return mh.replay_file(PROP, path)

"""X04 (extension) - accurate arithmetic: the error-free transformations and compensated kernels of
uxarray/utils/computing.py.

Specification: tla/FloatToy.tla (a toy binary floating-point format whose every float is a TLC integer),
tla/EFT.tla (the algorithms transcribed operation by operation; their exactness identities and premises are
proved by TLC over ALL operands of the toy format; generator of the float64 input shapes),
tla/JudgeEFT.tla (exact multi-limb integer arithmetic judging the records of the real functions).
"""

from __future__ import annotations

import json
import os
import random
import time
from concurrent.futures import ThreadPoolExecutor

from harness import x_c05 as X
from harness import x_x04 as Y
from harness.core import Machinery
from harness.pool import pmap

PROP = "X04"

PAIR_INVS = ["FormatSane", "TwoSumExact", "FastTwoSumExact", "FastTwoSumExponent", "SplitExact", "TwoSquareExact", "TwoProdExact"]


def _cfg(init, nxt, invs, p=5, emax=4, pats=("one",), gaps=(0,)):
    return (
        "INIT %s\nNEXT %s\nCONSTANTS\n P = %d\n EMax = %d\n Pats = {%s}\n Gaps = {%s}\n" % (init, nxt, p, emax, ",".join('"%s"' % x for x in pats), ",".join(map(str, gaps)))
        + "".join("INVARIANT %s\n" % i for i in invs)
        + "CHECK_DEADLOCK FALSE\n"
    )


def _nproc():
    return int(os.environ.get("VERIF_NPROC", "0")) or min(16, os.cpu_count() or 4)


def model(ctx, thorough, workers):
    """Exhaustive proofs on the toy format, and the two refutations that show the model can fail."""
    jobs = [
        ("PairInit", PAIR_INVS, 5, 4, "pair identities, all pairs, p=5 emax=4", True),
        ("PairInit", PAIR_INVS, 4, 6, "pair identities, all pairs, p=4 emax=6", True),
        ("TripleInit", ["ErrFmacExact"], 4, 3, "3FMA error-free transformation, all triples, p=4 emax=3", True),
        ("QuadInit", ["FmmsAccurate"], 4, 1, "Kahan's a*b-c*d within 3/2 ulp, all quadruples (a,b,d >= 0), p=4 emax=1", True),
        ("PairInit", ["FastTwoSumNoPremise"], 5, 4, "FastTwoSum WITHOUT |a|>=|b| must be refuted", "FastTwoSumNoPremise"),
        ("TripleInit", ["ErrFmacPremise"], 4, 3, "inner FastTwoSum premise of the 3FMA transformation (|gamma| >= |alpha2|): expected to be refuted", "ErrFmacPremise"),
    ]
    if thorough:
        jobs += [
            ("PairInit", PAIR_INVS, 6, 4, "pair identities, all pairs, p=6 emax=4", True),
            ("PairInit", PAIR_INVS, 5, 7, "pair identities, all pairs, p=5 emax=7", True),
            ("TripleInit", ["ErrFmacExact"], 5, 2, "3FMA error-free transformation, all triples, p=5 emax=2", True),
            ("QuadInit", ["FmmsAccurate"], 5, 0, "Kahan's a*b-c*d within 3/2 ulp, all quadruples, p=5 emax=0", True),
        ]

    def one(kj):
        k, (init, invs, p, emax, what, expect) = kj
        time.sleep(0.12 * k)
        r = ctx.tlc("EFT", _cfg(init, "Stay", invs, p, emax), what=what, workers=workers, count=expect is True, timeout=3000)
        if expect is True:
            if not r.ok:
                raise Machinery("EFT model check '%s' failed: violated=%s\n%s" % (what, r.violated, r.out[-1500:]))
        elif r.violated != expect:
            raise Machinery("EFT: '%s' - expected %s to be violated, got %r" % (what, expect, r.violated))
        return what

    with ThreadPoolExecutor(max_workers=3) as ex:
        list(ex.map(one, list(enumerate(jobs))))


def shapes(ctx, pats, gaps, workers):
    r = ctx.tlc_ok("EFT", _cfg("ShapeInit", "ShapeNext", ["ShapeSane", "ShapeEmit"], pats=pats, gaps=gaps), what="float64 operand shapes (pairs / triples)", workers=workers, timeout=1200)
    cases = [dict(v[1]) for v in X.prints(r.out) if v[0] == "S"]
    r2 = ctx.tlc_ok("EFT", _cfg("VecInit", "Stay", ["VecEmit"], pats=pats, gaps=gaps), what="float64 vector shapes", workers=2, timeout=1200)
    vecs = [dict(v[1]) for v in X.prints(r2.out) if v[0] == "W"]
    if not cases or not vecs:
        raise Machinery("EFT emitted no shapes")
    return cases, vecs


def _flt(f):
    f = dict(f)
    return {"s": f["s"], "hi": f["hi"], "lo": f["lo"], "e": f["e"]}


def run(ctx):
    rng = random.Random(ctx.seed)
    thorough = ctx.tier == "thorough"
    workers = 2 if _nproc() < 8 else 4
    ctx.rule = (
        "TLC proves, over ALL operands of a toy binary floating-point format (precision 4..6 bits, round to nearest even, every float a TLC integer), the "
        "contracts of the transcribed algorithms: TwoSum, FastTwoSum under |a|>=|b| (and refutes it without), Veltkamp split (exact, half width), Rump's "
        "two-square, FMA two-product, the 3FMA transformation, Kahan's 2x2 determinant within 3/2 ulp. TLC then generates float64 operand shapes (mantissa "
        "patterns x exponent gaps 0..60 x signs x ordinary / near-overflow / near-underflow exponents, zero, subnormals; vectors with grading and cancellation); "
        "the real functions are evaluated on them and every result is judged by TLC as an exact multi-limb integer identity or inequality. "
        "Non-trivial = distinct (function, operands) record inside the stated premises."
    )
    C, shim = Y.computing()
    t0 = time.time()
    with ThreadPoolExecutor(max_workers=1) as tp:
        fut = tp.submit(model, ctx, thorough, workers)
        if thorough:
            pats = ["one", "ones", "alt10", "alt01", "lowbit", "half", "halfp1", "tie", "rnd1", "rnd2", "zero", "sub1", "subm"]
            gaps = [0, 1, 2, 3, 10, 26, 27, 28, 51, 52, 53, 54, 55, 60]
        else:
            pats = ["one", "ones", "alt10", "halfp1", "rnd1", "zero", "subm"]
            gaps = [0, 1, 27, 52, 53, 54, 60]
        fut.result()
    cases, vecs = shapes(ctx, pats, gaps, workers)
    # the binary functions depend on (x, y) only, the unary ones on x only: evaluate each distinct input once
    seen_pair, seen_x, items = set(), set(), []
    for k, c in enumerate(sorted(cases, key=lambda c: json.dumps([list(map(str, c["tag"]))]))):
        x, y, z = _flt(c["x"]), _flt(c["y"]), _flt(c["z"])
        todo = []
        kp = json.dumps([x, y], sort_keys=True)
        if kp not in seen_pair:
            seen_pair.add(kp)
            todo += ["two_sum", "two_prod"]
        kx = json.dumps(x, sort_keys=True)
        if kx not in seen_x:
            seen_x.add(kx)
            todo.append("unary")
        todo.append("triple")
        items.append({"id": "s%d:%s" % (k, "/".join(map(str, c["tag"]))), "x": x, "y": y, "z": z, "todo": todo,
                      "x_ge_y": bool(c["x_ge_y"]), "prod_scope": bool(c["prod_scope"]), "split_scope": bool(c["split_scope"]),
                      "square_scope": bool(c["square_scope"]), "fma_scope": bool(c["fma_scope"])})
    vitems = []
    for k, v in enumerate(sorted(vecs, key=lambda v: (v["fam"], v["n"], v["gap"]))):
        vitems.append({"id": "v%d:%s/n%d/g%d" % (k, v["fam"], v["n"], v["gap"]), "v": [_flt(f) for f in v["v"]], "w": [_flt(f) for f in v["w"]], "list_input": v["gap"] == min(gaps)})
    recs = [r for chunk in pmap(Y.pair_case, items) for r in chunk]
    vres = pmap(Y.vec_case, vitems)
    info = {}
    for v in vres:
        recs += v["records"]
        for fn, cls in v["info"].items():
            info.setdefault(fn, {}).setdefault(cls, 0)
            info[fn][cls] += 1
    ctx.note("replay_wall_s", round(time.time() - t0, 1))
    # ---- judge
    failed = {}
    keys = ("id", "clause", "rel", "lhs", "rhs", "scope", "ok")
    for b0 in range(0, len(recs), 40000):
        part = recs[b0 : b0 + 40000]
        path = os.path.join(ctx.work, "eft_%d.ndjson" % b0)
        with open(path, "w") as fh:
            for r in part:
                fh.write(json.dumps({k: r[k] for k in keys}) + "\n")
        res = ctx.tlc_ok("JudgeEFT", "INIT Init\nNEXT Next\nINVARIANT Judge\nCHECK_DEADLOCK FALSE\n", what="judge %d records of the float64 functions" % len(part), env={"REC_FILE": path}, workers=max(workers, 4), count=False, timeout=3000)
        if res.distinct < len(part):
            raise Machinery("judge visited %d states for %d records" % (res.distinct, len(part)))
        for v in X.prints(res.out):
            if v[0] == "V":
                failed[v[1]] = v[2]
        os.remove(path)
        ctx.traces += len(part)
    by_id = {r["id"]: r for r in recs}
    item_by = {it["id"]: it for it in items}
    vitem_by = {it["id"]: it for it in vitems}
    in_scope = 0
    per_clause = {}
    for r in recs:
        if r["scope"] and not r["clause"].endswith(":witness"):
            in_scope += 1
            per_clause[r["clause"]] = per_clause.get(r["clause"], 0) + 1
        ctx.count(1, r["id"] if r["scope"] else None)
    for rid, clause in sorted(failed.items()):
        r = by_id[rid]
        base = rid.split("|")[0]
        it = item_by.get(base) or vitem_by.get(base)
        if clause.endswith(":witness"):
            raise Machinery("witness record %s (%s) does not hold: the harness's projection is wrong" % (rid, clause))
        ctx.violation(rid, clause, detail={k: r[k] for k in r if k not in ("lhs", "rhs")}, sig={"fn": r["fn"], "raised": r.get("raised", ""), "note": (r.get("note") or "").split(":")[0]}, replay={"kind": "pair" if base in item_by else "vec", "item": it})
    ctx.note("records_in_scope_by_clause", per_clause)
    ctx.note("observed_error_classes(information only)", info)
    ctx.note("fma", "exact-rational stand-in harness/shims/pyfma.py" if shim else "a real pyfma was found and used")
    for r in recs[:1] + recs[len(recs) // 2 : len(recs) // 2 + 1] + recs[-1:]:
        ctx.sample({k: r[k] for k in r if k not in ("lhs", "rhs")})
    ctx.assumptions += [
        "TLC's evaluator and the CommunityModules Json reader",
        "the toy format has gradual underflow and no overflow inside the scope; the identities are proved for precisions 4..6 only (the algorithms' proofs are uniform in p >= 5; p = 4 is included where TLC confirms it)",
        "pyfma is optional and absent here: functions that need a true FMA (_two_prod_fma, _fast_two_mult, _err_fmac, _fmms with FMA, dot_fma, _comp_prod_fma, _norm_g, cross_fma) are judged with the exact-rational stand-in harness/shims/pyfma.py (a correctly rounded fused multiply-add) appended at the END of sys.path",
        "conversion of floats to integers at a common power-of-two scale uses fractions.Fraction (exact); witness records let TLC re-check the derived quantities (|x|, ulp, significand) it is given",
        "accuracy bounds judged: _vec_sum u|s| + n^2 u^2 SUM|p| (Ogita-Rump-Oishi Sum2, with gamma_{n-1}^2 <= n^2 u^2), dot_fma u|d| + n^2 u^2 cond |d| (docstring), _fmms / cross_fma 3/2 ulp (docstring), _norm_l / _norm_faithful faithful rounding (name and cited paper); _norm_g, _sum_of_squares_re, _comp_prod_fma, _acc_sqrt state no bound: observed error classes are recorded as information only",
    ]


def replay(path):
    with open(path) as fh:
        data = json.load(fh)
    for c in data["cases"][:20]:
        print("case", c["key"], "clause", c["clause"])
        rp = c["replay"]
        out = Y.pair_case(rp["item"]) if rp["kind"] == "pair" else Y.vec_case(rp["item"])["records"]
        for r in out:
            if r["id"] == c["key"]:
                print(json.dumps({k: r[k] for k in r if k not in ("lhs", "rhs")}, default=str)[:1200])
    return 0

"""X05 (extension) - API entry points: open_grid / open_dataset / open_mfdataset / UxDataset(...) and its converters.

Spec    tla/ApiDispatch.tla (extends Dialects.tla): the input KIND lattice - a content (mesh, format, stored source of
        one fixed dialect; its meaning comes from Dialects) handed over as str / os.PathLike / xr.Dataset (from disk,
        in memory) / dict / ndarray / list / tuple / a file with an unsupported layout, with options (latlon, use_dual,
        kwargs forwarded to xarray: chunks, decode_times, drop_variables) and data as one path / PathLike / the grid
        file itself / a list / a reversed list / a glob / an xr.Dataset through the constructor - and the contract
        (i)-(vi) of the module header.  TLC checks the plan (PlanOK) and emits every case with what must come out.
Replay  harness/x_x05.py writes the files under the work dir, calls the public API, projects the objects.
Judge   tla/JudgeApi.tla (extends JudgeReaders.tla: the grid is judged as C01 judges it).
"""

from __future__ import annotations

import json
import os

from harness import x_c01 as XC
from harness import x_x05 as X
from harness.core import Machinery
from harness.pool import pmap

PROP = "X05"


def cfg(meshes):
    return (
        "INIT ApiInit\nNEXT ApiNext\nCONSTANTS\n MeshSel = {1}\n RouteSel = {\"ugrid\"}\n Mech = \"copies\"\n ThinMeshes = {}\n ApiMeshes = {%s}\n"
        "INVARIANT PlanOK\nINVARIANT EmitApi\nCHECK_DEADLOCK FALSE\n" % ",".join(map(str, meshes))
    )


def sig_of(c, clause):
    return {"clause": clause, "fmt": c["fmt"], "gk": c["gk"], "dk": c["dk"], "kw": c["kw"], "dual": c["dual"], "latlon": c["latlon"],
            "bad": c["bad"], "ambiguous": c["ambiguous"], "in_memory": c["in_memory"]}


def judge(ctx, recs):
    path = os.path.join(ctx.work, "api.ndjson")
    with open(path, "w") as fh:
        for r in recs:
            fh.write(json.dumps(r) + "\n")
    res = ctx.tlc_ok("JudgeApi", "INIT Init\nNEXT Next\nINVARIANT JudgeApiRec\nCHECK_DEADLOCK FALSE\n", what="judge %d API records" % len(recs),
                     env={"REC_FILE": path}, workers=8, count=False, timeout=3000)
    if res.distinct != len(recs) + (len(recs) + 31) // 32:
        raise Machinery("judge visited %d states for %d records" % (res.distinct, len(recs)))
    failed = {}
    for v in list(res.prints) + list(XC._pretty_prints(res.out, "V")):
        if isinstance(v, tuple) and len(v) == 3 and v[0] == "V":
            failed[v[1]] = sorted(v[2])
    ctx.traces += len(recs)
    os.remove(path)
    return failed


def run(ctx):
    thorough = ctx.tier == "thorough"
    # cube (6/8/12), cuboctahedron (14/12/24, mixed), tetrahedron (n_face = n_node = 4: the ambiguous size);
    # thorough adds the octahedron (8/6/12, triangles: MPAS dual), a partial mesh and the cubed sphere n = 2
    meshes = [1, 2, 12] + ([3, 6, 8] if thorough else [])
    r = ctx.tlc_ok("ApiDispatch", cfg(meshes), what="API plan: content x kind x options x data kind; PlanOK; meshes %s" % meshes, workers=8, timeout=3000)
    cases = X.parse_cases(r.prints, r.out)
    if len(cases) != r.distinct or not cases:
        raise Machinery("ApiDispatch: %d cases parsed, TLC reports %d states" % (len(cases), r.distinct))
    ctx.exhaustive = True
    ctx.rule = ("TLC enumerates content (mesh x format) x grid kind x options x data kind x forwarded kwargs (ApiDispatch.tla), checks the plan and "
                "emits each case with the expected grid (Dialects.tla), admissible dimension names per data axis and values; the harness writes the "
                "files, calls open_grid / open_dataset / open_mfdataset / UxDataset(...), to_array, info, get_dual; JudgeApi.tla judges. "
                "Non-trivial = distinct case.")
    recs = pmap(X.run_case, [(c, ctx.work) for c in cases])
    recs.append(X.misc_record())
    herr = [x for x in recs if "harness_error" in x]
    if herr:
        raise Machinery("harness error in %d cases, e.g. %s: %s" % (len(herr), herr[0]["id"], herr[0]["harness_error"]))
    failed = judge(ctx, recs)
    by_id = {c["id"]: c for c in cases}
    rec_by = {x["id"]: x for x in recs}
    for c in cases:
        ctx.count(1, c["id"])
    summ = {}
    for rid, cl in sorted(failed.items()):
        c = by_id.get(rid)
        x = rec_by[rid]
        detail = {k: x.get(k) for k in ("raise_msg", "ds_raise_msg", "kept", "raised", "ds_raised") if k in x}
        if "ds" in x:
            detail.update({k: x["ds"].get(k) for k in ("dims", "vars", "source_ok", "to_array_msg", "info_msg", "kw_kept") if k in x["ds"]})
            if "dual" in x["ds"]:
                detail["dual"] = {k: x["ds"]["dual"].get(k) for k in ("error", "dims", "n_face", "n_node")}
        for clause in cl:
            sig = sig_of(c, clause) if c else {"clause": clause, "fmt": "misc"}
            ctx.violation(rid, clause, detail=detail, sig=sig, replay={"case": {k: v for k, v in (c or {}).items() if k not in ("src",)}})
            k = "%s/%s" % (sig["fmt"], clause)
            summ[k] = summ.get(k, 0) + 1
    ctx.note("failed_clauses_per_format", summ)
    ctx.note("cases_per_format", {f: sum(1 for c in cases if c["fmt"] == f) for f in sorted({c["fmt"] for c in cases})})
    ctx.note("ambiguous_size_cases", sum(1 for c in cases if c["ambiguous"]))
    if os.environ.get("X05_DUMP"):
        with open(os.environ["X05_DUMP"], "w") as fh:
            json.dump({"failed": failed, "recs": {x["id"]: {k: v for k, v in x.items() if k in ("raise_msg", "ds_raise_msg", "raised", "ds_raised", "kept")} for x in recs},
                       "ds": {x["id"]: {k: v for k, v in x.get("ds", {}).items() if k not in ("vals", "grid")} for x in recs}}, fh)
    for x in recs[:2]:
        ctx.sample({k: v for k, v in x.items() if k in ("id", "outcome", "raised", "counts")})
    ctx.assumptions += [
        "TLC's evaluator and the CommunityModules Json reader; xarray/netCDF4 writers used to materialise the files",
        "the grid builders and the grid projection of C01 (harness/x_c01.py); grid nodes are matched to lattice points within 1e-9 rad",
        "a data dimension whose size equals several of n_face / n_node / n_edge is ambiguous: any of those names is accepted (the code maps by "
        "size in the order face, node, edge; only the documented behaviour is judged)",
    ]

"""C04 - spherical and Cartesian coordinates always denote the same points, for every
provenance combination and every order of first access of the coordinate properties.

Actions: the 15 coordinate getters, normalize_cartesian_coordinates, construct_face_centers("cartesian
average"), Grid.chunk().  Not covered: the coordinate property setters (the property is about what a Grid
reports of its source; a caller who assigns one representation owns the other), and
construct_face_centers("welzl") (non-deterministic: shuffles with the global RNG)."""

from __future__ import annotations

import json
import os
import random
import sys

from harness import x_c04 as X
from harness.core import Machinery
from harness.pool import pmap

PROP = "C04"

INTENDED_CFG = """SPECIFICATION Spec
CONSTANT Mech <- MechIntended
INVARIANT TypeOK
INVARIANT LonInRange
INVARIANT LatInRange
INVARIANT SamePoint
INVARIANT DerivedUnit
INVARIANT NormalizedIsUnit
INVARIANT SuppliedKept
INVARIANT FunctionOfSource
INVARIANT FacePosition
INVARIANT Confluence
PROPERTY Monotone
PROPERTY NormalizeLengthsOnly
PROPERTY AccessReturns
PROPERTY ChunkKeeps
CHECK_DEADLOCK FALSE
"""

OBSERVED_CFG = """SPECIFICATION Spec
CONSTANT Mech <- MechObserved
INVARIANT TypeOK
INVARIANT Mark
PROPERTY Monotone
PROPERTY AccessReturns
CHECK_DEADLOCK FALSE
"""

BEFORE_CFG = """SPECIFICATION Spec
CONSTANT Mech <- MechBeforeFixes
INVARIANT TypeOK
INVARIANT Mark
CHECK_DEADLOCK FALSE
"""

JUDGE_CFG = "INIT Init\nNEXT Next\nINVARIANT Judge\nCHECK_DEADLOCK FALSE\n"

CAP_CFG = "INIT Init\nNEXT Next\nCONSTANT Ks = {%s}\nINVARIANT Checked\nINVARIANT Emit\nCHECK_DEADLOCK FALSE\n"
CAP_TLC = [1, 12, 57, 286, 573]  # evaluated by TLC itself (6 K^3 < 2^31)
CAP_KS = [12, 57, 286, 573, 2865, 19099]  # atan(1/K) = 4.8, 1.0, 0.2, 0.1, 0.02, 0.003 degrees

STATE_CLAUSES = ["LonInRange", "LatInRange", "SamePoint", "DerivedUnit", "NormalizedIsUnit", "FacePosition", "Confluence"]
N_ACTIONS = 18  # 15 getters, normalize, construct_face_centers, chunk
DIALECT_MESHES = [8, 11, 20]  # thorough
DIALECT_MESHES_QUICK = [20]  # quick: the 96-quad cubed sphere only  # Dialects.tla: cubed_sphere_2 (poles are nodes), rhombic_dodecahedron, cubed_sphere_4 (96 quads)
DIALECT_ROUTES = ["scrip", "esmf", "mpas"]

# catalogue meshes: the first group has nodes at both poles, on the antimeridian and on the prime
# meridian (checked below with exact integer tests); the second has mixed face sizes and face
# centres exactly at the poles
PRIMARY = ["rhombic_dodecahedron", "tetrakis_cube", "octahedron"]
MIXED = ["cuboctahedron", "truncated_octahedron_split", "truncated_cube_split"]


def cap_meshes(ctx):
    """Meshes with rings of nodes 4.8, 1, 0.2, 0.1, 0.02 and 0.003 degrees from both poles, defined in
    CoordCap.tla: proved well-formed by TLC directly for the K it can evaluate and, for every K, through
    the scaled twin K = 1 (CapMesh(K) = diag(1, 1, K) CapMesh(1), det > 0 keeps every determinant sign)."""
    r = ctx.tlc_ok("CoordCap", CAP_CFG % ", ".join(map(str, CAP_TLC)), what="polar-cap meshes K in %s well-formed" % (CAP_TLC,), workers=1)
    caps = {p[1]["k"]: p[1] for p in r.prints if isinstance(p, tuple) and len(p) == 2 and p[0] == "CAP"}
    if sorted(caps) != sorted(CAP_TLC):
        raise Machinery("CoordCap printed meshes for K = %s" % sorted(caps))
    twin = caps[1]
    keys = []
    for k in CAP_KS:
        nodes = X.scale_z(twin["nodes"], k)
        if k in caps and [list(v) for v in caps[k]["nodes"]] != nodes:
            raise Machinery("scaled twin of CapMesh(%d) differs from the mesh TLC printed" % k)
        key = ("polar_cap", k, 0)
        X.register_mesh(key, nodes, twin["faces"])
        keys.append(key)
    return keys


def pick_meshes(ctx, thorough, rng):
    prim, mixed = cap_meshes(ctx), []
    rots = [0, 5, 11, 17, 22] if thorough else [0, 7]
    for n in PRIMARY:
        for r in rots:
            prim.append((n, r, 0))
    if thorough:
        prim += [("rhombic_dodecahedron", 3, 3), ("tetrakis_cube", 9, 5)]
    for n in MIXED:
        for r in ([0, 13] if thorough else [0]):
            mixed.append((n, r, 0))
    if thorough:
        mixed += [("rhombicuboctahedron", 0, 0), ("cube", 4, 0), ("tetrahedron", 2, 0), ("truncated_octahedron_split", 6, 2)]
    feats = {}
    for k in prim + mixed:
        f = X.mesh_features(*k)
        feats[k] = f
        if not f["neg_lon_all_kinds"]:
            raise Machinery("mesh %r has no element with negative longitude in some kind" % (k,))
    for k in prim:
        f = feats[k]
        if not (f["north_pole"] and f["south_pole"] and f["antimeridian"] and f["prime_meridian"]):
            raise Machinery("primary mesh %r lacks a pole / antimeridian / prime meridian node" % (k,))
    if not any(feats[k]["west_of_antimeridian"] for k in prim):
        raise Machinery("no primary mesh has a node west of the antimeridian")
    return prim, mixed, feats


def make_cases(tag, walks, nodes, meshes, feats, start=0, chunk_first=lambda w, j: False):
    cases = []
    for w, (init, walk) in enumerate(walks):
        src = dict(nodes[init]["src"])
        for j, mesh in enumerate(meshes(w)):
            routes = X.routes_for(src, feats[mesh]["uniform"])
            route = routes[(w + j + start) % len(routes)]
            pre = chunk_first(w, j)  # Grid.chunk() right after construction: the whole history runs on dask arrays
            cases.append(
                {
                    "id": "%s%d.%d" % (tag, w, j),
                    "src": src,
                    "route": route,
                    "mesh": mesh,
                    "centres": "offset",  # supplied centres are directions inside the element, off its centroid
                    "acts": (["chunk"] if pre else []) + [a for a, _ in walk],
                    "path": ([init] if pre else []) + [init] + [v for _, v in walk],
                }
            )
    return cases


def dialect_cases(ctx, cover, nodes, thorough):  # noqa: C901
    """Further provenance routes: SCRIP (supplies centres), ESMF (centerCoords), MPAS (radians in [0, 2 pi), x/y/z,
    centres).  TLC (Dialects.tla) emits the stored tables of each source; harness/x_c01.py materialises them."""
    from checks import c01

    ms, dcs = c01.generate(ctx, DIALECT_MESHES if thorough else DIALECT_MESHES_QUICK, DIALECT_ROUTES)
    keys = {}
    for mi, m in ms.items():
        key = ("dialects:" + m["id"], 0, 0)
        X.register_mesh(key, m["nodes"], m["faces"])
        keys[m["id"]] = key
    by_src = {}
    for init, walk in cover:
        by_src.setdefault(tuple(sorted(nodes[init]["src"].items())), []).append((init, walk))
    cases, seen = [], set()
    for dc in dcs:
        src = X.dialect_src(dc)
        k = (dc["mesh"], dc["route"], tuple(sorted(src.items())))
        if k in seen:
            continue
        seen.add(k)
        ws = sorted(by_src.get(k[2], []), key=lambda iw: -len(iw[1]))
        if not ws:
            # quick covers the graph modulo the longitude convention: walk the twin source's histories
            twin = dict(src, lonconv="pm180" if src["lonconv"] == "z360" else "z360")
            ws = sorted(by_src.get(tuple(sorted(twin.items())), []), key=lambda iw: -len(iw[1]))
            ws = [(None, w) for _, w in ws]
        for n, (init, walk) in enumerate(ws[: (12 if thorough else 3)]):
            cases.append(
                {
                    "id": "dia:%s:%d" % (dc["id"], n),
                    "src": src,
                    "route": "dialect",
                    "dialect": {"route": dc["route"], "src": dc["src"], "d": dc["d"], "id": dc["id"]},
                    "mesh": keys[dc["mesh"]],
                    "centres": "offset",
                    "acts": (["chunk"] if n % 3 == 1 else []) + [a for a, _ in walk],
                    "path": None,
                }
            )
    return cases, keys


def corrupt(recs):
    """Three corrupted copies of one clean-looking recorded trace, each with the clause that must reject it."""
    import copy

    base = None
    for r in recs:
        st = r["steps"]
        if len(st) >= 2 and st[-1]["act"] != "normalize" and "ret" in st[-1] and "node_lon" in st[-1]["tags"] and len(st[-2]["tags"]) >= 2:
            base = r
            break
    if base is None:
        raise Machinery("no recorded trace suitable for the binding demonstration")
    out = []
    a = copy.deepcopy(base)
    a["id"] = "selftest:lon360"
    a["steps"][-1]["tags"]["node_lon"] = "deg360"
    out.append((a, "LonInRange"))
    b = copy.deepcopy(base)
    b["id"] = "selftest:vanished"
    gone = sorted(v for v in b["steps"][-2]["tags"] if v != b["steps"][-1]["act"])[0]
    del b["steps"][-1]["tags"][gone]
    out.append((b, "Monotone"))
    c = copy.deepcopy(base)
    c["id"] = "selftest:returned"
    c["steps"][-1]["ret"] = "bad"
    out.append((c, "SamePoint"))
    return out


def run(ctx):
    rng = random.Random(ctx.seed)
    thorough = ctx.tier == "thorough"

    # 1. the lazy design CAN meet the property: every invariant holds under MechIntended
    ri = ctx.tlc_ok("CoordLazy", INTENDED_CFG, what="MechIntended: all sources x all histories, every clause", workers=4)
    if ri.distinct < 1000:
        raise Machinery("MechIntended explored only %d states" % ri.distinct)

    # 2. the code as read: TLC marks the states in which a clause fails, and dumps the labelled graph
    dot = os.path.join(ctx.work, "observed.dot")
    ro = ctx.tlc_ok("CoordLazy", OBSERVED_CFG, what="MechObserved: reachable graph, failing states marked", workers=4, dump_dot=dot)
    nodes, out, inits = X.parse_dot(dot)
    os.remove(dot)
    if len(nodes) != ro.distinct:
        raise Machinery("dot graph has %d states, TLC reports %d" % (len(nodes), ro.distinct))
    n_edges = sum(len(v) for v in out.values())
    if any(len(v) != N_ACTIONS for v in out.values()):
        raise Machinery("a state of the dumped graph does not have its %d actions" % N_ACTIONS)
    by_key = {X.state_key(s): u for u, s in nodes.items()}
    bad = {}
    for p in ro.prints:
        if isinstance(p, tuple) and len(p) == 3 and p[0] == "BAD":
            u = by_key.get(X.state_key(p[1]))
            if u is None:
                raise Machinery("marked state not found in the dumped graph")
            bad[u] = frozenset(p[2])
    per_clause = {c: sum(1 for b in bad.values() if c in b) for c in STATE_CLAUSES}
    ctx.note("observed_model", {"states": len(nodes), "edges": n_edges, "failing_states": len(bad), "failing_states_per_clause": per_clause})

    # 2b. the model can tell the difference: on the code as first read (before the fix: commits
    #     53c923b0 b821f017 84240cbb 2f76d925) TLC must find failing states for every defect clause
    rb = ctx.tlc_ok("CoordLazy", BEFORE_CFG, what="MechBeforeFixes: failing states must exist", workers=4)
    before = {c: 0 for c in STATE_CLAUSES}
    for p in rb.prints:
        if isinstance(p, tuple) and len(p) == 3 and p[0] == "BAD":
            for c in p[2]:
                before[c] += 1
    for c in STATE_CLAUSES:
        if before[c] == 0:
            raise Machinery("TLC finds no state violating %s under MechBeforeFixes: the model cannot tell the difference" % c)
    ctx.note("before_fixes_model", {"states": rb.distinct, "failing_states_per_clause": before})

    # 3. histories: counterexamples (shortest history to a failing state, one per source and clause set),
    #    a transition cover of the whole graph, random walks
    prim, mixed, feats = pick_meshes(ctx, thorough, rng)
    sp = X.shortest_paths(nodes, out, inits)
    cex = {}
    for u, cl in bad.items():
        init, walk = sp[u]
        k = (init, cl)
        if k not in cex or (len(walk), walk) < (len(cex[k][1]), cex[k][1]):
            cex[k] = (init, walk)
    cex_keys = sorted(cex, key=lambda k: (X.state_key(nodes[k[0]]), sorted(k[1])))
    cex_walks = [cex[k] for k in cex_keys]
    cls = None if thorough else X.state_class  # quick: every (state, action) pair modulo the longitude convention
    cover = X.cover_walks(nodes, out, inits, max_len=90, cls=cls)
    dia, dkeys = dialect_cases(ctx, cover, nodes, thorough)
    big = dkeys["cubed_sphere_4"]  # 96 quads / 192 edges: also a mesh of the standard routes
    feats[big] = X.mesh_features(*big)
    mixed = mixed + [big]
    allm = prim + mixed
    if thorough:
        mesh_of = lambda w: [prim[w % len(prim)], prim[(w * 7 + 3) % len(prim)], mixed[w % len(mixed)], allm[(w * 5 + 1) % len(allm)]]
    else:
        mesh_of = lambda w: [allm[w % len(allm)]]
    cases = make_cases("cex", cex_walks, nodes, lambda w: [prim[w % len(prim)]], feats)
    n_cex = len(cases)
    cases += make_cases("cov", cover, nodes, mesh_of, feats, chunk_first=(lambda w, j: j == 1) if thorough else (lambda w, j: w % 3 == 1))
    cases += dia
    if thorough:
        rw = []
        for s in sorted(inits, key=lambda u: X.state_key(nodes[u])):
            for _ in range(3):
                rw.append((s, X.random_walk(nodes, out, s, rng, 40)))
        cases += make_cases("rnd", rw, nodes, lambda w: [allm[(w * 3 + 2) % len(allm)]], feats)

    # 4. replay on real grids, record after every call
    # compile the (non-parallel) numba kernels once in the parent so that the forked workers inherit them
    for c in cases[:3]:
        X.replay(dict(c, acts=list(X.VARS) + ["normalize", "recentre", "chunk"] + list(X.VARS)))
    nproc = int(os.environ.get("VERIF_NPROC", "0")) or min(8, os.cpu_count() or 4)
    recs = pmap(X.replay, cases, nproc=nproc)
    by_id = {c["id"]: c for c in cases}
    broken = [r for r in recs if "build_error" in r]
    if broken:
        # constructing the source is C01's business; it is machinery here
        raise Machinery("%d sources could not be constructed, e.g. %s: %s" % (len(broken), broken[0]["id"], broken[0]["build_error"]))

    # 5. TLC validates the traces against CoordLazy (with three corrupted copies of one trace that
    #    it must reject: binding demonstration)
    path = os.path.join(ctx.work, "traces.ndjson")
    corrupted = corrupt(recs)
    with open(path, "w") as fh:
        for r in recs + [c[0] for c in corrupted]:
            fh.write(json.dumps({k: r[k] for k in ("id", "src", "init", "fpos0", "steps")}) + "\n")
    rj = ctx.tlc_ok("TraceCoord", JUDGE_CFG, what="validate %d recorded histories step by step" % len(recs), env={"REC_FILE": path}, workers=8, count=False, timeout=3000)
    os.remove(path)
    verdicts, drift, seen = {}, {}, set()
    for p in rj.prints:
        if isinstance(p, tuple) and len(p) == 4 and p[0] == "V":
            seen.add(p[1])
            if p[2]:
                verdicts[p[1]] = sorted(p[2], key=str)
            if p[3]:
                drift[p[1]] = (p[3][0], sorted(p[3][1], key=str))
    for c, clause in corrupted:
        got = {f[0] for f in verdicts.pop(c["id"], [])}
        drift.pop(c["id"], None)
        seen.discard(c["id"])
        if clause not in got:
            raise Machinery("the trace validator accepted a corrupted trace (%s: expected %s, got %s)" % (c["id"], clause, sorted(got)))
    if seen != {r["id"] for r in recs}:
        raise Machinery("the trace validator returned verdicts for %d of %d histories" % (len(seen), len(recs)))
    ctx.traces += len(recs)

    # 6. bookkeeping and verdicts
    steps = 0
    for r in recs:
        c = by_id[r["id"]]
        for k, a in enumerate(c["acts"]):
            steps += 1
            if c["path"] is None:
                ctx.count(1, (r["id"], k))
                continue
            changing = c["path"][k] != c["path"][k + 1]
            ctx.count(1, (c["path"][k], a, tuple(c["mesh"])) if changing else None)
    cl = (lambda u: X.state_class(nodes[u])) if cls else (lambda u: u)
    covered = {(cl(c["path"][k]), a) for c in cases if c["path"] is not None for k, a in enumerate(c["acts"])}
    wanted = {(cl(u), a) for u in nodes for a, _ in out[u]}
    if covered != wanted:
        raise Machinery("transition cover incomplete: %d of %d" % (len(covered & wanted), len(wanted)))
    n_pairs = len(wanted)
    reproduced = 0
    not_reproduced = []
    for c, key in zip(cases[:n_cex], cex_keys):
        # reproduced: the code went through exactly the stores TLC's counterexample goes through and,
        # unless the state only breaks confluence, the validator rejects the trace at a predicted tag
        v = verdicts.get(c["id"], [])
        if c["id"] not in drift and (key[1] == frozenset(["Confluence"]) or any(f[4] for f in v)):
            reproduced += 1
        else:
            not_reproduced.append(c["id"])
    for rid, fails in sorted(verdicts.items()):
        c = by_id[rid]
        src = c["src"]
        for clause, var, tag, step, predicted in fails:
            kind = var.split("_")[0] if "_" in var else ""
            sig = {
                "clause": clause,
                "var": var,
                "tag": tag,
                "kind": kind,
                "prov": src.get(kind, ""),
                "node_prov": src["node"],
                "face_prov": src["face"],
                "edge_prov": src["edge"],
                "xyzlen": src["xyzlen"],
                "predicted_by_MechObserved": bool(predicted),
            }
            rp = {"src": src, "route": c["route"], "mesh": list(c["mesh"]), "centres": c.get("centres", "offset"), "acts": c["acts"][: max(step, 1)], "first_failing_step": step}
            if c.get("dialect"):
                rp["dialect"] = c["dialect"]
            ctx.violation("%s|%s|%s|%s" % (rid, clause, var, tag), clause, detail={"var": var, "tag": tag, "step": step, "lonconv": src["lonconv"]}, sig=sig, replay=rp)
    if drift:
        ex = [(k, v[0], v[1][:2]) for k, v in sorted(drift.items())[:2]]
        print("MODEL-DRIFT: %d of %d histories differ from the store MechObserved predicts (first step, {var, observed, predicted}), e.g. %s" % (len(drift), len(recs), ex))
    if not_reproduced:
        print("MODEL-DRIFT: %d TLC counterexamples of MechObserved were not reproduced by the code, e.g. %s" % (len(not_reproduced), not_reproduced[:3]))
    ctx.note("histories", {"counterexamples": n_cex, "cover_walks": len(cover), "total": len(cases), "steps": steps})
    ctx.note("counterexamples_reproduced", "%d/%d" % (reproduced, n_cex))
    ctx.note("model_drift_histories", len(drift))
    ctx.note("transition_cover", "%d/%d (state, action) pairs of the MechObserved graph%s" % (len(covered), n_pairs, " modulo the longitude convention of the source" if cls else ""))
    ctx.note("dialect_histories", len(dia))
    ctx.note("meshes", [list(k) for k in allm])
    ctx.exhaustive = True
    ctx.rule = (
        "TLC explores CoordLazy.tla over all 176 sources (provenance of nodes / face centres / edge centres x longitude convention x "
        "unit or non-unit Cartesian input) and all histories of the 15 coordinate getters, normalize_cartesian_coordinates, construct_face_centers and chunk: under "
        "MechIntended every clause is an invariant; under MechObserved (transcribed from the code) it marks the failing states and dumps the "
        "labelled graph.  Every (state, action) edge of that graph (quick: modulo the longitude convention of the source) is replayed at least "
        "once on real grids built from catalogue, polar-cap and cubed-sphere meshes through from_topology / from_face_vertices / "
        "open_grid(UGRID) / from_dataset and SCRIP / ESMF / MPAS sources, a third of them chunked from the start; after each call every coordinate variable in Grid._ds "
        "is given a frame tag numerically against the lattice and TLC (TraceCoord.tla) validates the trace.  Non-trivial = replayed step "
        "whose model transition changes the store, per mesh."
    )
    for r in recs[:1] + recs[n_cex : n_cex + 1]:
        ctx.sample({"id": r["id"], "src": r["src"], "route": r["route"], "mesh": r["mesh"], "init": r["init"], "steps": r["steps"][:3]})
    ctx.assumptions += [
        "float evaluation of lattice directions (harness/lattice.py) and the numerical frame classification in harness/x_c04.py (tolerance 1e-12, 1e-8 at a pole)",
        "non-unit Cartesian sources use one radius (0.5) for all supplied vectors",
        "supplied centres are the exact centroids or (every other history) directions off the centroid; edge centres are judged against the node pairs of the grid's own edge_node_connectivity",
        "a latitude may carry the rounding of z divided by cos(lat): tolerance max(1e-12, 16 ulp / cos lat); an element with 1 - |z| < 1e-8 (within 0.0081 degrees of a pole) may read as that pole",
        "polar-cap meshes with K > 573 are covered by the scaled twin K = 1 (sign-preserving linear map), not evaluated by TLC directly",
        "TLC's evaluator and the CommunityModules Json reader",
        "SCRIP / ESMF / MPAS sources: stored tables from Dialects.tla, materialised by harness/x_c01.py; nodes of these grids are matched to lattice directions by position (1e-9 rad)",
        "dask runs with the synchronous scheduler; the coordinate setters and construct_face_centers('welzl') are out of scope",
    ]


def replay(path):
    """./check C04 --replay <file>: re-run the cases stored in a replay file (as written on a VIOLATION)
    against the current tree and print, per case, what the trace validator rejects.  Exit 1 if any case fails."""
    import shutil

    from harness import core

    with open(path) as fh:
        data = json.load(fh)
    stored = data.get("cases", [])
    ctx = core.Ctx(PROP, "replay", 0)
    try:
        seen, cases = set(), []
        for v in stored:
            rp = v.get("replay") or {}
            k = json.dumps(rp, sort_keys=True)
            if not rp or k in seen:
                continue
            seen.add(k)
            cases.append(
                {
                    "id": "replay%d" % len(cases),
                    "src": rp["src"],
                    "route": rp["route"],
                    "mesh": tuple(rp["mesh"]),
                    "centres": rp.get("centres", "offset"),
                    "dialect": rp.get("dialect"),
                    "acts": rp["acts"],
                    "was": v.get("key"),
                }
            )
        if any(c["mesh"][0] == "polar_cap" for c in cases):
            cap_meshes(ctx)
        if any(str(c["mesh"][0]).startswith("dialects:") for c in cases):
            from checks import c01

            ms, _ = c01.generate(ctx, DIALECT_MESHES, DIALECT_ROUTES)
            for m in ms.values():
                X.register_mesh(("dialects:" + m["id"], 0, 0), m["nodes"], m["faces"])
        recs = [X.replay(c) for c in cases]
        for r in recs:
            if "build_error" in r:
                print("MACHINERY-FAILURE: %s could not be constructed: %s" % (r["id"], r["build_error"]), file=sys.stderr)
                return 2
        tpath = os.path.join(ctx.work, "traces.ndjson")
        with open(tpath, "w") as fh:
            for r in recs:
                fh.write(json.dumps({k: r[k] for k in ("id", "src", "init", "fpos0", "steps")}) + "\n")
        rj = ctx.tlc_ok("TraceCoord", JUDGE_CFG, what="replay", env={"REC_FILE": tpath}, workers=2, count=False)
        verdicts = {p[1]: (sorted(p[2], key=str), p[3]) for p in rj.prints if isinstance(p, tuple) and len(p) == 4 and p[0] == "V"}
        if set(verdicts) != {r["id"] for r in recs}:
            print("MACHINERY-FAILURE: the trace validator returned %d verdicts for %d cases" % (len(verdicts), len(recs)), file=sys.stderr)
            return 2
        bad = 0
        for c, r in zip(cases, recs):
            fails, dr = verdicts[r["id"]]
            head = "%s %s mesh=%s src=%s acts=%s" % (c["id"], c["route"], list(c["mesh"]), c["src"], c["acts"])
            if fails:
                bad += 1
                print("FAILS   " + head)
                for clause, var, tag, step, predicted in fails:
                    print("    clause=%s var=%s tag=%s first_step=%d (%s) predicted_by_MechObserved=%s" % (clause, var, tag, step, c["acts"][step - 1] if step else "construction", predicted))
            else:
                print("holds   " + head)
            if dr:
                print("    model drift at step %d: %s" % (dr[0], sorted(dr[1], key=str)[:4]))
        print("%s replay: %d stored case(s), %d distinct, %d fail on this tree" % (PROP, len(stored), len(cases), bad))
        return 1 if bad else 0
    except (Machinery, Exception) as e:  # noqa
        print("MACHINERY-FAILURE property=%s replay: %s: %s" % (PROP, type(e).__name__, e), file=sys.stderr)
        return 2
    finally:
        shutil.rmtree(ctx.work, ignore_errors=True)

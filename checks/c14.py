"""C14 - arc predicates and intersections agree with exact spherical geometry.

Spec      tla/ArcZ.tla (extends SphereZ.tla): exact classification of (arc, point), (arc, arc), extreme
          latitude descriptors, margins, and the laws of the oracle itself.
Model     tla/ArcScope.tla: TLC enumerates every arc / triple / arc pair of the lattice, checks the laws
          (endpoint swap, arc swap, quarter turns, Rot24 via its generators, sign form = definitional form
          of a crossing, cone form of the interior, partition of the circle, latitude dominance) and
          emits the cases with their exact classes, crossing directions and latitude descriptors.
Replay    point_within_gca, gca_gca_intersection, extreme_gca_latitude on the normalised floats, as
          generated and under metamorphic variants (swap endpoints, swap arcs, quarter turn, rotation
          about the polar axis by a generic angle).
Judge     tla/JudgeArcs.tla decides every record (and decides which cases clear the margin).
"""

from __future__ import annotations

import math
import random
import sys
from collections import Counter

from harness import x_c14 as X
from harness.core import Machinery
from harness.pool import pmap

PROP = "C14"
EPS = sys.float_info.epsilon
KINDS = ["polar", "meridian", "equator", "antimeridian", "generic"]


def _arc_id(tag, K, a, b):
    return "%s:K%d:%s|%s" % (tag, K, X.vkey(a), X.vkey(b))


def _jseed(ctx_seed, rid):
    import zlib

    return (int(ctx_seed) * 1000003 + zlib.crc32(rid.encode())) % (2 ** 31)


def _kz(a, b):
    # deterministic per arc (not seeded): the failing set of an exhaustive scope must not depend on the seed
    return 1 + (sum(a) * 7 + sum(b) * 3 + a[0] + 2 * b[1]) % 3


def _stratified(rng, arcs, quota):
    by = {}
    for e in arcs:
        by.setdefault(e["kind"], []).append(e)
    out = []
    for k in KINDS:
        pool = by.get(k, [])
        n = min(len(pool), quota.get(k, 0))
        out += rng.sample(pool, n)
    return out


def _flip(rng, e):
    """The scope emitted arcs up to endpoint swap; present either orientation."""
    if rng.random() < 0.5:
        c = list(e["cand"])
        sw = {1: 2, 2: 1, 3: 3, 4: 4}
        return dict(e, a=e["b"], b=e["a"], cand=[c[1], c[0], c[2], c[3]], maxw=sw[e["maxw"]], minw=sw[e["minw"]], classes="")
    return e


def member_cases(rng, arcs, K):
    w = (2 * K + 1) ** 3
    return [
        {"id": _arc_id("M", K, e["a"], e["b"]), "K": K, "a": e["a"], "b": e["b"], "pidx": list(range(w)),
         "kz": _kz(e["a"], e["b"]), "theta": rng.uniform(0.05, 2 * math.pi - 0.05)}
        for e in arcs
    ]


def lat_cases(rng, arcs, K):
    return [
        {"id": _arc_id("L", K, e["a"], e["b"]), "a": e["a"], "b": e["b"], "cand": e["cand"],
         "kz": _kz(e["a"], e["b"]), "theta": rng.uniform(0.05, 2 * math.pi - 0.05)}
        for e in arcs
    ]


def pair_cases_from_scope(rng, pairs, K):
    by = {}
    for q in pairs:
        by.setdefault((tuple(q["a"]), tuple(q["b"])), []).append(q)
    out = []
    for (a, b), qs in sorted(by.items()):
        out.append({"id": _arc_id("X", K, a, b), "a": list(a), "b": list(b), "o": [[q["c"], q["d"]] for q in qs],
                    "x": [q["x"] for q in qs], "cls": [q["cls"] for q in qs],
                    "kz": _kz(a, b), "theta": rng.uniform(0.05, 2 * math.pi - 0.05)})
    return out


def pair_cases_sampled(ctx, rng, arcs, K, n_second, quota):
    """Sample arc pairs from TLC's arc list, let TLC classify them (and supply x), keep the judged ones."""
    firsts = [_flip(rng, e) for e in _stratified(rng, arcs, quota)]
    reqs = []
    for e in firsts:
        others = [_flip(rng, f) for f in rng.sample(arcs, min(n_second, len(arcs)))]
        reqs.append({"kind": "X", "id": _arc_id("X", K, e["a"], e["b"]), "a": e["a"], "b": e["b"],
                     "o": [[f["a"], f["b"]] for f in others]})
    seen, uniq = set(), []
    for r in reqs:
        if r["id"] not in seen:
            seen.add(r["id"])
            uniq.append(r)
    _, _, C = X.judge(ctx, uniq, "classify %d sampled arc pairs of |c|<=%d (exact class, crossing direction)" % (sum(len(r["o"]) for r in uniq), K))
    code = {c[1]: c[2] for c in C}
    names = {1: "CrossAtX", 2: "CrossAtMinusX", 3: "Disjoint"}
    out, boundary = [], 0
    for r in uniq:
        o, xs, cls = [], [], []
        for cd, (k, x) in zip(r["o"], code[r["id"]]):
            if k == 0:
                boundary += 1
                continue
            o.append(cd)
            xs.append(list(x))
            cls.append(names[k])
        if o:
            out.append({"id": r["id"], "a": r["a"], "b": r["b"], "o": o, "x": xs, "cls": cls,
                        "kz": _kz(r["a"], r["b"]), "theta": rng.uniform(0.05, 2 * math.pi - 0.05)})
    return out, boundary


def interior_points(arcs, K):
    """(arc, p) with p a lattice point strictly inside the arc -- read off TLC's class vectors."""
    out = []
    for e in arcs:
        for i, dig in enumerate(e.get("classes") or ""):
            if dig == "1":
                out.append((e, X.vec_of_index(i, K)))
    return out


def shrunk_point_cases(rng, aps, K, n_q):
    w = (2 * K + 1) ** 3
    sm, sl = [], []
    for e, p in aps:
        tag = "K%d:%s|%s|%s" % (K, X.vkey(e["a"]), X.vkey(e["b"]), X.vkey(p))
        qidx = list(range(w)) if n_q >= w else sorted(rng.sample(range(w), n_q))
        sm.append({"id": "SM:" + tag, "K": K, "a": e["a"], "b": e["b"], "p": p, "qidx": qidx, "ks": X.S_KS})
        sl.append({"id": "SL:" + tag, "K": K, "a": e["a"], "b": e["b"], "p": p, "cand": e["cand"], "ks": X.S_KS})
    return sm, sl


def shrunk_pair_cases(x_cases, K, limit, rng):
    """Crossing pairs (class and crossing direction from TLC) shrunk around their crossing direction."""
    out, n = [], 0
    order = list(x_cases)
    rng.shuffle(order)
    for c in order:
        o, xs, ws = [], [], []
        for cd, x, cls in zip(c["o"], c["x"], c["cls"]):
            if cls in ("CrossAtX", "CrossAtMinusX") and n < limit:
                o.append(cd)
                xs.append(x)
                ws.append(x if cls == "CrossAtX" else [-t for t in x])
                n += 1
        if o:
            out.append({"id": "S" + c["id"], "K": K, "a": c["a"], "b": c["b"], "o": o, "x": xs, "w": ws, "ks": X.S_KS})
    return out


# ------------------------------------------------------------------------------------ verdicts
def _groups(fails, names):
    """Split TLC's {(clause, variant)} into the exact variants and one group per perturbed replay (ulp jitter,
    generic-angle rotation, tilted point); returns [(suffix, group name, failures)]."""
    nv = len(names)
    jv = names.index("jitter") + 1
    exact = sorted((c, v) for c, v in fails if v not in (nv, jv, X.TILT_VARIANT))
    out = []
    for suffix, name, vv in (("#j", "jitter", jv), ("#g", "rotG", nv), ("#t", "tilt", X.TILT_VARIANT)):
        g = sorted((c, v) for c, v in fails if v == vv)
        if exact and g and all(c in ("Invariance", "JitterStable") for c, _ in g):
            # the perturbed replay itself is right: it differs from the base because the base is wrong
            exact = sorted(exact + g)
            g = []
        out.append((suffix, name, g))
    return [("", "exact", exact)] + out


def report_member(ctx, V, cases, keyed_K):
    by = {c["id"]: c for c in cases}
    nv = len(X.M_VARIANTS)
    for v in V:
        _, rid, _, j, cls, kinds, fails = v
        c = by[rid]
        p = X.vec_of_index(c["pidx"][j - 1], c["K"])
        for suffix, gname, grp in _groups(fails, X.M_VARIANTS):
            if not grp:
                continue
            fneg = [vv for cl, vv in grp if cl == "OnArcReported"]
            flag = bool(fneg) and all(X.plane_residual_member(c["a"], c["b"], p, vv - 1, c["kz"], c["theta"]) > EPS for vv in fneg)
            sig = {"fn": "point_within_gca", "keyed": c["K"] in keyed_K and suffix == "", "polar": kinds[0] == "polar",
                   "class": cls, "plane_residual_gt_eps": flag, "replay_group": gname, "arc_kind": kinds[0],
                   "meridian_plane": kinds[0] in ("meridian", "polar")}
            key = "M/K%d/%s/%s/%s%s" % (c["K"], X.vkey(c["a"]), X.vkey(c["b"]), X.vkey(p), suffix)
            for clause in sorted({cl for cl, _ in grp}):
                ctx.violation(key, clause, detail={"failed": grp, "variants": X.M_VARIANTS, "arc_kind": kinds[0], "exact_class": cls},
                              sig=sig, replay={"fn": "point_within_gca", "a": c["a"], "b": c["b"], "p": p, "j": j - 1, "kz": c["kz"], "theta": c["theta"], "jseed": c["jseed"]})


def report_pairs(ctx, V, cases, keyed_K, K_of):
    by = {c["id"]: c for c in cases}
    nv = len(X.X_VARIANTS)
    for v in V:
        _, rid, _, j, cls, kinds, fails = v
        c = by[rid]
        cd = c["o"][j - 1]
        K = K_of[rid]
        for suffix, gname, grp in _groups(fails, X.X_VARIANTS):
            if not grp:
                continue
            fneg = [vv for cl, vv in grp if cl == "CrossingFound"]
            flag = bool(fneg) and all(X.plane_residual_pair(c["a"], c["b"], cd[0], cd[1], vv - 1, c["kz"], c["theta"]) > EPS for vv in fneg)
            sig = {"fn": "gca_gca_intersection", "keyed": K in keyed_K and suffix == "", "polar": "polar" in kinds,
                   "class": cls, "plane_residual_gt_eps": flag, "replay_group": gname,
                   "arc_kind": "meridian" if "meridian" in kinds else "+".join(sorted(set(kinds))),
                   "meridian_plane": "meridian" in kinds or "polar" in kinds}
            key = "X/K%d/%s/%s/%s/%s%s" % (K, X.vkey(c["a"]), X.vkey(c["b"]), X.vkey(cd[0]), X.vkey(cd[1]), suffix)
            for clause in sorted({cl for cl, _ in grp}):
                ctx.violation(key, clause, detail={"failed": grp, "variants": X.X_VARIANTS, "arc_kinds": list(kinds), "exact_class": cls},
                              sig=sig, replay={"fn": "gca_gca_intersection", "a": c["a"], "b": c["b"], "c": cd[0], "d": cd[1],
                                               "x": c["x"][j - 1], "j": j - 1, "kz": c["kz"], "theta": c["theta"], "jseed": c["jseed"]})


def report_lat(ctx, V, cases, keyed_K, K_of):
    by = {c["id"]: c for c in cases}
    nv = len(X.L_VARIANTS)
    for v in V:
        _, rid, _, _, which, kinds, fails = v
        c = by[rid]
        K = K_of[rid]
        for suffix, gname, grp in _groups(fails, X.L_VARIANTS):
            if not grp:
                continue
            sig = {"fn": "extreme_gca_latitude", "keyed": K in keyed_K and suffix == "", "polar": kinds[0] == "polar",
                   "class": "max%d/min%d" % tuple(which), "plane_residual_gt_eps": False, "replay_group": gname, "arc_kind": kinds[0],
                   "meridian_plane": kinds[0] in ("meridian", "polar")}
            key = "L/K%d/%s/%s%s" % (K, X.vkey(c["a"]), X.vkey(c["b"]), suffix)
            for clause in sorted({cl for cl, _ in grp}):
                ctx.violation(key, clause, detail={"failed": grp, "variants": X.L_VARIANTS, "arc_kind": kinds[0], "which": list(which)},
                              sig=sig, replay={"fn": "extreme_gca_latitude", "a": c["a"], "b": c["b"], "cand": c["cand"], "kz": c["kz"], "theta": c["theta"], "jseed": c["jseed"]})


def report_shrunk(ctx, V, cases):
    """Verdict lines of the shrunk-arc families: <<"V", id, kind, <<k, j>>, class, kinds, fails>>"""
    by = {c["id"]: c for c in cases}
    names = {"SM": X.SM_VARIANTS, "SX": X.SX_VARIANTS, "SL": X.SL_VARIANTS}
    fn = {"SM": "point_within_gca", "SX": "gca_gca_intersection", "SL": "extreme_gca_latitude"}
    for v in V:
        _, rid, kind, (k, j), cls, kinds, fails = v
        c = by[rid]
        for suffix, gname, grp in _groups(fails, names[kind] + ["-"]):   # no generic rotation in these families
            if not grp:
                continue
            if kind == "SM":
                q = c["p"] if j == 0 else X.vec_of_index(c["qidx"][j - 1], c["K"])
                what = {"p": c["p"], "q": q}
                key = "SM/K%d/%s/%s/%s/%s/k%d%s" % (c["K"], X.vkey(c["a"]), X.vkey(c["b"]), X.vkey(c["p"]), X.vkey(q), k, suffix)
            elif kind == "SX":
                cd = c["o"][j - 1]
                what = {"c": cd[0], "d": cd[1], "x": c["x"][j - 1], "w": c["w"][j - 1]}
                key = "SX/K%d/%s/%s/%s/%s/k%d%s" % (c["K"], X.vkey(c["a"]), X.vkey(c["b"]), X.vkey(cd[0]), X.vkey(cd[1]), k, suffix)
            else:
                what = {"p": c["p"], "cand": c["cand"]}
                key = "SL/K%d/%s/%s/%s/k%d%s" % (c["K"], X.vkey(c["a"]), X.vkey(c["b"]), X.vkey(c["p"]), k, suffix)
            sig = {"fn": fn[kind], "keyed": False, "polar": "polar" in kinds, "class": str(cls), "plane_residual_gt_eps": False,
                   "replay_group": gname, "arc_kind": "+".join(sorted(set(kinds))),
                   "meridian_plane": "meridian" in kinds or "polar" in kinds, "short_arc": True, "k": k}
            for clause in sorted({cl for cl, _ in grp}):
                ctx.violation(key, clause, detail={"failed": grp, "variants": names[kind], "arc_kinds": list(kinds), "exact_class": cls,
                                                   "shrunk": "arcs (M w + a, M w + b), M = 10^%d" % k},
                              sig=sig, replay=dict(what, fn=fn[kind], shrunk=True, a=c["a"], b=c["b"], k=k, jseed=c["jseed"], id=rid))


def call_histories(ctx, arcs1, thorough):
    """The predicates are functions of values (ArcCalls.tla): TLC proves ValueSemantics for the intended mechanisms, refutes it
    for a cache keyed by object identity, and emits every history of in-place overwrites and calls of the bounded scope; they
    are replayed on real, really reused buffers and JudgeCalls.tla validates every call against the current contents."""
    import json
    import os

    steps = 3
    mc = {"ArcCallsMC": X.calls_module()}
    r = ctx.tlc_ok("ArcCallsMC", X.calls_cfg("none", steps, X.CALL_FORMS, True), extra_modules=mc, workers=8, timeout=3000,
                   what="ValueSemantics with no cache; emit every history of %d steps (2 buffers, 3 arcs, 7 argument forms)" % steps)
    hists = [v[1] for v in X.extract_prints(r.out) if v[0] == "H"]
    if thorough:
        r4 = ctx.tlc_ok("ArcCallsMC", X.calls_cfg("none", 4, ["buffer", "alias", "copy"], True), extra_modules=mc, workers=8, timeout=3000,
                        what="ValueSemantics with no cache; emit every history of 4 steps (forms buffer / alias / copy)")
        h4 = sorted(v[1] for v in X.extract_prints(r4.out) if v[0] == "H")
        n4 = len(h4)
        # all of them are model-checked; a seeded sample is replayed (every 3-step history is)
        hists += random.Random(ctx.seed).sample(h4, min(len(h4), 6000))
        ctx.note("call_histories_4_steps", {"model_checked": n4, "replayed_sample": min(n4, 6000)})
    ctx.tlc_ok("ArcCallsMC", X.calls_cfg("by_value", steps, X.CALL_FORMS, False), extra_modules=mc, workers=8, timeout=3000,
               what="ValueSemantics with a cache keyed by the VALUE of the arc")
    bad = ctx.tlc("ArcCallsMC", X.calls_cfg("by_identity", steps, X.CALL_FORMS, False), extra_modules=mc, workers=1, timeout=3000, count=False,
                  what="a cache keyed by the IDENTITY of the array object must be refuted (expected: ValueSemantics violated)")
    if bad.violated != "ValueSemantics":
        raise Machinery("TLC did not refute the identity-keyed cache: %r" % bad)
    if not hists:
        raise Machinery("ArcCalls emitted no history")
    by = {(tuple(e["a"]), tuple(e["b"])): e for e in arcs1}
    cand = []
    for a, b in X.CALL_POOL:
        e = by[(tuple(a), tuple(b))]
        cand.append([[w + 1, X.eval_lat(d)] for w, d in enumerate(e["cand"])])
    cases = []
    for n, h in enumerate(hists):
        stp = [list(t) for t in h]
        basic = all(t[0] == "O" or t[2] in X.CALL_FORMS_BASIC for t in stp)
        for fn in ("pw", "ex", "gi", "cl"):
            if fn == "pw" or basic:
                cases.append({"id": "H:%s:%d" % (fn, n), "fn": fn, "steps": stp, "cand": cand})
    X.warm_up()
    recs = pmap(X.replay_history, cases)
    # the Json module holds a whole file in memory: at most 25 000 records per TLC run, a few runs side by side
    from concurrent.futures import ThreadPoolExecutor
    import time

    batches = [recs[k:k + 25000] for k in range(0, len(recs), 25000)]
    nproc = int(os.environ.get("VERIF_NPROC", "0") or 0) or 8
    par = max(1, min(len(batches), nproc // 2, 4))

    def judge_batch(kb):
        k, batch = kb
        time.sleep(0.3 * (k % par))            # harness.tlc names its scratch files by the millisecond
        path = os.path.join(ctx.work, "calls_%d.ndjson" % k)
        with open(path, "w") as fh:
            for rec in batch:
                fh.write(json.dumps(rec, separators=(",", ":")) + "\n")
        res = ctx.tlc_ok("JudgeCalls", "INIT Init\nNEXT Next\nINVARIANT Judge\nCHECK_DEADLOCK FALSE\n", env={"REC_FILE": path},
                         workers=max(2, min(8, nproc // par)), count=False, timeout=3000,
                         what="validate %d recorded call histories against the value-level answers (batch %d/%d)" % (len(batch), k + 1, len(batches)))
        os.remove(path)
        return X.extract_prints(res.out)

    with ThreadPoolExecutor(par) as ex:
        pr = [v for part in ex.map(judge_batch, enumerate(batches)) for v in part]
    S = [v for v in pr if v[0] == "S"]
    if len(S) != len(recs):
        raise Machinery("JudgeCalls answered %d of %d histories" % (len(S), len(recs)))
    judged = Counter()
    for _, _, fn, nj, nskip in S:
        judged[fn] += nj
    for fn in ("pw", "ex", "gi", "cl"):
        if judged[fn] == 0:
            raise Machinery("vacuous: no call of %s judged in the histories" % fn)
    names = {"pw": "point_within_gca", "ex": "extreme_gca_latitude", "gi": "gca_gca_intersection", "cl": "gca_const_lat_intersection"}
    byid = {c["id"]: c for c in cases}
    for v in pr:
        if v[0] != "V":
            continue
        _, rid, fn, bad_steps = v
        c = byid[rid]
        txt = ";".join("%s%d:%s" % (t[0], t[1], t[2]) + (":%d" % t[3] if t[0] == "C" else "") for t in c["steps"])
        for clause in sorted({cl for cl, _ in bad_steps}):
            ctx.violation("H/%s/%s" % (fn, txt), clause, detail={"failed_steps": sorted(bad_steps), "steps": c["steps"], "pool": X.CALL_POOL,
                                                                  "args": X.CALL_ARGS[fn]},
                          sig={"fn": names[fn], "keyed": False, "family": "call-history", "replay_group": "history"},
                          replay={"fn": names[fn], "history": True, "steps": c["steps"], "code": fn})
    ctx.traces += sum(judged.values())
    ctx.evaluations += sum(judged.values())
    for c in cases:
        ctx.nontrivial.add(c["id"])
    ctx.note("call_histories", {"histories": len(hists), "replayed(history x function)": len(cases), "calls_judged": dict(judged),
                                "identity_keyed_cache_refuted_by_TLC_in_steps": bad.depth})


def run(ctx):
    rng = random.Random(ctx.seed)
    thorough = ctx.tier == "thorough"

    # ---- 1. the model: laws of the oracle on the exhaustive scopes; the same runs emit the cases
    _, arcs1, pairs1 = X.scope(ctx, 1, stages=("T", "P"), pair_canon=True, emit_pairs=True,
                               what="oracle laws on every arc, triple and canonical arc pair of |c|<=1; emit cases")
    if len(arcs1) != 624:
        raise Machinery("expected 624 arcs on the 26-direction lattice, TLC emitted %d" % len(arcs1))
    if thorough:
        _, arcs2, _ = X.scope(ctx, 2, stages=("T",), what="oracle laws on every arc and triple of |c|<=2 (98 directions); emit arcs")
        X.scope(ctx, 2, KP=1, stages=("P",), first_canon=True, emit_arcs=False, laws=True, pair_stride=16,
                what="oracle laws on arc pairs: a fixed 1/16 of the arcs of |c|<=2 (up to endpoint swap) x every arc of |c|<=1")
        _, arcs3, _ = X.scope(ctx, 3, stages=(), first_canon=True, emit_classes=False,
                              laws=[l for l in X.LAWS_A if l != "InvLatDominates"],
                              what="latitude laws (all but dominance) on every arc of |c|<=3 (290 directions, up to endpoint swap); emit arcs")
        if len(arcs2) != 98 * 96:
            raise Machinery("expected 9408 arcs for |c|<=2, got %d" % len(arcs2))
    else:
        _, arcs2, _ = X.scope(ctx, 2, stages=(), first_canon=True, laws=False,
                              what="emit every arc of |c|<=2 (up to endpoint swap) with kind, classes and latitude descriptors")
        arcs3 = []

    # ---- 2. cases
    keyed_K = {1}
    m_cases = member_cases(rng, arcs1, 1)
    l_cases = lat_cases(rng, arcs1, 1)
    x_cases = pair_cases_from_scope(rng, pairs1, 1)
    K_of = {c["id"]: 1 for c in l_cases + x_cases}
    boundary_pairs = 0
    if thorough:
        m2 = member_cases(rng, arcs2, 2)
        l2 = lat_cases(rng, arcs2, 2)
        x2, bp = pair_cases_sampled(ctx, rng, arcs2, 2, 100, {"polar": 250, "meridian": 150, "equator": 100, "antimeridian": 300, "generic": 700})
        boundary_pairs += bp
        quota3 = {"polar": 150, "meridian": 100, "equator": 50, "antimeridian": 200, "generic": 500}
        s3 = [_flip(rng, e) for e in _stratified(rng, arcs3, quota3)]
        m3 = member_cases(rng, s3, 3)
        l3 = lat_cases(rng, [_flip(rng, e) for e in arcs3], 3)
        x3, bp = pair_cases_sampled(ctx, rng, arcs3, 3, 100, {"polar": 120, "meridian": 80, "equator": 50, "antimeridian": 150, "generic": 400})
        boundary_pairs += bp
        for c in l3 + x3:
            K_of[c["id"]] = 3
    else:
        quota2 = {"polar": 80, "meridian": 50, "equator": 30, "antimeridian": 80, "generic": 160}
        s2 = [_flip(rng, e) for e in _stratified(rng, arcs2, quota2)]
        m2 = member_cases(rng, s2, 2)
        l2 = lat_cases(rng, [_flip(rng, e) for e in arcs2], 2)
        x2, bp = pair_cases_sampled(ctx, rng, arcs2, 2, 80, {"polar": 60, "meridian": 30, "equator": 20, "antimeridian": 50, "generic": 90})
        boundary_pairs += bp
        m3, l3, x3 = [], [], []
    for c in l2 + x2:
        K_of[c["id"]] = 2
    m_cases += m2 + m3
    l_cases += l2 + l3
    x_cases += x2 + x3

    # shrunk arcs: short arcs (down to ~1e-6 rad) whose exact class is inherited from a lattice case by the
    # laws LawShrinkTriple / LawShrinkPair / LawShrinkLat (model-checked for M = 1..3 in ArcScope.tla)
    ap1 = interior_points(arcs1, 1)
    ap2 = interior_points(arcs2, 2)
    x1_cases = [c for c in x_cases if K_of[c["id"]] == 1]
    x2_cases = [c for c in x_cases if K_of[c["id"]] == 2]
    if thorough:
        ap2 = rng.sample(ap2, min(len(ap2), 4000))
        sm1, sl1 = shrunk_point_cases(rng, ap1, 1, 27)
        sm2, sl2 = shrunk_point_cases(rng, ap2, 2, 40)
        sx = shrunk_pair_cases(x1_cases, 1, 10 ** 9, rng) + shrunk_pair_cases(x2_cases, 2, 12000, rng)
    else:
        ap2 = rng.sample(ap2, min(len(ap2), 250))
        sm1, sl1 = shrunk_point_cases(rng, ap1, 1, 27)
        sm2, sl2 = shrunk_point_cases(rng, ap2, 2, 16)
        sx = shrunk_pair_cases(x1_cases, 1, 1200, rng) + shrunk_pair_cases(x2_cases, 2, 600, rng)
    s_cases = sm1 + sm2 + sl1 + sl2 + sx
    for c in m_cases + l_cases + x_cases + s_cases:
        c["jseed"] = _jseed(ctx.seed, c["id"])

    # ---- 3. replay into the implementation
    X.warm_up()
    m_recs = pmap(X.replay_member, m_cases)
    l_recs = pmap(X.replay_lat, l_cases)
    x_recs = pmap(X.replay_pairs, x_cases)
    s_recs = pmap(X.replay_sm, sm1 + sm2) + pmap(X.replay_sl, sl1 + sl2) + pmap(X.replay_sx, sx)

    # ---- 4. TLC judges
    recs = m_recs + l_recs + x_recs + s_recs
    chunk = 20000
    V, S = [], []
    for k in range(0, len(recs), chunk):
        v, s, _ = X.judge(ctx, recs[k:k + chunk], "judge %d implementation records" % len(recs[k:k + chunk]))
        V += v
        S += s

    # ---- 5. bookkeeping: what was judged, what was boundary
    stat = {k: Counter() for k in ("M", "X", "L", "SM", "SX", "SL")}
    kinds_judged = {k: Counter() for k in ("M", "X", "L", "SM", "SX", "SL")}
    for _, rid, kind, akind, judged, boundary, pos in S:
        stat[kind]["judged"] += judged
        stat[kind]["boundary"] += boundary
        stat[kind]["positive"] += pos
        kinds_judged[kind][akind] += judged
    # the generator's class vectors and the judge's classification must agree (binds the two TLC runs)
    m_by = {c["id"]: c for c in m_cases}
    cls_by = {_arc_id("M", K, e["a"], e["b"]): e["classes"] for K, arcs in ((1, arcs1), (2, arcs2)) for e in arcs if e["classes"]}
    s_by = {rid: (judged, pos) for _, rid, kind, _, judged, _, pos in S if kind == "M"}
    for rid, cl in cls_by.items():
        if rid in s_by:
            want = (sum(cl.count(d) for d in "123"), cl.count("1"))
            if want != s_by[rid]:
                raise Machinery("generator and judge disagree on %s: %s vs %s" % (rid, want, s_by[rid]))
    for kind in ("M", "X", "L"):
        missing = [k for k in KINDS if kinds_judged[kind][k] == 0]
        if missing:
            raise Machinery("vacuous: no %s case judged on arcs of kind %s" % (kind, missing))
    n_calls = (stat["M"]["judged"] * (len(X.M_VARIANTS) + 1) + stat["X"]["judged"] * len(X.X_VARIANTS)
               + stat["L"]["judged"] * len(X.L_VARIANTS) * 2)
    n_calls += (stat["SM"]["judged"] * len(X.SM_VARIANTS) + stat["SX"]["judged"] * len(X.SX_VARIANTS)
                + stat["SL"]["judged"] * len(X.SL_VARIANTS) * 2)
    for kind in ("SM", "SX", "SL"):
        if stat[kind]["judged"] == 0:
            raise Machinery("vacuous: no shrunk-arc case of kind %s judged" % kind)
    ctx.traces += sum(stat[k]["judged"] for k in stat)
    ctx.evaluations += n_calls
    for c in s_cases:
        ctx.nontrivial.add(c["id"])
    for r in m_recs:
        base = X.index_of_vec(r["a"], 3) * 400 + X.index_of_vec(r["b"], 3)
        for i in r["pidx"]:
            ctx.nontrivial.add(("M", r["K"], base, i))
    for r in x_recs:
        for cd in r["o"]:
            ctx.nontrivial.add(("X", tuple(r["a"]), tuple(r["b"]), tuple(cd[0]), tuple(cd[1])))
    for r in l_recs:
        ctx.nontrivial.add(("L", tuple(r["a"]), tuple(r["b"])))

    # ---- 6. verdicts (all decided by TLC)
    report_member(ctx, [v for v in V if v[2] == "M"], m_cases, keyed_K)
    report_pairs(ctx, [v for v in V if v[2] == "X"], x_cases, keyed_K, K_of)
    report_lat(ctx, [v for v in V if v[2] == "L"], l_cases, keyed_K, K_of)
    report_shrunk(ctx, [v for v in V if v[2] in ("SM", "SX", "SL")], s_cases)
    call_histories(ctx, arcs1, thorough)

    ctx.exhaustive = True
    ctx.rule = (
        "TLC enumerates every minor arc, (arc, point) triple and (up to the symmetries replayed explicitly) every arc pair of "
        "the primitive lattice |c|<=1, model-checks the oracle's laws on them and emits them with exact class, crossing "
        "direction and latitude descriptors; larger lattices (|c|<=2: all arcs for latitude, %s; |c|<=3 in thorough) are drawn "
        "from TLC's arc list stratified by TLC's arc kind. Every case is replayed as generated and under endpoint swap, arc "
        "swap, a quarter turn and a generic rotation about the polar axis; JudgeArcs.tla decides each record. Non-trivial = "
        "distinct (function, arc[, point | second arc]) input, boundary cases included in the count only if TLC judged them "
        "(margin >= 1e-4 rad by an exact integer bound; endpoints / touching pairs are boundary, not judged)."
        % ("all arcs x all points in thorough, a stratified sample in quick")
    )
    ctx.note("judged", {k: dict(v) for k, v in stat.items()})
    ctx.note("judged_by_arc_kind", {k: dict(v) for k, v in kinds_judged.items()})
    ctx.note("pairs_classified_boundary_before_replay", boundary_pairs + (48516 - len(pairs1)))
    ctx.note("variants", {"M": X.M_VARIANTS, "X": X.X_VARIANTS, "L": X.L_VARIANTS})
    ctx.note("tolerances", {"margin_rad_at_least": 1e-4, "property_margin_rad": 1e-6, "point": X.POINT_TOL, "latitude": X.LAT_TOL})
    for r in (m_recs[0], l_recs[0], x_recs[0]):
        s = dict(r)
        if r["kind"] == "X":
            s["o"], s["r"] = r["o"][:3], r["r"][:3]
        ctx.sample(s)
    ctx.assumptions += [
        "TLC's evaluator, its 32-bit overflow trap, and the CommunityModules Json reader",
        "float normalisation of an integer direction is within 1 ulp per component; a lattice point exactly on a great circle "
        "is presented within ~1e-16 of it (as a library consumer obtains such points)",
        "invariance of the exact class under a rotation about the polar axis by a generic angle is the mathematical fact "
        "(isometry fixing the poles); TLC proves it for quarter turns and for Rot24 via its generators",
        "lattices larger than |c|<=1 (|c|<=2 in thorough for membership) are sampled; arc lengths below ~0.1 rad are not in scope",
        "the known-finding signature field plane_residual_gt_eps is evaluated by the harness in numpy (it narrows a finding, it never decides a verdict)",
    ]


def replay(path):
    """./check C14 --replay <file>: re-run the cases of a replay file against the implementation and have
    TLC judge them again.  Prints one line per case; exit 1 if any still fails."""
    import json

    from harness import core

    with open(path) as fh:
        data = json.load(fh)
    ctx = core.Ctx(PROP, "replay", 0)
    try:
        m_cases, x_cases, l_cases, s_cases, h_cases = [], [], [], [], []
        failed_any = False
        for n, v in enumerate(data.get("cases", [])):
            r = v["replay"]
            if r.get("history"):
                if r["code"] == "ex":
                    print("not replayed individually (needs TLC's latitude descriptors; re-run the tier): %s" % v["key"])
                    continue
                h_cases.append({"id": "H:%s:%d" % (r["code"], n), "fn": r["code"], "steps": r["steps"], "cand": [], "key": v["key"]})
            elif r.get("shrunk"):
                # shrunk-arc cases: same arcs, same exact variants; the jitter replay is re-seeded (index within the record differs)
                sid = "%s:%d" % (r["id"].split(":")[0], n)
                K = int(r["id"].split(":")[1][1:])
                if r["fn"] == "point_within_gca":
                    s_cases.append(("sm", {"id": sid, "K": K, "a": r["a"], "b": r["b"], "p": r["p"], "qidx": [X.index_of_vec(r["q"], K)],
                                           "ks": [r["k"]], "jseed": r["jseed"], "key": v["key"]}))
                elif r["fn"] == "gca_gca_intersection":
                    s_cases.append(("sx", {"id": sid, "K": K, "a": r["a"], "b": r["b"], "o": [[r["c"], r["d"]]], "x": [r["x"]], "w": [r["w"]],
                                           "ks": [r["k"]], "jseed": r["jseed"], "key": v["key"]}))
                else:
                    s_cases.append(("sl", {"id": sid, "K": K, "a": r["a"], "b": r["b"], "p": r["p"], "cand": r["cand"],
                                           "ks": [r["k"]], "jseed": r["jseed"], "key": v["key"]}))
            elif r["fn"] == "point_within_gca":
                K = max(1, max(abs(t) for t in r["a"] + r["b"] + r["p"]))
                m_cases.append({"id": "M:%d" % n, "K": K, "a": r["a"], "b": r["b"], "pidx": [0] * r.get("j", 0) + [X.index_of_vec(r["p"], K)],
                                "kz": r["kz"], "theta": r["theta"], "jseed": r.get("jseed", 0), "key": v["key"]})
            elif r["fn"] == "gca_gca_intersection":
                x_cases.append({"id": "X:%d" % n, "a": r["a"], "b": r["b"], "o": [[r["c"], r["d"]]], "x": [r["x"]],
                                "kz": r["kz"], "theta": r["theta"], "jseed": r.get("jseed", 0), "j0": r.get("j", 0), "key": v["key"]})
            else:
                l_cases.append({"id": "L:%d" % n, "a": r["a"], "b": r["b"], "cand": r["cand"], "kz": r["kz"], "theta": r["theta"], "jseed": r.get("jseed", 0), "key": v["key"]})
        X.warm_up()
        recs = [X.replay_member(c) for c in m_cases] + [X.replay_lat(c) for c in l_cases] + [X.replay_pairs(c) for c in x_cases]
        recs += [{"sm": X.replay_sm, "sx": X.replay_sx, "sl": X.replay_sl}[t](c) for t, c in s_cases]
        V, _, _ = X.judge(ctx, recs, "re-judge %d replayed cases" % len(recs))
        if h_cases:
            import os

            hrecs = [X.replay_history(c) for c in h_cases]
            hp = os.path.join(ctx.work, "calls.ndjson")
            with open(hp, "w") as fh:
                for rec in hrecs:
                    fh.write(json.dumps(rec, separators=(",", ":")) + "\n")
            hres = ctx.tlc_ok("JudgeCalls", "INIT Init\nNEXT Next\nINVARIANT Judge\nCHECK_DEADLOCK FALSE\n", env={"REC_FILE": hp}, count=False,
                              what="re-judge %d call histories" % len(hrecs))
            hbad = {v[1]: sorted(v[3]) for v in X.extract_prints(hres.out) if v[0] == "V"}
            for c, rec in zip(h_cases, hrecs):
                print("%s  %s  answers per step=%s" % ("FAILS" if c["id"] in hbad else "holds", c["key"], json.dumps(rec["r"])))
                if c["id"] in hbad:
                    print("    failed (clause, step): %s" % hbad[c["id"]])
            if hbad:
                failed_any = True
        keys = {c["id"]: c["key"] for c in m_cases + x_cases + l_cases + [c for _, c in s_cases]}
        bad = {}
        for v in V:
            # membership replays pad pidx with index 0 (the zero vector, never judged) to keep the tilt parity
            bad.setdefault(v[1], []).append(sorted(v[6]))
        for rec in recs:
            shown = [row[-1] for row in rec["r"]] + [rec["t"][-1]] if rec["kind"] == "M" else (rec.get("rp"), rec.get("tp"), rec["r"]) if rec["kind"] == "SM" else rec["r"]
            print("%s  %s  impl(per variant)=%s" % ("FAILS" if rec["id"] in bad else "holds", keys[rec["id"]], json.dumps(shown)[:200]))
            if rec["id"] in bad:
                print("    failed clauses (clause, variant): %s" % bad[rec["id"]])
        return 1 if (bad or failed_any) else 0
    finally:
        import shutil

        shutil.rmtree(ctx.work, ignore_errors=True)

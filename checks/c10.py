"""C10 - xarray operations keep a UxDataArray attached to a consistent grid (over PROGRAMS)."""

from __future__ import annotations

import json
import os
import random
import re

from harness import tlaval
from harness import x_c10 as X
from harness.core import Machinery
from harness.pool import pmap

PROP = "C10"
IDW_OPS = {"remap_idw_face", "remap_idw_node"}
CLASSES = ["Elementwise", "Permute", "DropLead", "ResizeLead", "AddLead", "DropGridDim", "ReplaceOnGrid", "Remap", "Dual",
           "Subset", "IndexGridDim", "Copy", "ThroughDataset", "MixedDataset"]
CONSTS = "CONSTANTS\n MaxDepth = %d\n Broken = %s\n EmitSucc = %s\n"
BROKEN_CFG = "SPECIFICATION Spec\n" + CONSTS + "INVARIANT %s\nCHECK_DEADLOCK FALSE\n"
MODEL_CFG = ("SPECIFICATION Spec\n" + CONSTS + "INVARIANT TypeOK\nINVARIANT IsUx\nINVARIANT GridDimsConsistent\nINVARIANT DataFollowsGrid\n"
             "PROPERTY SameGrid\nPROPERTY DeepCopyFresh\nPROPERTY GridsGrow\nPROPERTY MixedGridDimsConsistent\nCHECK_DEADLOCK FALSE\n")
# one run does both: every transition out of every abstract state (one representative per <<arr, grids, depth>>: the
# properties constrain arr', grids' and last' only, so the operation that led INTO a state is irrelevant) is checked
# against the invariants / action properties, and the successor tables are emitted
GEN_CFG = ("SPECIFICATION Spec\n" + CONSTS + "INVARIANT Emit\nINVARIANT TypeOK\nINVARIANT IsUx\nINVARIANT GridDimsConsistent\nINVARIANT DataFollowsGrid\n"
           "PROPERTY SameGrid\nPROPERTY DeepCopyFresh\nPROPERTY GridsGrow\nPROPERTY MixedGridDimsConsistent\nVIEW GenView\nCHECK_DEADLOCK FALSE\n")
SIM_CFG = "SPECIFICATION Spec\n" + CONSTS + "INVARIANT TypeOK\nCHECK_DEADLOCK FALSE\n"
TRACE_CFG = "SPECIFICATION TSpec\n" + CONSTS % (12, "FALSE", "FALSE") + "INVARIANT Report\nCHECK_DEADLOCK FALSE\n"


# --------------------------------------------------------------------------- TLC values -> python
def _plain(v):
    if isinstance(v, dict):
        return {k: _plain(x) for k, x in v.items()}
    if isinstance(v, (tuple, list, frozenset)):
        return [_plain(x) for x in v]
    if isinstance(v, tlaval.MV):
        return str(v)
    return v


def skey(a, G):
    return json.dumps([a, G], sort_keys=True)


def parse_succ_tables(out):
    """Lines printed by UxOps!Emit -> {state key: (arr, grids, {(op, d): (free, arr', grids')})}, start keys."""
    table, starts = {}, []
    for line in out.splitlines():
        if not line.startswith('"<<\\"X\\"'):
            continue
        text = json.loads(line).replace("{", "<<").replace("}", ">>")
        tag, depth, a, G, succ = tlaval.parse(text)
        a, G = _plain(a), _plain(G)
        k = skey(a, G)
        moves = {}
        for r, ops in succ:
            ra, rG = _plain(r["a"]), _plain(r["G"])
            for op, d, m, ix, free in ops:
                moves[(str(op), str(d), "+".join(sorted(map(str, m))), str(ix))] = (bool(free), ra, rG)
        if k in table and table[k][2].keys() != moves.keys():
            raise Machinery("successor table of a state differs between depths")
        table[k] = (a, G, moves)
        if depth == 0:
            starts.append(k)
    return table, sorted(set(starts))


# --------------------------------------------------------------------------- programs as a trie
def new_node(free, a, G):
    return {"free": free, "a": a, "G": G, "kids": {}}


def full_trie(table, k, depth):
    a, G, moves = table[k]
    kids = {}
    if depth > 0:
        for key, (free, ra, rG) in sorted(moves.items()):
            n = new_node(free, ra, rG)
            kk = skey(ra, rG)
            if depth > 1 and kk in table:
                n["kids"] = full_trie(table, kk, depth - 1)
            kids[key] = n
    return kids


def count_paths(table, k, depth, memo):
    """Number of programs of exactly `depth` operations from state k."""
    if depth == 0:
        return 1
    if (k, depth) in memo:
        return memo[(k, depth)]
    t = 0
    if k in table:
        for (free, ra, rG) in table[k][2].values():
            t += count_paths(table, skey(ra, rG), depth - 1, memo)
    memo[(k, depth)] = t
    return t


def sample_path(table, k, depth, rng, memo):
    path = []
    while depth > 0:
        moves = sorted(table[k][2].items())
        ws = [count_paths(table, skey(m[1][1], m[1][2]), depth - 1, memo) for m in moves]
        if sum(ws) == 0:
            return None
        key, (free, ra, rG) = rng.choices(moves, weights=ws)[0]
        path.append((key, free, ra, rG))
        k = skey(ra, rG)
        depth -= 1
    return path


def add_path(kids, path):
    for key, free, ra, rG in path:
        n = kids.get(key)
        if n is None:
            n = kids[key] = new_node(free, ra, rG)
        kids = n["kids"]


def trie_size(kids):
    return sum(1 + trie_size(n["kids"]) for n in kids.values())


# --------------------------------------------------------------------------- replay (worker side)
def kn(dims):
    return [(d["k"], 0 if d["k"] in X.GRID_KINDS else d["n"]) for d in dims]


def gd_pre(a):
    ks = [q["k"] for q in a["dims"] if q["k"] in X.GRID_KINDS]
    return ks[0] if ks else None


def py_failed(ln, a, G, free, e):
    ix = ln.get("ix", "-")
    """Mirror of TraceUxOps!Clauses, used to decide how the replay continues and to cross-check the judge."""
    f = set()
    op = ln["op"]
    own = X.base(op, ix) in X.OWN_OPS
    if ln["out"] == "raised" or (ln["out"] == "refused" and not (free or (X.base(op, ix) in IDW_OPS and ln["presize"] < 2))) or (ln["out"] == "xr_refused" and own and op not in X.GSEL_OPS):
        f.add("Raises")
    if ln["val"] == "diff":
        f.add("ValuesAsXarray")
    if ln["out"] != "value":
        return f
    isux = ln["cls"] == "Ux"
    if not isux:
        f.add("IsUx")
    newh = len(G) + 1
    gd = [d for d in ln["dims"] if d["k"] in X.GRID_KINDS]
    if isux:
        if (ln["grid"] not in (a["grid"], newh, e["grid"])) if free else (ln["grid"] != e["grid"]):
            f.add("SameGrid")
        if not (all(ln["grid"] != 0 and d["n"] == ln["grid"] for d in gd) and len(gd) <= 1):
            f.add("GridDimsConsistent")
        if not all(ln["grid"] != 0 and d["size"] == ln["g"]["cnt"][d["k"]] for d in gd):
            f.add("GridDimsNumeric")
    if X.base(op, ix) in X.FREE_OPS:
        ok = len(ln["dims"]) == len(a["dims"]) and all(
            l["k"] == p["k"] and (p["k"] in X.GRID_KINDS or l["n"] == p["n"]) for l, p in zip(ln["dims"], a["dims"]))
        if not ok:
            f.add("DimsEffect")
    elif not free and kn(ln["dims"]) != kn(e["dims"]):
        f.add("DimsEffect")
    if isux and (not a["al"] or (X.base(op, ix) in X.SELECT_OPS and len(ln["src"]) == len(ln["sel"]) and ln["src"] != ln["sel"])):
        f.add("DataFollowsGrid")
    if (op in X.GSEL_OPS and ln["wantok"] and X.base(op, ix) in X.SELECT_OPS and isux and gd_pre(a)
            and not (ln["src"] == ln["want"] if gd_pre(a) == "n_face" else set(ln["want"]) <= set(ln["src"]))):
        f.add("SelectsWhatXarraySelects")
    if X.base(op, ix) in X.COPY_OPS and not (a["grid"] in ln["g"]["eq"] and not ln["g"]["share"] and not ln["g"]["mem"] and not ln["g"]["leak"]):
        f.add("DeepCopyIndependent")
    if not free and not (e["name"] == "free" or (ln["name"] if ln["name"] != "other" else "free") == e["name"]):
        f.add("Name")
    return f


def root_kind(G, h):
    """Kind of the grid a handle stands for, looking through copies (data of the specification's grid table)."""
    while G[h - 1]["kind"] == "copy":
        h = G[h - 1]["of"]
    return G[h - 1]["kind"]


class Runner:
    def __init__(self):
        self.traces = []
        self.verdicts = {}  # trace id -> (line, sorted clauses, detail)
        self.nodes = 0
        self.drift = {}
        self.ended = 0
        self.table_errors = []

    def emit(self, tid, init, steps):
        self.traces.append({"id": tid, "init": {"arr": init[0], "grids": init[1]}, "steps": [{k: v for k, v in s.items() if k not in ("on", "gl")} for s in steps],
                            "pre_kinds": [s["on"] for s in steps], "pre_gridlast": [s.get("gl", True) for s in steps]})

    def step(self, op, d, mix, ix, node, x, xp, reg, env, a, G):
        """Apply one operation to the real array and the plain mirror; return (line, result, plain result)."""
        hux_ = X.hux.import_ux()
        own = X.base(op, ix) in X.OWN_OPS
        free = node["free"]
        ln = {"op": op, "d": d, "m": list(mix), "ix": ix, "out": "value", "val": "na", "src": [], "sel": [], "want": [], "wantok": False, "comp": [],
              "presize": int(x.sizes[X.grid_dim(x)]) if X.grid_dim(x) is not None else -1}
        gsel = op in X.GSEL_OPS
        r = rp = None
        err = perr = None
        select = X.base(op, ix) in X.SELECT_OPS
        # a selection of FACES is exact (not inclusive): plain xarray's isel on the same data is the value oracle there too
        use_oracle = ((not own and X.base(op, ix) not in X.FREE_OPS) or (select and X.grid_dim(x) == "n_face")) and not mix
        run_plain = use_oracle or gsel   # generic selections: plain xarray also says WHAT is selected (and whether it refuses)
        if run_plain:
            try:
                rp = X.apply(op, d, xp, ix=ix)

            except Exception as ex:  # noqa
                perr = "%s: %s" % (type(ex).__name__, str(ex)[:160])
        try:
            full = None
            if mix:
                full = X.apply_ds_full(op, d, x, dest=env["dest"], mix=mix)
                r = full["v"]
            else:
                r = X.apply(op, d, x, dest=env["dest"], ix=ix)
        except Exception as ex:  # noqa
            err = "%s: %s" % (type(ex).__name__, str(ex)[:160])
        if err is not None:
            if run_plain and perr is not None:
                ln["out"] = "xr_refused"
            elif free or (X.base(op, ix) in IDW_OPS and ln["presize"] < 2):
                # (inverse distance weighting needs at least two source elements: a one-element operand is outside its domain)
                ln["out"] = "refused"
            else:
                ln["out"] = "raised"
            ln["err"] = err
            return ln, None, rp
        if gsel and perr is None and X.grid_dim(x) is not None:
            # what plain xarray's isel selects with the same indexer: a tracer through plain isel
            try:
                import numpy as np
                import xarray as xr

                gk = X.grid_dim(x)
                tp = xr.DataArray(np.arange(x.sizes[gk], dtype=float), dims=[gk])
                ln["want"] = [int(v) for v in np.atleast_1d(np.asarray(X.apply(op, d, tp, ix=ix).values, dtype=float)).ravel().tolist()]
                ln["wantok"] = True
            except Exception:  # noqa
                pass
        if not use_oracle:
            rp_keep, rp = rp, None
        if run_plain and perr is not None:
            # plain xarray refuses, the subclass returns something: nothing to compare values with
            ln["val"] = "na"
            ln["perr"] = perr
        import xarray as xr

        if not isinstance(r, xr.DataArray):
            ln.update({"cls": "Other", "grid": 0, "dims": [], "name": "other", "g": {"cnt": {k: -1 for k in X.GRID_KINDS}, "eq": [], "share": [], "mem": [], "leak": []}})
            ln["rtype"] = type(r).__name__
            return ln, r, rp
        ln.update(X.project(r, reg))
        if select and ln["cls"] == "Ux" and ln["grid"] != 0 and X.grid_dim(r) is not None:
            raw_src = None
            ln["src"], ln["sel"], canon, raw_src = X.selection_maps(op, x, r, dest=env["dest"], d=d, mix=mix, ix=ix)
            if canon is not None:
                ln["want"] = [canon[i] if 0 <= i < len(canon) else i for i in ln["want"]]
            if not use_oracle:
                # node / edge selections are inclusive: the data must be the operand's data at the tracer's source indices
                k = X.grid_dim(x)
                try:
                    import numpy as np

                    want = np.take(np.asarray(x.values), raw_src, axis=list(x.dims).index(k))
                    ln["val"] = "eq" if tuple(r.dims) == tuple(x.dims) and X._arr_eq(np.asarray(r.values), want) else "diff"
                except Exception:  # noqa
                    ln["val"] = "diff"
        if mix and ln["cls"] == "Ux":
            ln["comp"] = X.observe_companions(op, full, x, mix, reg, X.project)
        if use_oracle and rp is not None:
            ln["val"] = "eq" if X.same_as_plain(r, rp) else "diff"
            # the operation table itself against xarray: predicted dims of the result
            e = node["a"]
            got = [(dn, int(s)) for dn, s in zip(rp.dims, rp.shape) if dn not in X.GRID_KINDS]
            exp = [(q["k"], q["n"]) for q in e["dims"] if q["k"] not in X.GRID_KINDS]
            if [dn for dn in rp.dims] != [q["k"] for q in e["dims"]] or got != exp:
                self.table_errors.append({"op": op, "d": d, "plain_dims": list(map(str, rp.dims)), "plain_shape": list(rp.shape), "expected": e["dims"]})
            pname = {"v": "v", "w": "w", None: "none"}.get(rp.name, "other")
            if e["name"] != "free" and pname != e["name"]:
                self.table_errors.append({"op": op, "d": d, "plain_name": str(rp.name), "expected_name": e["name"]})
        return ln, r, rp

    def walk(self, kids, x, xp, reg, env, a, G, pid, seg_init, seg, restart):
        ux = X.hux.import_ux()
        for (op, d, mx, ix), node in sorted(kids.items()):
            self.nodes += 1
            reg2 = reg.clone()
            mix = tuple(mx.split("+")) if mx else ()
            ln, r, rp = self.step(op, d, mix, ix, node, x, xp, reg2, env, a, G)
            e, eG, free = node["a"], node["G"], node["free"]
            prog = pid + "/" + (op if d == "-" else op + ":" + d) + ("[%s]" % mx if mx else "") + ("<%s>" % ix if ix != "-" else "")
            tid = prog if restart == 0 else "%s@%d" % (prog, restart)
            failed = py_failed(ln, a, G, free, e)
            line = {k: v for k, v in ln.items() if k not in ("err", "perr", "rtype")}
            line["on"] = root_kind(G, a["grid"])
            line["gl"] = bool(a["dims"]) and a["dims"][-1]["k"] in X.GRID_KINDS
            steps = seg + [line]
            depth_here = prog.count("/")
            if failed:
                self.emit(tid, seg_init, steps)
                self.verdicts[tid] = (len(steps), sorted(failed), {k: ln.get(k) for k in ("err", "cls", "grid", "dims", "name", "g", "val", "out", "rtype", "src", "sel") if k in ln})
                if not node["kids"]:
                    continue
                # continue below the failure from the state the specification expects, if it can be had
                nx = None
                struct_ok = ln["out"] == "value" and not (failed & {"IsUx", "SameGrid", "DimsEffect", "GridDimsConsistent", "GridDimsNumeric", "Name", "DataFollowsGrid", "ValuesAsXarray"})
                if struct_ok:
                    nx, nxp = r, (rp if rp is not None else X.to_plain(r))
                elif X.base(op, ix) not in X.OWN_OPS and X.base(op, ix) not in X.FREE_OPS and X.base(op, ix) not in X.COPY_OPS and rp is not None and e["grid"] <= len(reg.grids):
                    nx, nxp = ux.UxDataArray(rp, uxgrid=reg.grids[e["grid"] - 1]), rp
                    reg2 = reg.clone()
                if nx is not None:
                    self.walk(node["kids"], nx, nxp, reg2, env, e, eG, prog, (e, eG), [], depth_here)
                continue
            if ln["out"] != "value":
                self.ended += 1
                self.emit(tid, seg_init, steps)
                continue
            if free and (kn(ln["dims"]) != kn(e["dims"]) or ln["grid"] != e["grid"]):
                # a consistent result other than the one the generator assumed: nothing generated below it
                self.emit(tid, seg_init, steps)
                continue
            # descriptive bookkeeping: drift is reported, never judged
            try:
                idx, dt = X.obs_bookkeeping(r)
                for q in e["dims"]:
                    # "dup" means "not known to be unique": only a wrong "uniq" / "none" is drift
                    o_ = idx.get(q["k"])
                    if o_ is not None and ((q["idx"] == "uniq" and o_ != "uniq") or ((q["idx"] == "none") != (o_ == "none"))):
                        self.drift.setdefault("idx:%s" % op, [0, prog, q["k"], idx[q["k"]], q["idx"]])[0] += 1
                if dt != e["dt"] and e["dt"] == "float":
                    self.drift.setdefault("dt:%s" % op, [0, prog, dt])[0] += 1
            except Exception:  # noqa
                pass
            if not node["kids"]:
                self.emit(tid, seg_init, steps)
                continue
            nxp = rp if rp is not None else X.to_plain(r)
            self.walk(node["kids"], r, nxp, reg2, env, e, eG, prog, seg_init, steps, restart)


def run_task(task):
    sid, a, G, kids = task
    env = X.env()
    lead = [q["k"] for q in a["dims"] if q["k"] not in X.GRID_KINDS]
    kind = [q["k"] for q in a["dims"] if q["k"] in X.GRID_KINDS][0]
    x = X.start_array(env["base"], lead, kind)
    reg = X.Registry([env["base"], env["dest"]])
    rn = Runner()
    rn.walk(kids, x, X.to_plain(x), reg, env, a, G, sid, (a, G), [], 0)
    return {"traces": rn.traces, "verdicts": rn.verdicts, "nodes": rn.nodes, "drift": rn.drift, "ended": rn.ended, "table_errors": rn.table_errors[:5]}


# --------------------------------------------------------------------------- simulation behaviours
_STATE = re.compile(r"^STATE_\d+ ==\s*$")


def parse_sim_file(text):
    """A behaviour module written by `-simulate file=`: sequence of states (dicts)."""
    states, buf = [], None
    for line in text.splitlines():
        if re.match(r"^STATE_\d+\s*==", line):
            if buf:
                states.append("\n".join(buf))
            buf = [line.split("==", 1)[1]]
        elif buf is not None:
            if line.startswith("====") or line.startswith("\\*") or line.strip() == "":
                if buf:
                    states.append("\n".join(buf))
                buf = None
            else:
                buf.append(line)
    if buf:
        states.append("\n".join(buf))
    out = []
    for s in states:
        d = tlaval._parse_state_body(s.replace("{", "<<").replace("}", ">>"))
        out.append({k: _plain(v) for k, v in d.items()})
    return out


# --------------------------------------------------------------------------- trace validation
def _check_batch(traces, rt):
    """Verdicts of one TraceUxOps run + acceptance bookkeeping (every trace consumed all its lines, ended by a refusal on
    its last line, or was rejected: the number of states TLC visited must be exactly what the verdicts imply)."""
    rejected, endmarks = {}, {}
    for v in rt.prints:
        if isinstance(v, tuple) and len(v) == 4 and v[0] == "R":
            rejected[v[1]] = (v[2], sorted(map(str, v[3])))
        elif isinstance(v, tuple) and len(v) == 4 and v[0] == "E":
            endmarks[v[1]] = v[2]
    expect_states = (len(traces) + 63) // 64
    for t in traces:
        L = len(t["steps"])
        if t["id"] in rejected:
            ln = rejected[t["id"]][0]
            expect_states += ln if ln > 0 else 0
        elif t["id"] in endmarks:
            expect_states += endmarks[t["id"]]
            if endmarks[t["id"]] != L:
                raise Machinery("trace %s ended before its last line" % t["id"])
        else:
            expect_states += 1 + L
    if rt.distinct != expect_states:
        raise Machinery("trace validation visited %d states, %d expected from the verdicts" % (rt.distinct, expect_states))
    return rejected, endmarks


def _write_traces(path, traces):
    with open(path, "w") as fh:
        for t in traces:
            fh.write(json.dumps({k: t[k] for k in ("id", "init", "steps")}, separators=(",", ":")) + "\n")


def validate_traces(ctx, traces, batch=None):
    if batch is None or len(traces) <= batch:
        path = os.path.join(ctx.work, "traces.ndjson")
        _write_traces(path, traces)
        if os.environ.get("VERIF_C10_KEEP"):
            import shutil

            shutil.copy(path, os.environ["VERIF_C10_KEEP"])
        rt = ctx.tlc_ok("TraceUxOps", TRACE_CFG, what="trace validation: %d recorded traces, %d lines" % (len(traces), sum(len(t["steps"]) for t in traces)),
                        env={"TRACE_FILE": path}, workers=1, count=False, timeout=3000, heap="8g")
        return _check_batch(traces, rt)
    from concurrent.futures import ThreadPoolExecutor

    from harness import tlc as _tlc

    chunks = [traces[i:i + batch] for i in range(0, len(traces), batch)]
    side = max(1, (int(os.environ.get("VERIF_NPROC", "0")) or min(16, os.cpu_count() or 4)) // 2)

    def one(k):
        wd = os.path.join(ctx.work, "tv%d" % k)
        os.makedirs(wd, exist_ok=True)
        path = os.path.join(wd, "traces.ndjson")
        _write_traces(path, chunks[k])
        r = _tlc.run("TraceUxOps", TRACE_CFG, wd, env={"TRACE_FILE": path}, workers=1, timeout=1500, heap="4g")
        os.remove(path)
        return k, r

    rejected, endmarks = {}, {}
    with ThreadPoolExecutor(max_workers=side) as ex:
        for k, r in ex.map(one, range(len(chunks))):
            ctx.tlc_runs.append({"module": "TraceUxOps", "what": "trace validation, batch %d/%d: %d recorded traces, %d lines" % (k + 1, len(chunks), len(chunks[k]), sum(len(t["steps"]) for t in chunks[k])),
                                 "generated": r.generated, "distinct": r.distinct, "depth": r.depth, "wall_s": round(r.wall, 2), "ok": r.ok, "violated": r.violated})
            if not r.ok:
                raise Machinery("trace validation batch %d failed: violated=%s rc=%s\n%s" % (k + 1, r.violated, r.rc, r.out[-4000:]))
            rj, em = _check_batch(chunks[k], r)
            rejected.update(rj)
            endmarks.update(em)
    return rejected, endmarks


# --------------------------------------------------------------------------- the check
def start_id(a):
    return "+".join(q["k"] for q in a["dims"])


def run(ctx):
    thorough = ctx.tier == "thorough"
    rng = random.Random(ctx.seed)
    depth = 2   # both tiers: tables of every state within depth 2; the thorough tier adds simulated programs of depth 3 and 8
    T = lambda b: "TRUE" if b else "FALSE"  # noqa: E731

    # 1. the specification on its own (merged with the generation run below)
    # sanity: a wrong operation (shorter grid dim, same grid) is caught by the invariant
    for inv in ("GridDimsConsistent", "DataFollowsGrid"):
        rb = ctx.tlc("UxOps", BROKEN_CFG % (1, "TRUE", "FALSE", inv), what="UxOps with deliberately broken operations (must violate %s)" % inv, workers=2, count=False, timeout=600)
        if rb.violated != inv:
            raise Machinery("the broken-operation variant did not violate %s (got %s)" % (inv, rb.violated))

    # 2. generation: successor tables with expected abstract results, from TLC
    rg = ctx.tlc_ok("UxOps", GEN_CFG % (depth, "FALSE", "TRUE"), what="UxOps: TypeOK, IsUx, GridDimsConsistent, DataFollowsGrid, SameGrid, DeepCopyFresh, GridsGrow, MixedGridDimsConsistent on every transition within depth %d + successor tables (-coverage)" % depth,
                    workers=8, timeout=1500, coverage=True)
    idle = [c for c in CLASSES if rg.coverage.get(c, (0, 0))[1] == 0]
    if idle:
        raise Machinery("vacuous model: actions never fired: %s" % idle)
    ctx.note("action_coverage", {c: rg.coverage[c][1] for c in CLASSES})
    table, starts = parse_succ_tables(rg.out)
    if len(starts) != 9:
        raise Machinery("expected 9 start states, got %d" % len(starts))
    ops_seen = {k[0] for v in table.values() for k in v[2]}
    allops = None
    for line in rg.out.splitlines():
        if line.startswith('"<<\\"OPS\\"'):
            _, ops_, base_, base2_ = tlaval.parse(json.loads(line).replace("{", "<<").replace("}", ">>"))
            X.BASE2.clear()
            X.BASE2.update({(str(n_), str(x_)): str(b_) for n_, x_, b_ in base2_})
            allops = set(map(str, ops_))
            X.BASE.clear()
            X.BASE.update({str(k): str(v) for k, v in base_.items() if str(k) != str(v)})
    if allops is None or ops_seen != allops:
        raise Machinery("vacuous model: operations never enabled within the depth: %s" % (sorted((allops or set()) - ops_seen),))
    memo = {}
    n_by_depth = {dd: sum(count_paths(table, s, dd, memo) for s in starts) for dd in range(1, depth + 1)}
    ctx.note("programs_in_scope_by_depth", n_by_depth)
    ctx.note("operations", len(ops_seen))

    tries = {}
    if True:
        for s in starts:
            tries[s] = full_trie(table, s, 2)
        ctx.exhaustive = True
        # budget: pairs that mix one dataset-level with one array-level operation are sampled 1 in 5 in the quick tier
        # (all array x array pairs, all dataset x dataset pairs and every single operation stay exhaustive)
        # and of the pairs containing an operation on a MIXED dataset 1 in 120 (every such single operation is replayed:
        # all mixes x all selection dimensions x all start arrays)
        for s in starts:
            for (op1, _d1, m1, x1), n1 in tries[s].items():
                for k2 in sorted(n1["kids"]):
                    if m1 or k2[2] or x1 != "-" or k2[3] != "-":
                        keep = rng.random() < 1.0 / 120.0
                    else:
                        keep = op1.startswith("ds_") == k2[0].startswith("ds_") or rng.random() < 1.0 / 5.0
                    if not keep:
                        del n1["kids"][k2]

    # 2b. long programs from simulation (thorough)
    sim_programs = []
    if thorough:
        for simdepth, nsim in ((3, 6000), (8, 400)):
            simdir = os.path.join(ctx.work, "sim%d" % simdepth)
            os.makedirs(simdir, exist_ok=True)
            rs = ctx.tlc("UxOps", SIM_CFG % (simdepth, "FALSE", "FALSE"), what="simulation: %d programs of depth %d" % (nsim, simdepth),
                         simulate="num=%d,file=%s" % (nsim, os.path.join(simdir, "b")), depth=simdepth + 1, seed=ctx.seed + simdepth, workers=1, count=False, timeout=900)
            if rs.violated:
                raise Machinery("simulation run failed: %s" % rs.out[-2000:])
            for fn in sorted(os.listdir(simdir)):
                with open(os.path.join(simdir, fn)) as fh:
                    sts = parse_sim_file(fh.read())
                os.remove(os.path.join(simdir, fn))
                if len(sts) < 2:
                    continue
                prog = []
                for prev, st in zip(sts, sts[1:]):
                    o = st["last"]
                    prog.append((o["op"], o["d"], "+".join(sorted(o.get("m") or [])), o.get("ix", "-"), None, st["arr"], st["grids"], prev["arr"]))
                sim_programs.append((sts[0]["arr"], sts[0]["grids"], prog))
        if not sim_programs:
            raise Machinery("no simulation behaviours parsed")

    # 3. replay
    tasks = []
    for s in starts:
        a, G, _ = table[s]
        for key, node in sorted(tries[s].items()):
            tasks.append((start_id(a), a, G, {key: node}))
    # simulation programs: the free flag is not part of the state; recompute from the table when known, else from dims
    for i, (a0, G0, prog) in enumerate(sim_programs):
        kids = root = {}
        for (op, d, mx, ix, _, ea, eG, pa) in prog:
            gpos = [j for j, q in enumerate(pa["dims"]) if q["k"] in X.GRID_KINDS]
            last_axis = X.base(op, ix) in (set(X.TOPO) | set(X.REMAP))
            free = X.base(op, ix) in X.FREE_OPS or (last_axis and not (gpos and gpos[0] == len(pa["dims"]) - 1)) or (op == "ds_remap_nn_face" and "c0" in mx)
            n = new_node(free, ea, eG)
            kids[(op, d, mx, ix)] = n
            kids = n["kids"]
        tasks.append(("sim%d:%s" % (i, start_id(a0)), a0, G0, root))
    rng.shuffle(tasks)
    n_nodes_planned = sum(trie_size(t[3]) for t in tasks)
    import time

    t_replay = time.time()
    res = pmap(run_task, tasks)
    ctx.note("replay_wall_s", round(time.time() - t_replay, 1))
    traces, pyv, drift, nodes, ended, terr = [], {}, {}, 0, 0, []
    for o in res:
        traces += o["traces"]
        pyv.update(o["verdicts"])
        nodes += o["nodes"]
        ended += o["ended"]
        terr += o["table_errors"]
        for k, v in o["drift"].items():
            if k in drift:
                drift[k][0] += v[0]
            else:
                drift[k] = list(v)
    if terr:
        raise Machinery("operation table disagrees with plain xarray on the shape/name of a result (fix UxOps.tla): %s" % terr[:3])
    ids = [t["id"] for t in traces]
    if len(set(ids)) != len(ids):
        raise Machinery("duplicate trace ids")

    # binding demonstration: corrupt one logged field of an accepted trace; TLC must reject it with the right clause
    corrupt = {}
    # the base traces are synthesised from the specification's own expectation (independent of the implementation)
    s0 = next(k for k in starts if start_id(table[k][0]) == "time+n_face")
    a0, G0, mv0 = table[s0]
    base_cnt = X.counts(X.env()["base"])
    sub_cnt = {"n_face": 2, "n_node": 6, "n_edge": 7}

    def synth(tid, ops):
        steps0, cur = [], s0
        for op in ops:
            op, d_, mx_ = op if isinstance(op, tuple) else (op, "-", "")
            ix = "-"
            free_, ea, eG = table[cur][2][(op, d_, mx_, "-")]
            cnt = sub_cnt if eG[ea["grid"] - 1]["kind"] == "subset" else base_cnt
            steps0.append({"op": op, "d": d_, "out": "value", "val": "eq", "cls": "Ux", "grid": ea["grid"], "name": "v",
                           "dims": [{"k": q["k"], "n": q["n"], "size": cnt[q["k"]] if q["k"] in X.GRID_KINDS else q["n"]} for q in ea["dims"]],
                           "g": {"cnt": cnt, "eq": [1] if X.base(op, ix) in X.COPY_OPS else [], "share": [], "mem": [], "leak": []},
                           "src": [0, 1] if X.base(op, ix) in X.SELECT_OPS else [], "sel": [0, 1] if X.base(op, ix) in X.SELECT_OPS else [],
                           "m": mx_.split("+") if mx_ else [], "ix": "-", "want": [], "wantok": False, "presize": 14,
                           "comp": [{"c": c, "cls": "Ux", "grid": ea["grid"], "src": [0, 1] if c != "c0" else [], "sel": [0, 1] if c != "c0" else [], "val": "eq",
                                     "dims": [{"k": k, "n": ea["grid"] if k in X.GRID_KINDS else X.AUX_LEN[k], "size": cnt[k] if k in X.GRID_KINDS else X.AUX_LEN[k]}
                                              for k in X.COMP_SHAPE[c]]} for c in (mx_.split("+") if mx_ else [])]})
            cur = skey(ea, eG)
        t = {"id": tid, "init": {"arr": a0, "grids": G0}, "steps": steps0, "pre_kinds": ["base"] * len(ops), "pre_gridlast": [True] * len(ops)}
        traces.append(t)
        return t

    bases = {"abs": synth("corrupt:none", ["abs", "abs"]), "sel": synth("corrupt:none-select", ["abs", "isel_grid_kw"]),
             "copy": synth("corrupt:none-copy", ["abs", "copy_deep"]),
             "mix": synth("corrupt:none-mixed", ["abs", ("ds_isel_grid_kw", "n_face", "cf+cn")])}

    def corrupted(tag, clause, edit, base="abs"):
        t = json.loads(json.dumps({k: bases[base][k] for k in ("id", "init", "steps")}))
        t["id"] = "corrupt:" + tag
        edit(t["steps"][-1])
        t["pre_kinds"] = bases[base]["pre_kinds"]
        t["pre_gridlast"] = bases[base]["pre_gridlast"]
        corrupt[t["id"]] = clause
        traces.append(t)

    corrupted("cls", "IsUx", lambda l: l.update(cls="Plain"))
    corrupted("grid", "SameGrid", lambda l: l.update(grid=2 if l["grid"] != 2 else 1))
    corrupted("len", "DimsEffect", lambda l: l["dims"][0].update(n=l["dims"][0]["n"] + 1))
    corrupted("kind", "DimsEffect", lambda l: l["dims"].reverse())
    corrupted("size", "GridDimsNumeric", lambda l: l["dims"][-1].update(size=l["dims"][-1]["size"] - 1))
    corrupted("sym", "GridDimsConsistent", lambda l: l["dims"][-1].update(n=2 if l["dims"][-1]["n"] != 2 else 1))
    corrupted("val", "ValuesAsXarray", lambda l: l.update(val="diff"))
    corrupted("name", "Name", lambda l: l.update(name="other"))
    corrupted("out", "Raises", lambda l: l.update(out="raised"))
    corrupted("order", "DataFollowsGrid", lambda l: l.update(src=[1, 0]), base="sel")
    corrupted("share", "DeepCopyIndependent", lambda l: l["g"].update(share=[1]), base="copy")
    corrupted("mem", "DeepCopyIndependent", lambda l: l["g"].update(mem=[1]), base="copy")
    corrupted("leak", "DeepCopyIndependent", lambda l: l["g"].update(leak=[1]), base="copy")
    corrupted("uneq", "DeepCopyIndependent", lambda l: l["g"].update(eq=[]), base="copy")
    corrupted("mix-cls", "MixedIsUx", lambda l: l["comp"][1].update(cls="Plain"), base="mix")
    corrupted("mix-grid", "MixedSameGrid", lambda l: l["comp"][1].update(grid=1), base="mix")
    corrupted("mix-size", "MixedGridDims", lambda l: l["comp"][1]["dims"][0].update(size=12), base="mix")
    corrupted("mix-sym", "MixedGridDims", lambda l: l["comp"][1]["dims"][0].update(n=1), base="mix")
    corrupted("mix-kind", "MixedDimsEffect", lambda l: l["comp"][1]["dims"][0].update(k="n_edge"), base="mix")
    corrupted("mix-gone", "MixedDimsEffect", lambda l: l["comp"].pop(), base="mix")
    corrupted("mix-order", "MixedFollowsGrid", lambda l: l["comp"][1].update(src=[1, 0]), base="mix")

    # 4. TLC validates the recorded traces against UxOps (thorough: in batches of <= 25 000 traces, a few side by side)
    rejected, endmarks = validate_traces(ctx, traces, batch=25000 if thorough else None)
    for t in bases.values():
        if t["id"] in rejected:
            raise Machinery("binding demonstration: the conforming synthetic trace %s was rejected: %s" % (t["id"], rejected[t["id"]]))
    traces = [t for t in traces if not t["id"].startswith("corrupt:none")]
    for tid, clause in corrupt.items():
        if tid not in rejected or rejected[tid][0] != 2 or clause not in rejected[tid][1]:
            raise Machinery("binding demonstration: corrupted trace %s (expected clause %s) was judged %s" % (tid, clause, rejected.get(tid)))
        del rejected[tid]
    traces = [t for t in traces if t["id"] not in corrupt]
    ctx.note("binding_demonstration", "%d corrupted copies of an accepted trace, each rejected at the corrupted line with the expected clause" % len(corrupt))
    # the judge and the replay driver must agree on which lines fail (binding check)
    for tid, (ln, cl) in rejected.items():
        if "Init" in cl or "IsEvent" in cl or "Enabled" in cl:
            raise Machinery("trace %s rejected by %s: generator and trace specification disagree" % (tid, cl))
        core = [c for c in cl if not c.startswith("Mixed")]   # the Mixed* clauses are TLC's alone: the driver does not predict them
        if core:
            if tid not in pyv or pyv[tid][0] != ln or pyv[tid][1] != core:
                raise Machinery("judge/driver disagreement on %s: TLC %s, driver %s" % (tid, (ln, cl), pyv.get(tid)))
    for tid in pyv:
        if tid not in rejected:
            raise Machinery("driver flagged %s %s but TLC accepted the trace" % (tid, pyv[tid][:2]))

    ctx.traces += len(traces)
    by_id = {t["id"]: t for t in traces}
    per_sig = {}
    for tid, (ln, cl) in sorted(rejected.items()):
        t = by_id[tid]
        step = t["steps"][ln - 1]
        for clause in cl:
            # abstract signature, from the specification's side: operation and the kind of grid it was applied on
            sig = {"op": step["op"], "on": t["pre_kinds"][ln - 1]}
            if step.get("ix", "-") != "-":
                sig["ix"] = step["ix"]
            if X.base(step["op"], step.get("ix", "-")) in set(X.REMAP):
                # (decided from the specification's state: was the grid dimension the last one?)
                sig["gridlast"] = bool(t["pre_gridlast"][ln - 1])
            obs = pyv[tid][2] if tid in pyv and pyv[tid][0] == ln else {k: step.get(k) for k in ("cls", "grid", "dims", "g", "comp", "m")}
            if clause.startswith("Mixed"):
                sig["mix"] = "+".join(step.get("m", []))
                obs = {"comp": step.get("comp"), "grid": step.get("grid"), "g": step.get("g")}
            hit = ctx.violation(tid, clause, detail={"line": ln, "failed": cl, "observed": obs}, sig=sig,
                                replay={"trace": t, "start": t["init"], "how": "harness.x_c10.apply(op, d, x) step by step from start_array"})
            per_sig[(clause, step["op"])] = per_sig.get((clause, step["op"]), 0) + 1
    ctx.note("rejections_by_clause_op", {"%s/%s" % k: v for k, v in sorted(per_sig.items())})
    ctx.note("model_drift", drift)
    ctx.note("programs_replayed", nodes)
    ctx.note("programs_planned", n_nodes_planned)
    ctx.note("ended_by_refusal", ended)
    ctx.note("simulated_programs", len(sim_programs))
    if drift:
        print("MODEL-DRIFT: descriptive bookkeeping (labels/dtype class) differs from the observation for: %s" % sorted(drift.items())[:8])
    # evaluations: every replayed program prefix; non-trivial = program with >= 2 operations or a grid-changing one
    for t in traces:
        ctx.count(0, None)
    ctx.evaluations += nodes
    for t in traces:
        if "/" in t["id"]:
            ctx.nontrivial.add(t["id"].split("@")[0])
    ctx.rule = (
        "TLC model-checks UxOps.tla (an abstract UxDataArray under ~%d public operations) and emits, for every abstract state within the depth, "
        "the successor table with the expected result of every enabled operation; every program (composition) of depth <= %d from the nine start arrays "
        "(face/node/edge-centred x 0..2 leading dims) is replayed on a real UxDataArray on the cuboctahedron grid (destination: cube) and in lock-step on a plain "
        "xarray.DataArray with the same data; after each step class, grid identity (handles by object identity), dims, sizes against the grid's counts, name, "
        "equality with plain xarray's result and the copy's independence are logged; TLC validates each trace against UxOps (TraceUxOps.tla). "
        "Non-trivial = distinct maximal program replayed." % (len(ops_seen), depth)
    )
    for t in traces[:2] + traces[len(traces) // 2: len(traces) // 2 + 1]:
        ctx.sample({"id": t["id"], "steps": [{k: s[k] for k in ("op", "d", "out", "cls", "grid", "name", "val") if k in s} for s in t["steps"]]})
    ctx.assumptions += [
        "plain xarray (installed version) is the value oracle for xarray operations",
        "grid handles are assigned by object identity in order of first appearance; a dim's symbolic length is the handle whose count it equals",
        "uxarray's last-axis operators topological_* and remap.* are only prescribed when the grid dim is last; otherwise refusal or any consistent result is accepted (integrate, gradient, difference are prescribed in every position)",
        "thorough = the quick tier's programs + 6000 simulated programs of depth 3 + 400 of depth 8 (TLC -simulate, seeded); traces validated in batches of 25000",
    ]

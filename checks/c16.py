"""C16 - edge distances, differences and gradients follow the edge's own neighbours.

spec -> code: TLC enumerates small manifold face-node tables with node and face data rows
(EdgeScope.tla), proves the transcribed kernels equal to the declarative pairings (EdgeOps.tla),
dumps the states; each is replayed through Grid.edge_node_distances / edge_face_distances,
UxDataArray.difference and gradient(normalize=False/True).  code -> spec: catalogue polyhedra
(closed and cut: boundary edges, n_face > n_node and n_face < n_node), random planar mixed meshes,
synthetic MPAS-dialect sources with supplied dvEdge / dcEdge (primal and dual).

Two TLC passes over the records (JudgeEdge.tla): "emit" gives the face pair of every edge and the
exact geodesic descriptor of every lattice edge, the harness evaluates distances from them
(lattice.py, independent of uxarray) and compares to 1e-9; "judge" decides pairings, values of
differences (exact rationals), zero patterns, which rows are normalisable, shapes.
"""

from __future__ import annotations

import json
import math
import os
import random
from fractions import Fraction

from harness import catalog, lattice, meshgen, tlaval
from harness import ux as hux
from harness.core import Machinery
from harness.pool import pmap

PROP = "C16"
INVS = ["TypeOK", "EdgeTables", "L2_FaceDiff", "L2_NodeDiff", "Laws", "TracerReadable"]
LEAD_NAMES = ["time", "lev", "ens"]
TOL_DIST = 1e-9  # absolute, radians on the unit sphere
TOL_REL = 1e-8  # gradient * reference distance against the exact difference
SMALL_LON = [0.0, 12.0, 25.0, 9.0, -8.0, 17.0]
SMALL_LAT = [0.0, 3.0, 14.0, 22.0, 11.0, -9.0]


# ----------------------------------------------------------------------------- generation
def gen_scope(ctx, tag, nnode, maxfaces, sizes, npat=1, invs=INVS):
    dump = os.path.join(ctx.work, "edge_" + tag)
    cfg = (
        "INIT Init\nNEXT Next\nCONSTANTS\n NNode = %d\n MaxFaces = %d\n Sizes = {%s}\n NPat = %d\n Salt = %d\n"
        % (nnode, maxfaces, ",".join(map(str, sizes)), npat, ctx.seed % 8)
        + "".join("INVARIANT %s\n" % i for i in invs)
        + "CHECK_DEADLOCK FALSE\n"
    )
    r = ctx.tlc_ok(
        "EdgeScope",
        cfg,
        what="%s: difference kernels on transcribed edge/edge_face tables = declarative pairings, laws; all manifold tables NNode=%d MaxFaces=%d Sizes=%s NPat=%d invariants=%s"
        % (tag, nnode, maxfaces, sizes, npat, ",".join(invs)),
        dump=dump,
        timeout=3000,
    )
    with open(dump + ".dump") as fh:
        states = tlaval.parse_dump(fh.read())
    os.remove(dump + ".dump")
    if len(states) != r.distinct:
        raise Machinery("dump has %d states, TLC reports %d" % (len(states), r.distinct))
    out = [([list(f) for f in s["mesh"]], [list(x) for x in s["xrows"]], [list(y) for y in s["yrows"]]) for s in states]
    out.sort()
    return out


SCALE_EXPS = [-40, -30, -20, 0, 20, 40]  # EdgeOps.ScaleExps: rows scaled by 2^e (about 1e-12 .. 1e12), exact in floating point
LAYOUTS = []  # the layouts TLC enumerated (AggLayout.tla, shared with C17): position of the grid dim, other sizes


def shape_case(cid, k, mesh, n_node, xrows4, yrows4, layout=None, **extra):
    """Layout (position of the grid dimension in rank 1..4 data, pairwise different other sizes), dtype and
    denominator by the case counter.  Rows are canonical: one per C-order index of the other dimensions."""
    lay = layout if layout is not None else LAYOUTS[k % len(LAYOUTS)]
    dtype = ["int", "float"][(k // 3) % 2]
    den = 2 if (dtype == "float" and (k // 6) % 2 == 1) else 1
    lead = list(lay["lead"])
    nrow = 1
    for x in lead:
        nrow *= x
    nf = len(mesh)

    def cyc(rows4, n):
        src = [list(r[:n]) for r in rows4]
        return [src[j % 4][(j // 4) % n :] + src[j % 4][: (j // 4) % n] for j in range(nrow)]

    c = {
        "prop": PROP,
        "id": cid,
        "k": k,
        "mesh": mesh,
        "n_node": n_node,
        "xrows": cyc(xrows4, n_node),
        "yrows": cyc(yrows4, nf),
        "den": den,
        "dtype": dtype,
        "lead": lead,
        "pos": lay["pos"],
        "via": "topology",
    }
    # magnitudes (float data): every row scaled by the same 2^e, or each leading index by its own
    if dtype == "float":
        if (k // 12) % 3 == 1:
            c["sexp"] = [SCALE_EXPS[(k // 36) % len(SCALE_EXPS)]] * nrow
        elif (k // 12) % 3 == 2:
            c["sexp"] = [SCALE_EXPS[(k + j) % len(SCALE_EXPS)] for j in range(nrow)]
    c.update(extra)
    return c


# ----------------------------------------------------------------------------- float oracle helpers
def unit_of_lonlat(lon, lat):
    return lattice.xyz_of_lonlat_deg(lon, lat)


def centroid_unit(us):
    sx = math.fsum(u[0] for u in us)
    sy = math.fsum(u[1] for u in us)
    sz = math.fsum(u[2] for u in us)
    n = math.sqrt(sx * sx + sy * sy + sz * sz)
    return (sx / n, sy / n, sz / n)


_MEMO = {}


def proj(x, tol_rel=0.0, maxden=4096):
    """float -> [p, q, flags]; bit0: x == p/q exactly, bit1: |x - p/q| <= tol (1e-12 absolute, or relative tol_rel)."""
    x = float(x)
    key = (x, tol_rel, maxden)
    r = _MEMO.get(key)
    if r is not None:
        return r
    if not math.isfinite(x) or abs(x) > 1e6:
        r = [0, 0, 0]
    else:
        fr = Fraction(x).limit_denominator(maxden)
        if abs(fr.numerator) > 10**6:
            r = [0, 0, 0]
        else:
            exact = Fraction(x) == fr
            tol = max(1e-12, tol_rel * max(1.0, abs(float(fr))))
            ok = abs(x - float(fr)) <= tol
            r = [fr.numerator, fr.denominator, (1 if exact else 0) + (2 if ok else 0)]
    if len(_MEMO) < 200000:
        _MEMO[key] = r
    return r


def projs(x, exps, tol_rel, maxden):
    """Like projx for an inexact value known to be (a small multiple of 1/2) * 2^e for one of the record's exponents:
    the exponent is the one that brings |x| into [0.4, 600) (the exponents are >= 2^10 apart), so that the tolerance
    still separates neighbouring half-integers."""
    x = float(x)
    if x != 0.0 and math.isfinite(x):
        for e in exps:
            y = math.ldexp(x, -e)
            if 0.4 <= abs(y) < 600.0:
                return proj(y, tol_rel, maxden) + [e]
    return projx(x, tol_rel, maxden)


def projx(x, tol_rel=0.0, maxden=4096):
    """float -> [p, q, flags, k] with x = p / q * 2^k: the value is first brought to about 2^17..2^18 by an exact
    power of two, so that tiny and huge magnitudes keep all their digits; zero stays [0, 1, 3, 0]."""
    x = float(x)
    if x == 0.0 or not math.isfinite(x):
        return proj(x, tol_rel, maxden) + [0]
    k = math.frexp(x)[1] - 18
    return proj(math.ldexp(x, -k), tol_rel, maxden) + [k]


# ----------------------------------------------------------------------------- synthetic MPAS source
def ring_of(v, faces_at, faces):
    """cells around vertex v in ring order (consecutive cells share an edge at v); closed fans only."""
    cells = faces_at[v]
    nbr = {}
    for c in cells:
        f = faces[c]
        j = f.index(v)
        nbr[c] = (f[(j + 1) % len(f)], f[j - 1])  # (next corner, previous corner)
    ring = [cells[0]]
    while len(ring) < len(cells):
        cur = ring[-1]
        prev_corner = nbr[cur][1]
        nxt = [c for c in cells if c not in ring and nbr[c][0] == prev_corner]
        if not nxt:
            return None
        ring.append(nxt[0])
    return ring


def mpas_dataset(case):
    """An in-memory MPAS-dialect dataset of the case's mesh; returns (ds, info)."""
    import numpy as np
    import xarray as xr

    faces = case["mesh"]
    n_node = case["n_node"]
    units = [unit_of_lonlat(lo, la) for lo, la in zip(case["lon"], case["lat"])]
    cent = [centroid_unit([units[n] for n in f]) for f in faces]
    edges = []
    seen = {}
    for f in faces:
        for j in range(len(f)):
            s = frozenset((f[j], f[(j + 1) % len(f)]))
            if s not in seen:
                seen[s] = len(edges)
                edges.append((f[j], f[(j + 1) % len(f)]))
    cells_on_edge = []
    for a, b in edges:
        cs = [i for i, f in enumerate(faces) if any({f[j], f[(j + 1) % len(f)]} == {a, b} for j in range(len(f)))]
        cells_on_edge.append(cs)
    faces_at = {v: [i for i, f in enumerate(faces) if v in f] for v in range(n_node)}
    rings = {v: (ring_of(v, faces_at, faces) if faces_at[v] else []) for v in range(n_node)}
    w = max(len(f) for f in faces)
    voc = np.zeros((len(faces), w), dtype=np.int32)
    for i, f in enumerate(faces):
        voc[i, : len(f)] = [n + 1 for n in f]
    deg = max(len(c) for c in faces_at.values())
    cov = np.zeros((n_node, deg), dtype=np.int32)
    for v in range(n_node):
        r = rings[v] if rings[v] is not None else faces_at[v]
        cov[v, : len(r)] = [c + 1 for c in r]
    voe = np.array([[a + 1, b + 1] for a, b in edges], dtype=np.int32)
    coe = np.array([[cs[0] + 1, (cs[1] + 1) if len(cs) > 1 else 0] for cs in cells_on_edge], dtype=np.int32)
    true_dv = [lattice.ang_between(units[a], units[b]) for a, b in edges]
    true_dc = [lattice.ang_between(cent[cs[0]], cent[cs[1]]) if len(cs) > 1 else 0.0 for cs in cells_on_edge]
    if case["via"] == "mpas_primal_sentinel":
        dv = [float(1000 + 3 * e) for e in range(len(edges))]
        dc = [float(2000 + 5 * e) for e in range(len(edges))]
    else:
        dv, dc = true_dv, true_dc

    def lonlat_rad(u):
        return math.atan2(u[1], u[0]), math.asin(max(-1.0, min(1.0, u[2])))

    ds = xr.Dataset(
        {
            "verticesOnCell": (("nCells", "maxEdges"), voc),
            "nEdgesOnCell": (("nCells",), np.array([len(f) for f in faces], dtype=np.int32)),
            "cellsOnVertex": (("nVertices", "vertexDegree"), cov),
            "verticesOnEdge": (("nEdges", "TWO"), voe),
            "cellsOnEdge": (("nEdges", "TWO"), coe),
            "lonVertex": (("nVertices",), np.array([lonlat_rad(u)[0] for u in units])),
            "latVertex": (("nVertices",), np.array([lonlat_rad(u)[1] for u in units])),
            "lonCell": (("nCells",), np.array([lonlat_rad(u)[0] for u in cent])),
            "latCell": (("nCells",), np.array([lonlat_rad(u)[1] for u in cent])),
            "dvEdge": (("nEdges",), np.array(dv)),
            "dcEdge": (("nEdges",), np.array(dc)),
        }
    )
    if case["via"] == "mpas_radius":
        # a source on a sphere of radius R: Cartesian coordinates and the supplied distances in its length unit
        R = case["R"]
        ds["dvEdge"] = (("nEdges",), np.array(dv) * R)
        ds["dcEdge"] = (("nEdges",), np.array(dc) * R)
        for j, ax in enumerate("xyz"):
            ds[ax + "Cell"] = (("nCells",), np.array([R * c_[j] for c_ in cent]))
            ds[ax + "Vertex"] = (("nVertices",), np.array([R * u[j] for u in units]))
        ds.attrs["sphere_radius"] = R
        if case.get("mpas_coords") == "xyz":
            ds = ds.drop_vars(["lonCell", "latCell", "lonVertex", "latVertex"])
    info = {"edges": [list(e) for e in edges], "dv": dv, "dc": dc, "rings": rings, "cent": cent, "units": units, "cells_on_edge": cells_on_edge}
    return ds, info


def build(case):
    """-> (grid, oracle) where oracle = dict(mesh, n_node, units (float dirs of the grid's nodes), nodes (int dirs or None))"""
    import numpy as np

    ux = hux.import_ux()
    via = case["via"]
    if via == "topology":
        INT_DTYPE, FILL = hux.consts()
        g = ux.Grid.from_topology(
            np.array(case["lon"], dtype=float), np.array(case["lat"], dtype=float), hux.pad_table(case["mesh"]), fill_value=FILL
        )
        units = [unit_of_lonlat(lo, la) for lo, la in zip(case["lon"], case["lat"])]
        return g, {"mesh": case["mesh"], "n_node": case["n_node"], "units": units, "nodes": case.get("nodes")}
    if via == "prov":
        # coordinate provenance and scale: face centres (= the centroid directions) supplied as lon/lat, as Cartesian
        # vectors of length R, as both, or not at all; nodes optionally also as Cartesian vectors of length R
        INT_DTYPE, FILL = hux.consts()
        pv = case["prov"]
        R = pv["R"]
        units = [unit_of_lonlat(lo, la) for lo, la in zip(case["lon"], case["lat"])]
        cent = [centroid_unit([units[n] for n in f]) for f in case["mesh"]]
        kw = {}
        if pv["centres"] in ("lonlat", "both"):
            kw["face_lon"] = np.array([math.degrees(math.atan2(c_[1], c_[0])) for c_ in cent])
            kw["face_lat"] = np.array([math.degrees(math.asin(max(-1.0, min(1.0, c_[2])))) for c_ in cent])
        if pv["centres"] in ("xyz", "both"):
            for j, nm in enumerate(("face_x", "face_y", "face_z")):
                kw[nm] = np.array([R * c_[j] for c_ in cent])
        if pv["node_xyz"]:
            for j, nm in enumerate(("node_x", "node_y", "node_z")):
                kw[nm] = np.array([R * u[j] for u in units])
        g = ux.Grid.from_topology(
            np.array(case["lon"], dtype=float), np.array(case["lat"], dtype=float), hux.pad_table(case["mesh"]), fill_value=FILL, **kw
        )
        return g, {"mesh": case["mesh"], "n_node": case["n_node"], "units": units, "nodes": case.get("nodes")}
    ds, info = mpas_dataset(case)
    if via == "mpas_radius":
        return ux.open_grid(ds), {"mesh": case["mesh"], "n_node": case["n_node"], "units": info["units"], "nodes": None}
    if via in ("mpas_primal_sentinel", "mpas_primal_truthful"):
        g = ux.open_grid(ds)
        o = {"mesh": case["mesh"], "n_node": case["n_node"], "units": info["units"], "nodes": case.get("nodes")}
        if via == "mpas_primal_sentinel":
            o["supplied"] = info
        return g, o
    if via == "mpas_dual_partial":
        g = ux.open_grid(ds, use_dual=True)
        return g, {"mesh": None, "n_node": len(case["mesh"]), "units": info["cent"], "nodes": None, "centres": info["units"], "dp": info}
    if via == "mpas_dual_truthful":
        g = ux.open_grid(ds, use_dual=True)
        rings = info["rings"]
        if any(r is None or len(r) < 3 for r in rings.values()):
            raise Machinery("dual case needs a closed mesh: %s" % case["id"])
        mesh = [rings[v] for v in range(case["n_node"])]
        # the dual's face centres are supplied by the source: the primal vertices
        return g, {"mesh": mesh, "n_node": len(case["mesh"]), "units": info["cent"], "nodes": None, "centres": info["units"]}
    raise Machinery("unknown route " + via)


# ----------------------------------------------------------------------------- replay, stage A
def record_case(case):
    """Drive the public API; returns {"rec": ints only, "raw": floats kept for the numeric stage}."""
    import numpy as np

    ux = hux.import_ux()
    rec = {"id": case["id"], "den": case["den"], "dtype": case["dtype"], "lead": case["lead"], "pos": case["pos"], "via": case["via"]}
    rec["lead_dims"] = LEAD_NAMES[: len(case["lead"])]
    pos = case["pos"]

    def ins(seq, x):
        return list(seq[:pos]) + [x] + list(seq[pos:])

    raw = {}
    try:
        g, o = build(case)
        dp = o.get("dp")
        rec["n_node"] = o["n_node"]
        if o.get("nodes"):
            rec["nodes"] = o["nodes"]
        if case.get("centre"):
            rec["centre"] = case["centre"]
        raw["units"] = o["units"]
        raw["centres"] = o.get("centres")
        rows, _, _ = hux.table(g.edge_node_connectivity)
        rec["edges"] = rows
        efrows, _, _ = hux.table(g.edge_face_connectivity)
        rec["edge_faces"] = efrows
        if dp is not None:
            # dual of a partial mesh: not a mesh in the sense of Mesh.tla; judged against the source's own pairs
            rec["kind"] = "dualpartial"
            n_face = case["n_node"]
            rec["n_face"] = n_face
            rec["src_en"] = [[cs[0], cs[1] if len(cs) > 1 else -1] for cs in dp["cells_on_edge"]]
            rec["src_ef"] = [list(e) for e in dp["edges"]]
            rec["mesh"] = []
            xr_, yr_ = case["yrows"], case["xrows"]
        else:
            rec["mesh"] = o["mesh"]
            n_face = len(o["mesh"])
            xr_, yr_ = case["xrows"], case["yrows"]
            if case["via"] == "mpas_dual_truthful":
                xr_, yr_ = yr_, xr_
        n_edge = len(rows)
        if g.n_node != o["n_node"] or g.n_face != n_face:
            raise Machinery("grid sizes differ from the oracle mesh in %s" % case["id"])
        if any(len(r) != o["n_node"] for r in xr_) or any(len(r) != n_face for r in yr_):
            raise Machinery("data rows do not fit the grid in %s" % case["id"])
        rec["xrows"], rec["yrows"] = xr_, yr_
    except Machinery:
        raise
    except Exception as e:  # noqa - building grids is C01/C02's business
        rec["error"] = "%s: %s" % (type(e).__name__, str(e)[:200])
        return {"rec": rec, "raw": raw}
    lead = case["lead"]
    npdt = {"int": np.int64, "float": np.float64}[case["dtype"]]

    if case.get("sexp"):
        rec["sexp"] = case["sexp"]

    def arr(rows_, n):
        a = np.array(rows_, dtype=np.int64)
        if case.get("sexp"):  # v * 2^e / den, exact
            a = a.astype(float) * np.array([2.0**e for e in case["sexp"]])[:, None] / case["den"]
        elif case["den"] != 1:
            a = a / case["den"]
        a = np.ascontiguousarray(np.moveaxis(a.reshape(lead + [n]), -1, pos))  # the grid axis at its position in this layout
        return a.astype(npdt)

    # distances
    dist_dims = []
    for name in ("edge_node_distances", "edge_face_distances"):
        try:
            d = getattr(g, name)
            raw[name] = [float(x) for x in np.asarray(d.values).ravel()]
            dist_dims.append([str(x) for x in d.dims])
        except Exception as e:  # noqa - the property promises a value
            raw[name] = None
            rec.setdefault("dist_err", []).append("%s: %s: %s" % (name, type(e).__name__, str(e)[:120]))
    rec["dist_dims"] = dist_dims

    def call(uxda, fn, with_singles):
        out = fn(uxda)
        vals = np.asarray(out.values, dtype=float)
        meta = {
            "dims": [str(d) for d in out.dims],
            "shape": [int(s) for s in vals.shape],
            "cls": type(out).__name__,
            "same": bool((out.uxgrid is g) or (out.uxgrid == g)),
        }
        # canonical view (one row per index of the other dims) only if the result has the shape this layout demands;
        # whether it does is judged by TLC from dims / shape, here it only gates the per-row numeric tests
        canon = None
        if list(vals.shape) == ins(lead, n_edge):
            canon = np.moveaxis(vals, pos, -1).reshape(-1, n_edge)
        singles = []
        if with_singles:
            src = np.asarray(uxda.values)
            srcflat = np.moveaxis(src, pos, -1).reshape(-1, src.shape[pos])
            for j in range(srcflat.shape[0]):
                one = ux.UxDataArray(srcflat[j], dims=[uxda.dims[pos]], uxgrid=g, name="v")
                singles.append(np.asarray(fn(one).values, dtype=float).ravel())
        return meta, {"vals": vals, "canon": canon, "singles": singles}

    xda = ux.UxDataArray(arr(rec["xrows"], o["n_node"]), dims=ins(rec["lead_dims"], "n_node"), uxgrid=g, name="v")
    yda = ux.UxDataArray(arr(rec["yrows"], n_face), dims=ins(rec["lead_dims"], "n_face"), uxgrid=g, name="v")
    todo = [
        ("ndiff", xda, lambda a: a.difference(destination="edge")),
        ("fdiff", yda, lambda a: a.difference(destination="edge")),
        ("grad", yda, lambda a: a.gradient()),
        ("gradn", yda, lambda a: a.gradient(normalize=True)),
    ]
    if rec.get("kind") == "dualpartial":
        todo = [t for t in todo if t[0] in ("fdiff", "grad")]  # one-ended edges: node differences are not defined
    for key, da, fn in todo:
        try:
            meta, r_ = call(da, fn, key == "gradn")
            rec[key] = meta
            raw[key] = r_
        except Exception as e:  # noqa - recorded and judged (Accepts)
            rec[key] = {"err": "%s: %s" % (type(e).__name__, str(e)[:160])}
    return {"rec": rec, "raw": raw}


# ----------------------------------------------------------------------------- numeric stage B
def close(a, b, tol):
    return bool(math.isfinite(a) and math.isfinite(b) and abs(a - b) <= tol)


def rows_equal(a, b, tol):
    if len(a) != len(b):
        return False
    for x, y in zip(a, b):
        if math.isnan(x) and math.isnan(y):
            continue
        if not close(x, y, tol * max(1.0, abs(y))):
            return False
    return True


def numeric_stage(item, pairs, geos, case):
    """Complete the record with tolerance comparisons against references evaluated here from what TLC emitted."""
    rec, raw = item["rec"], item["raw"]
    E = rec["edges"]
    units = raw["units"]
    mesh = rec["mesh"]
    cent = raw.get("centres") or [centroid_unit([units[n] for n in f]) for f in mesh]
    # reference distances
    dp = rec.get("kind") == "dualpartial"
    if geos is not None and case.get("centre"):
        # fine mesh: closed-form parts emitted by TLC over the base vectors, M substituted here (unbounded integers)
        M = case["M"]
        d_nn = []
        for al, be, cc, ab, w1, w2 in geos:
            w = [(M - 1) * w1[i] + cc * w2[i] for i in range(3)]
            num = cc * cc * (w[0] * w[0] + w[1] * w[1] + w[2] * w[2])
            dot = cc * ((M * M - 1) * al * be + cc * ab)
            d_nn.append(math.atan2(math.sqrt(num), dot))
    elif geos is not None:
        d_nn = [lattice.geodesic(gd) for gd in geos]
    else:
        d_nn = [lattice.ang_between(units[a], units[b]) if (a >= 0 and b >= 0) else float("nan") for a, b in E]
    d_ff = [lattice.ang_between(cent[p[0]], cent[p[1]]) if len(p) == 2 else 0.0 for p in pairs]
    if not raw.get("centres"):
        # centres derived by the library pass through its pole snap (|z| > 1 - 1e-8 -> the pole): C04's tolerance.
        # Faces inside that cap (with a margin for the threshold itself) are marked, TLC leaves their edges out.
        snapz = [abs(c_[2]) > 1.0 - 2e-8 for c_ in cent]
        rec["snap"] = [any(snapz[f] for f in p) for p in pairs]
    nd, fd = raw.get("edge_node_distances"), raw.get("edge_face_distances")
    if nd is not None:
        if rec["via"] == "mpas_primal_sentinel":
            rec["nd"] = [proj(x) for x in nd]
        else:
            rec["nd_ok"] = [close(x, y, TOL_DIST) for x, y in zip(nd, d_nn)] if len(nd) == len(E) else [False] * len(E)
            if len(nd) == len(E):
                errs = [(abs(x - y), abs(x - y) / y, y) for x, y in zip(nd, d_nn) if y == y and y > 0 and x == x]
                if errs:
                    item["stat"] = {"scale": max(e[2] for e in errs), "abs": max(e[0] for e in errs), "rel": max(e[1] for e in errs),
                                    "nan": sum(1 for x in nd if x != x)}
            if not dp and fd is not None and len(nd) == len(E) == len(fd) and all(len(p) == 2 for p in pairs):
                rec["nd_sw"] = [close(x, y, TOL_DIST) for x, y in zip(nd, d_ff)]
                rec["fd_sw"] = [close(x, y, TOL_DIST) for x, y in zip(fd, d_nn)]
    elif not rec.get("skip_nd"):
        rec["nd_ok"] = [False] * len(E)
    if fd is not None:
        if rec["via"] == "mpas_primal_sentinel":
            rec["fd"] = [proj(x) for x in fd]
        else:
            same_len = len(fd) == len(E)
            rec["fd_ok"] = [close(x, y, TOL_DIST) for x, y in zip(fd, d_ff)] if same_len else [False] * len(E)
            rec["fd_zero"] = [x == 0.0 for x in fd] if same_len else [False] * len(E)
            if dp:
                rec.pop("fd_zero")
    else:
        rec["fd_ok"] = [False] * len(E)
        rec["fd_zero"] = [False] * len(E)
    # the distance the gradient must divide by: the centres' distance, or what the source supplied
    d_ref = d_ff
    if rec["via"] == "mpas_primal_sentinel":
        d_ref = [float(2000 + 5 * e) if len(p) == 2 else 0.0 for e, p in enumerate(pairs)]
        rec["supplied_dv"] = [1000 + 3 * e for e in range(len(E))]
        rec["supplied_dc"] = [2000 + 5 * e for e in range(len(E))]
        rec["src_edges"] = case["_src_edges"]
    import numpy as np

    for key in ("ndiff", "fdiff"):
        if key in raw:
            rec[key]["flat"] = [projx(x) for x in raw[key]["vals"].ravel().tolist()]  # the result in its own C order
    if "grad" in raw:
        vals = raw["grad"]["vals"]
        dims = rec["grad"]["dims"]
        # recorded: gradient * reference distance on interior edges (1e-8 relative, widened to what 1e-9 rad on the
        # distance allows), the gradient itself on boundary edges; the edge axis is found by its label
        ax = dims.index("n_edge") if "n_edge" in dims else None
        if ax is not None and vals.shape[ax] == len(E):
            inter = [len(pairs[k]) == 2 and d_ref[k] > 0 for k in range(len(E))]
            mul = np.array([d_ref[k] if inter[k] else 1.0 for k in range(len(E))])
            tol = np.array([max(TOL_REL, 2.0 * TOL_DIST / d_ref[k]) if inter[k] else 0.0 for k in range(len(E))])
            mden = np.array([2 if inter[k] else 4096 for k in range(len(E))])
            shp = [1] * vals.ndim
            shp[ax] = len(E)
            prod = vals * mul.reshape(shp)
            tol_b = np.broadcast_to(tol.reshape(shp), vals.shape).ravel().tolist()
            md_b = np.broadcast_to(mden.reshape(shp), vals.shape).ravel().tolist()
            exps = sorted(set(rec.get("sexp", [0])) | {0})
            rec["grad"]["flat"] = [projs(x, exps, t, int(m)) for x, t, m in zip(prod.ravel().tolist(), tol_b, md_b)]
        else:
            rec["grad"]["flat"] = [projx(x) for x in vals.ravel().tolist()]
    if "gradn" in raw:
        vals = raw["gradn"]["vals"]
        canon = raw["gradn"]["canon"]
        singles = raw["gradn"]["singles"]
        gcanon = raw["grad"]["canon"] if "grad" in raw else None
        nrow = len(rec["yrows"])
        unit, propo, indep = [False] * nrow, [False] * nrow, [False] * nrow
        if canon is not None and canon.shape[0] == nrow:
            for j in range(nrow):
                row = canon[j].tolist()
                s = math.fsum(x * x for x in row)
                unit[j] = close(s, 1.0, 1e-9)
                if gcanon is not None and gcanon.shape == canon.shape:
                    grow = gcanon[j].tolist()
                    nrm = math.sqrt(math.fsum(x * x for x in grow))
                    mx = max([abs(x) for x in grow] + [1e-300])
                    propo[j] = all(close(x * nrm, y, 1e-9 * mx) for x, y in zip(row, grow))
                indep[j] = j < len(singles) and rows_equal(row, singles[j].tolist(), 1e-9)
        tot = math.fsum(x * x for x in vals.ravel().tolist())
        rec["gradn"].update(
            {"flat": 1, "unit": unit, "prop": propo, "indep": indep, "whole": close(tot, 1.0, 1e-9), "zeroflat": [x == 0.0 for x in vals.ravel().tolist()]}
        )
    return rec


# ----------------------------------------------------------------------------- TLC passes
def tlc_pass(ctx, recs, mode):
    path = os.path.join(ctx.work, "edge_%s_%d.ndjson" % (mode, len(ctx.tlc_runs)))
    with open(path, "w") as fh:
        for r in recs:
            fh.write(json.dumps(r) + "\n")
    res = ctx.tlc_ok(
        "JudgeEdge",
        "INIT Init\nNEXT Next\nINVARIANT Judge\nCHECK_DEADLOCK FALSE\n",
        what="%s %d implementation records" % (mode, len(recs)),
        env={"REC_FILE": path, "MODE": mode},
        count=False,
        timeout=3000,
    )
    if res.distinct < len(recs):
        raise Machinery("%s pass visited %d states for %d records" % (mode, res.distinct, len(recs)))
    os.remove(path)
    return res


def process(ctx, cases, items):
    """emit -> numeric -> judge for a slice; returns {id: set(clauses)}, {id: set(signatures)}"""
    by_id = {c["id"]: c for c in cases}
    for it in items:
        if "error" in it["rec"]:
            raise Machinery("could not build the grid of case %s: %s" % (it["rec"]["id"], it["rec"]["error"]))
    slim = []
    for it in items:
        r = it["rec"]
        if r.get("kind") == "dualpartial":
            slim.append({"id": r["id"], "kind": r["kind"], "src_ef": r["src_ef"]})
            continue
        s = {"id": r["id"], "mesh": r["mesh"], "n_node": r["n_node"], "edges": r["edges"]}
        if "nodes" in r:
            s["nodes"] = r["nodes"]
        if "centre" in r:
            s["centre"] = r["centre"]
        slim.append(s)
    res = tlc_pass(ctx, slim, "emit")
    pairs, geos, bad = {}, {}, set()
    for v in res.prints:
        if isinstance(v, tuple) and v and v[0] == "P":
            pairs[v[1]] = [list(p) for p in v[2]]
        elif isinstance(v, tuple) and v and v[0] == "G":
            geos[v[1]] = [list(p) for p in v[2]]
        elif isinstance(v, tuple) and v and v[0] == "H":
            geos[v[1]] = [[p[0], p[1], p[2], p[3], list(p[4]), list(p[5])] for p in v[2]]
        elif isinstance(v, tuple) and v and v[0] == "X":
            bad.add(v[1])
    full = []
    for n, it in enumerate(items, start=1):
        r = it["rec"]
        if n in bad:
            full.append({k: r[k] for k in ("id", "mesh", "n_node", "edges")})
            continue
        if n not in pairs or ("nodes" in r and n not in geos):
            raise Machinery("emit pass printed nothing for record %d (%s)" % (n, r["id"]))
        full.append(numeric_stage(it, pairs[n], geos.get(n), by_id[r["id"]]))
    res = tlc_pass(ctx, full, "judge")
    ctx.traces += len(full)
    failed, sigs = {}, {}
    nv = 0
    for v in res.prints:
        if isinstance(v, tuple) and len(v) == 3 and v[0] == "V":
            failed.setdefault(full[v[1] - 1]["id"], set()).add(v[2])
            nv += 1
        elif isinstance(v, tuple) and len(v) == 3 and v[0] == "S":
            sigs.setdefault(full[v[1] - 1]["id"], set()).add(v[2])
        elif isinstance(v, tuple) and len(v) == 3 and v[0] == "C":
            COVER[v[2]] = COVER.get(v[2], 0) + 1
    if res.out.count('<<"V"') + res.out.count('<< "V"') != nv:
        raise Machinery("judge output not fully parsed")
    for rid, cl in failed.items():
        c = {k: v for k, v in by_id[rid].items() if not k.startswith("_")}
        for clause in sorted(cl):
            sig = {"scope": rid.split(":")[0], "rank": len(c["lead"]) + 1, "pos": c["pos"], "via": c["via"]}
            if "hist" in c:
                sig["handle"] = c["handle_kind"]
            if clause.startswith("Norm") and "WholeArrayNorm" in sigs.get(rid, ()):
                sig["shape"] = "WholeArrayNorm"
            layout_clause = clause in ("Accepts", "GradZeroOnBoundary") or clause.endswith("Value") or clause.startswith(("Shape_", "Norm", "DualPartialFaceDiff", "DualPartialGrad"))
            if layout_clause and "GridAxisNotLast" in sigs.get(rid, ()):
                sig["shape"] = "GridAxisNotLast"  # decided by TLC: every operator raised or ran along the last axis
            if clause in ("NodeDistances", "FaceDistances", "GradValue") and "DistancesSwapped" in sigs.get(rid, ()):
                sig["shape"] = "DistancesSwapped"
            ctx.violation(rid, clause, detail={"failed": sorted(cl), "dist_err": next((f.get("dist_err") for f in full if f["id"] == rid), None)}, replay=c, sig=sig)
    return failed, full


# ----------------------------------------------------------------------------- histories (EdgeHist.tla)
COVER = {}
HIST_TABLES = {"edge_face_distances": "efd", "edge_node_distances": "end", "edge_face_connectivity": "efc", "edge_node_connectivity": "enc"}
HIST_CFG = (
    "SPECIFICATION Spec\nCONSTANTS\n OpWritesTable = %s\n SliceKeepsTable = %s\n CopyAliases = FALSE\n MaxLen = %d\n MaxHandles = 2\n"
    "INVARIANT TypeOK\nINVARIANT ReadsFresh\nPROPERTY OpsReadOnly\nCHECK_DEADLOCK FALSE\n"
)


def gen_histories(ctx, maxlen):
    """Model-check the intended machine (reads fresh, operators read-only), dump = all histories of <= maxlen steps;
    refute each mechanism knob and return the counterexample histories as directed ones."""
    dump = os.path.join(ctx.work, "edge_hist")
    r = ctx.tlc_ok(
        "EdgeHist",
        HIST_CFG % ("FALSE", "FALSE", maxlen),
        what="history machine around the edge operators, intended mechanisms: every read fresh, operators read-only; all histories of <= %d steps" % maxlen,
        dump=dump,
        timeout=1200,
    )
    with open(dump + ".dump") as fh:
        states = tlaval.parse_dump(fh.read())
    os.remove(dump + ".dump")
    hists = sorted({tuple(tuple(st) for st in s["hist"]) for s in states if len(s["hist"]) > 0})
    if len(hists) != r.distinct - 1:
        raise Machinery("history dump: %d histories for %d states" % (len(hists), r.distinct))
    directed = []
    import re

    for knob, cfg in (("opWritesTable", HIST_CFG % ("TRUE", "FALSE", maxlen)), ("sliceKeepsTable", HIST_CFG % ("FALSE", "TRUE", maxlen))):
        rr = ctx.tlc("EdgeHist", cfg, what="mechanism %s = TRUE must be refuted (ReadsFresh)" % knob, workers=1, timeout=600)
        if rr.violated != "ReadsFresh":
            raise Machinery("TLC did not refute mechanism %s: violated=%s" % (knob, rr.violated))
        m = re.findall(r"/\\ hist = (<<.*>>)", rr.trace_text or rr.out)
        if not m:
            raise Machinery("no counterexample history for %s" % knob)
        h = tlaval.parse(m[-1])
        directed.append((knob, tuple(tuple(st) for st in h)))
    ctx.note("mechanisms_refuted_by_tlc", {k: [list(st) for st in h] for k, h in directed})
    return hists, directed


def sel_indices(sel, nf):
    k = max(1, nf // 2)
    if sel == "low":
        return list(range(0, k))
    if sel == "high":
        return list(range(nf - k, nf))  # leaves out lower-indexed neighbours
    a = max(1, nf // 4)
    return list(range(a, min(nf, a + k)))


def _play(root, steps, structural_only):
    """Replay the steps on a freshly built root grid; returns (handles, meta per handle, op results)."""
    import numpy as np

    ux = hux.import_ux()
    g0, _ = build(root)
    handles = [g0]
    meta = [{"kind": "root"}]
    ops = []
    for st in steps:
        kind, h = st[0], handles[st[1] - 1]
        if kind == "slice":
            idx = sel_indices(st[2], h.n_face)
            handles.append(h.isel(n_face=idx))
            meta.append({"kind": "slice", "sel": st[2], "sel_faces": idx, "parent": st[1] - 1})
        elif kind == "copy":
            handles.append(h.copy())
            meta.append({"kind": "copy", "parent": st[1] - 1})
        elif structural_only:
            continue
        elif kind == "read":
            np.asarray(getattr(h, st[2]).values)
        elif kind == "op":
            ops.append((st[1] - 1, st[2], _apply_op(ux, h, st[2])))
    return handles, meta, ops


def _apply_op(ux, g, name):
    import numpy as np

    try:
        if name == "diff_node":
            d = ((np.arange(g.n_node) * 7) % 5 - 2).astype(float)
            return np.asarray(ux.UxDataArray(d, dims=["n_node"], uxgrid=g).difference(destination="edge").values, dtype=float)
        d = ((np.arange(g.n_face) * 5) % 7 - 3).astype(float)
        a = ux.UxDataArray(d, dims=["n_face"], uxgrid=g)
        if name == "diff_face":
            return np.asarray(a.difference(destination="edge").values, dtype=float)
        return np.asarray(a.gradient(normalize=(name == "gradient_norm")).values, dtype=float)
    except Exception as e:  # noqa - recorded: compared with the fresh outcome
        return "%s" % type(e).__name__


def record_hist(case):
    """Replay one history; after it read every table of every handle and compare with what freshly built grids
    (same source, same selections, nothing read or computed before) report; returns one pipeline item per handle."""
    import numpy as np

    ux = hux.import_ux()
    steps = case["hist"]
    items = []
    try:
        handles, meta, ops = _play(case["root"], steps, False)
        obs = [{t: np.array(getattr(g, t).values) for t in HIST_TABLES} for g in handles]
        fh, _, _ = _play(case["root"], steps, True)
        fobs = [{t: np.array(getattr(g, t).values) for t in HIST_TABLES} for g in fh]  # fresh tables first ...
        fops = [_apply_op(ux, fh[h], name) for h, name, _ in ops]  # ... then fresh operators
    except Machinery:
        raise
    except Exception as e:  # noqa
        return [{"rec": {"id": case["id"] + "#0", "error": "%s: %s" % (type(e).__name__, str(e)[:200])}, "raw": {}}]

    def same(a, b, floats):
        if isinstance(a, str) or isinstance(b, str):
            return isinstance(a, str) and isinstance(b, str) and a == b
        if a.shape != b.shape:
            return False
        return bool(np.allclose(a, b, rtol=0.0, atol=1e-12, equal_nan=True)) if floats else bool(np.array_equal(a, b))

    radius_root = case["root"].get("via") == "mpas_radius"
    for hi, g in enumerate(handles):
        if radius_root and meta[hi]["kind"] != "slice":
            continue  # the root (and its copy) report the source's own tables in the source's length unit: passthrough
        mesh_rows, _, _ = hux.table(g.face_node_connectivity)
        mesh = [[n for n in row if n >= 0] for row in mesh_rows]
        lon = [float(x) for x in g.node_lon.values]
        lat = [float(x) for x in g.node_lat.values]
        rec = {"id": "%s#%d" % (case["id"], hi), "den": 1, "dtype": "float", "lead": [], "pos": 0, "lead_dims": [], "via": "topology",
               "mesh": mesh, "n_node": len(lon), "xrows": [], "yrows": [], "handle": meta[hi]["kind"], "hist": [list(st) for st in steps]}  # fmt: skip
        rec["edges"] = hux.table(obs[hi]["edge_node_connectivity"])[0]
        rec["edge_faces"] = hux.table(obs[hi]["edge_face_connectivity"])[0]
        rec["dist_dims"] = [[str(x) for x in g.edge_node_distances.dims], [str(x) for x in g.edge_face_distances.dims]]
        rec["fresh"] = {
            short: same(obs[hi][t], fobs[hi][t], t.endswith("distances")) for t, short in HIST_TABLES.items()
        }
        rec["ops"] = [{"op": name, "same": same(val, fops[j], True)} for j, (h, name, val) in enumerate(ops) if h == hi]
        if meta[hi]["kind"] == "slice":
            pm, _, _ = hux.table(handles[meta[hi]["parent"]].face_node_connectivity)
            rec["parent_mesh"] = [[n for n in row if n >= 0] for row in pm]
            rec["sel_faces"] = meta[hi]["sel_faces"]
        if radius_root:
            rec["skip_nd"] = True  # a subset keeps the source's edge_node_distances (supplied, in its unit); the centre table is recomputed
        raw = {
            "units": [unit_of_lonlat(lo, la) for lo, la in zip(lon, lat)],
            "centres": None,
            "edge_node_distances": None if radius_root else [float(x) for x in obs[hi]["edge_node_distances"].ravel()],
            "edge_face_distances": [float(x) for x in obs[hi]["edge_face_distances"].ravel()],
        }
        items.append({"rec": rec, "raw": raw})
    return items


def hist_roots(rng):
    """Partial meshes with boundary and interior edges (catalogue cuts, face order as defined so that 'high' drops
    lower-indexed neighbours), one of them read through the MPAS dialect with supplied dvEdge / dcEdge."""
    out = []
    for name, cut, via in (("cuboctahedron", 3, "topology"), ("truncated_octahedron_split", 2, "topology"), ("cube", 5, "topology"), ("cuboctahedron", 5, "mpas_primal_truthful")):
        e = catalog.entries(name=name, rot=0, cut=cut)[0]
        c = cat_case(e, "root:%s/c%d:%s" % (name, cut, via), 0, rng, via=via, shuffle=False, layout={"pos": 0, "lead": []})
        out.append(c)
    return out


def hist_cases(rng, hists, directed, roots, n_len3):
    short = [h for h in hists if len(h) <= 2]
    long_ = [h for h in hists if len(h) > 2]
    pick = long_ if n_len3 is None or n_len3 >= len(long_) else [long_[i] for i in sorted(rng.sample(range(len(long_)), n_len3))]
    chosen = list(dict.fromkeys([h for _, h in directed] + short + pick))
    cases = []
    for k, h in enumerate(chosen):
        root = roots[k % len(roots)]
        cases.append({"id": "hist:%d:%s" % (k, root["id"].split(":", 1)[1]), "root": root, "hist": [list(st) for st in h], "prop": PROP})
    # the directed counterexamples of the refuted mechanisms on every root
    for knob, h in directed:
        for j, root in enumerate(roots):
            cases.append({"id": "hist:%s:%d:%s" % (knob, j, root["id"].split(":", 1)[1]), "root": root, "hist": [list(st) for st in h] , "prop": PROP})
    return cases


def process_hist(ctx, hcases, nested):
    """Flatten the per-handle items of the histories and send them through the emit / numeric / judge pipeline."""
    items, pseudo = [], []
    for c, its in zip(hcases, nested):
        for it in its:
            items.append(it)
            pseudo.append({"id": it["rec"]["id"], "lead": [], "pos": 0, "via": "topology", "hist": c["hist"], "root": {k: v for k, v in c["root"].items() if not k.startswith("_")},
                           "handle_kind": it["rec"].get("handle", "?"), "hist_id": c["id"]})  # fmt: skip
    failed, full = {}, []
    step = 3000
    for a in range(0, len(items), step):
        f, fl = process(ctx, pseudo[a : a + step], items[a : a + step])
        failed.update(f)
        full += fl
    return failed, full


# ----------------------------------------------------------------------------- inputs
NAMES = [
    "cube",
    "octahedron",
    "tetrahedron",
    "cuboctahedron",
    "rhombic_dodecahedron",
    "tetrakis_cube",
    "truncated_octahedron_split",
    "truncated_cube_split",
    "rhombicuboctahedron",
]


def cat_case(e, cid, k, rng, via="topology", shuffle=True, layout=None):
    faces = [list(f) for f in e["faces"]]
    if shuffle:
        faces = [f[j:] + f[:j] for f in faces for j in [rng.randrange(len(f))]]
        rng.shuffle(faces)
    n = len(e["nodes"])
    lonlat = [lattice.lonlat_deg(v) for v in e["nodes"]]
    nf = len(faces)
    xrows4 = [list(range(n))] + [[rng.randint(-4, 4) for _ in range(n)] for _ in range(3)]
    yrows4 = [list(range(nf))] + [[rng.randint(-4, 4) for _ in range(nf)] for _ in range(3)]
    if k % 5 == 4:
        yrows4[1] = [2] * nf  # a constant field among the rows: zero gradient, normalisation undefined there
    return shape_case(
        cid, k, faces, n, xrows4, yrows4, layout=layout, lon=[p[0] for p in lonlat], lat=[p[1] for p in lonlat], nodes=[list(v) for v in e["nodes"]], via=via
    )


def catalogue_cases(rng, thorough):
    rots = [0] + (sorted(rng.sample(range(1, 25), 3)) if thorough else [rng.randrange(1, 25)])
    cuts = [0, 2, 3, 5] if thorough else [0, 2, 5]
    out = []
    k = rng.randrange(12)
    for e in catalog.entries(name=NAMES, rot=rots, cut=cuts):
        out.append(cat_case(e, "cat:%s" % catalog.eid(e), k, rng))
        k += 1
    return out


def mpas_cases(rng, thorough):
    out = []
    k = rng.randrange(12)
    names = ["cube", "cuboctahedron", "truncated_octahedron_split", "octahedron"] + (["rhombicuboctahedron", "tetrakis_cube"] if thorough else [])
    rots = [0, rng.randrange(1, 25)] if thorough else [rng.randrange(0, 25)]
    for e in catalog.entries(name=names, rot=rots, cut=[0, 3]):
        for via in ("mpas_primal_sentinel", "mpas_primal_truthful", "mpas_dual_truthful", "mpas_dual_partial"):
            if via == "mpas_dual_truthful" and not e["closed"]:
                continue
            if via == "mpas_dual_partial" and e["closed"]:
                continue
            c = cat_case(e, "%s:%s" % (via, catalog.eid(e)), k, rng, via=via, shuffle=False)
            if via != "mpas_primal_truthful":
                c.pop("nodes", None)  # float references only
            out.append(c)
            k += 1
    return out


def planar_cases(rng, n, size):
    """Random planar mixed patches; the patch is centred on the prime meridian, on the antimeridian (faces and their
    centres on both sides of +-180) or elsewhere, and raised towards a pole for some."""
    out = []
    k = rng.randrange(12)
    for i in range(n):
        nx, ny = rng.randint(3, size), rng.randint(3, size)
        lon, lat, faces = meshgen.planar_mixed(nx, ny, rng, holes=rng.choice([0.0, 0.1, 0.3]))
        lon0 = [0.0, 180.0, 180.0, 95.0][i % 4]
        lat0 = [0.0, 0.0, 55.0, -40.0][i % 4]
        lon = [((x + lon0 + 180.0) % 360.0) - 180.0 for x in lon]
        lat = [y * (0.5 if lat0 else 1.0) + lat0 for y in lat]
        nn, nf = len(lon), len(faces)
        xrows4 = [list(range(nn))] + [[rng.randint(-4, 4) for _ in range(nn)] for _ in range(3)]
        yrows4 = [list(range(nf))] + [[rng.randint(-4, 4) for _ in range(nf)] for _ in range(3)]
        out.append(shape_case("planar:%d:%dx%d:lon%g" % (i, nx, ny, lon0), k, faces, nn, xrows4, yrows4, lon=lon, lat=lat))
        k += 1
    return out


def _dot(a, b):
    return a[0] * b[0] + a[1] * b[1] + a[2] * b[2]


def fine_cases(rng, n, Ms):
    """Fine meshes: the faces of a closed catalogue mesh inside a 60-degree cap about an integer direction, shrunk
    about it by 1/M with the exact map v -> (M-1)(v.c) c + (c.c) v (EdgeOps.ShrinkPt; edges of ~1/M rad).  The record
    carries the BASE vectors; the reference node distance is the closed form model-checked in EdgeShrink.tla."""
    pool = catalog.entries(name=["cube", "octahedron", "cuboctahedron", "tetrakis_cube", "rhombic_dodecahedron", "truncated_octahedron_split"], cut=0)
    out, tries = [], 0
    k = rng.randrange(12)
    while len(out) < n and tries < 50 * n:
        tries += 1
        e = rng.choice(pool)
        nodes = e["nodes"]
        kind = ("node", "near", "face")[tries % 3]
        if kind == "face":
            f = rng.choice(e["faces"])
            centre = [sum(nodes[j][i] for j in f) for i in range(3)]
        else:
            v = rng.choice(nodes)
            w = rng.choice([(1, 2, 3), (0, 1, 0), (-2, 1, 1), (3, -1, 2)]) if kind == "near" else (0, 0, 0)
            centre = [(7 if kind == "near" else 1) * v[i] + w[i] for i in range(3)]
        cc = _dot(centre, centre)
        inside = lambda v: _dot(v, centre) > 0 and 4 * _dot(v, centre) ** 2 > cc * _dot(v, v)
        faces = [list(f) for f in e["faces"] if all(inside(nodes[j]) for j in f)]
        if len(faces) < 2:
            continue
        used = sorted({j for f in faces for j in f})
        new = {old: i for i, old in enumerate(used)}
        faces = [[new[j] for j in f] for f in faces]
        base = [list(nodes[j]) for j in used]
        M = Ms[len(out) % len(Ms)]
        pts = [[(M - 1) * _dot(v, centre) * centre[i] + cc * v[i] for i in range(3)] for v in base]
        lonlat = [lattice.lonlat_deg(p_) for p_ in pts]
        nn, nf = len(base), len(faces)
        xrows4 = [list(range(nn))] + [[rng.randint(-4, 4) for _ in range(nn)] for _ in range(3)]
        yrows4 = [list(range(nf))] + [[rng.randint(-4, 4) for _ in range(nf)] for _ in range(3)]
        cid = "fine:%s:%s%s:M=%d" % (catalog.eid(e), kind, "".join("%+d" % x for x in centre), M)
        if cid in {c["id"] for c in out}:
            continue
        out.append(
            shape_case(cid, k, faces, nn, xrows4, yrows4, lon=[q[0] for q in lonlat], lat=[q[1] for q in lonlat], nodes=base, centre=centre, M=M)
        )
        k += 1
    return out


RADII = [1.0, 2.0, 6371229.0, 0.5]


def prov_cases(rng, thorough):
    """Coordinate provenance x scale for computed tables: centres not supplied / lon-lat / Cartesian of length R / both,
    nodes optionally also Cartesian of length R; the distances are angles whatever the stored length."""
    out = []
    k = rng.randrange(12)
    ents = catalog.entries(name=["cuboctahedron", "truncated_octahedron_split"] + (["cube", "rhombicuboctahedron"] if thorough else []), rot=0, cut=[0, 3])
    for e in ents:
        for ci, centres in enumerate(("none", "lonlat", "xyz", "both")):
            for ri, R in enumerate(RADII):
                if centres in ("none", "lonlat") and ri > 1 and not thorough:
                    continue  # the radius only enters through Cartesian coordinates; keep two node_xyz variants
                c = cat_case(e, "prov:%s:%s:R%g" % (catalog.eid(e), centres, R), k, rng, via="prov")
                c["prov"] = {"centres": centres, "R": R, "node_xyz": (ci + ri) % 2 == 1}
                out.append(c)
                k += 1
    return out


def radius_hist_cases(rng):
    """An MPAS-dialect source on a sphere of radius R (Cartesian coordinates and supplied distances in its length unit,
    with or without lon/lat): its subsets recompute the centre table - in radians on the unit sphere."""
    out = []
    hists = [[["slice", 1, "high"]], [["read", 1, "edge_face_distances"], ["slice", 1, "high"]], [["op", 1, "gradient"], ["slice", 1, "mid"]], [["slice", 1, "low"], ["op", 2, "gradient"]]]
    n = 0
    for name, cut in (("cuboctahedron", 3), ("truncated_octahedron_split", 0)):
        e = catalog.entries(name=name, rot=0, cut=cut)[0]
        for R in RADII:
            for coords in ("both", "xyz"):
                root = cat_case(e, "root:%s/c%d:mpas_radius:R%g:%s" % (name, cut, R, coords), 0, rng, via="mpas_radius", shuffle=False, layout={"pos": 0, "lead": []})
                root.pop("nodes", None)
                root.update({"R": R, "mpas_coords": coords})
                h = hists[n % len(hists)]
                out.append({"id": "hist:radius:%d:%s/c%d:R%g:%s" % (n, name, cut, R, coords), "root": root, "hist": h, "prop": PROP})
                n += 1
    return out


def attach_source_tables(cases):
    """The source's own edge numbering for sentinel MPAS cases (input materialisation, same code as mpas_dataset)."""
    for c in cases:
        if c["via"] == "mpas_primal_sentinel":
            edges, seen = [], set()
            for f in c["mesh"]:
                for j in range(len(f)):
                    s = frozenset((f[j], f[(j + 1) % len(f)]))
                    if s not in seen:
                        seen.add(s)
                        edges.append([f[j], f[(j + 1) % len(f)]])
            c["_src_edges"] = edges


# ----------------------------------------------------------------------------- the check
def run(ctx):
    rng = random.Random(ctx.seed)
    thorough = ctx.tier == "thorough"
    cases = []
    # the closed form used as reference for fine meshes is the geodesic descriptor of the shrunk pair
    ctx.tlc_ok(
        "EdgeShrink",
        "INIT Init\nNEXT Next\nCONSTANTS\n KA = %d\n KC = %d\nINVARIANT Geo\nINVARIANT Keeps\nCHECK_DEADLOCK FALSE\n" % ((2, 1) if thorough else (1, 2)),
        what="closed form of GeoDescr under the exact shrink map, M = 1..3, all lattice a, b, c",
    )

    # the position of the grid dimension: layouts enumerated (and their laws proved) by TLC, shared with C17
    from checks.c17 import gen_layouts

    LAYOUTS[:] = gen_layouts(ctx)

    def add(tag, states, n_node, pick=None):
        idx = range(len(states)) if pick is None or pick >= len(states) else sorted(rng.sample(range(len(states)), pick))
        for k in idx:
            mesh, xr_, yr_ = states[k]
            cases.append(shape_case("%s:%d" % (tag, k), k, mesh, n_node, xr_, yr_, lon=SMALL_LON[:n_node], lat=SMALL_LAT[:n_node]))

    add("s4f2", gen_scope(ctx, "s4f2", 4, 2, [3, 4], npat=2 if thorough else 1), 4, pick=None if thorough else 1000)
    if thorough:
        add("s5f2", gen_scope(ctx, "s5f2", 5, 2, [3, 4]), 5, pick=6000)
        add("s5f2p", gen_scope(ctx, "s5f2p", 5, 2, [5], invs=["TypeOK", "EdgeTables", "L2_FaceDiff", "TracerReadable"]), 5, pick=2500)
        add("s4f3", gen_scope(ctx, "s4f3", 4, 3, [3, 4], invs=["TypeOK", "EdgeTables", "L2_FaceDiff"]), 4, pick=4000)
    else:
        add("s5f2", gen_scope(ctx, "s5f2", 5, 2, [3]), 5, pick=500)
        add("s4f3", gen_scope(ctx, "s4f3", 4, 3, [3], invs=["TypeOK", "EdgeTables", "L2_FaceDiff", "TracerReadable"]), 4, pick=500)
    # every layout on one fixed partial mixed mesh (boundary and interior edges), all six quantities
    e0 = catalog.entries(name="cuboctahedron", rot=0, cut=3)[0]
    for i, lay in enumerate(LAYOUTS):
        cases.append(cat_case(e0, "lay:%d" % i, i, rng, layout=lay))
    ctx.exhaustive = True
    n_small = len(cases)
    cases += catalogue_cases(rng, thorough)
    cases += planar_cases(rng, 30 if thorough else 8, 12 if thorough else 7)
    cases += mpas_cases(rng, thorough)
    cases += fine_cases(rng, 48 if thorough else 16, [10**3, 10**4, 10**5, 10**6])
    cases += prov_cases(rng, thorough)
    attach_source_tables(cases)

    items = pmap(record_case, cases)
    failed = {}
    fulls = []
    step = 3000
    for a in range(0, n_small, step):
        f, full = process(ctx, cases[a : min(a + step, n_small)], items[a : min(a + step, n_small)])
        failed.update(f)
        fulls += full
    f, full = process(ctx, cases[n_small:], items[n_small:])
    failed.update(f)
    fulls += full

    # histories around the edge operators (EdgeHist.tla): tables read after any history are the grid's own fresh
    # tables, on the grid itself, on subsets (incl. those leaving out lower-indexed neighbours) and on copies
    COVER.clear()
    hists, directed = gen_histories(ctx, 3)
    roots = hist_roots(rng)
    hcases = hist_cases(rng, hists, directed, roots, None if thorough else 450) + radius_hist_cases(rng)
    nested = pmap(record_hist, hcases)
    hfailed, hfull = process_hist(ctx, hcases, nested)
    failed.update(hfailed)
    for need in ("DropsLowerNeighbour", "HasBoundary"):
        if not COVER.get(need):
            raise Machinery("history replay is vacuous: no handle with %s" % need)
    ctx.note("histories_generated_by_tlc", len(hists))
    ctx.note("histories_replayed", len(hcases))
    ctx.note("history_handles_judged", len(hfull))
    ctx.note("history_coverage", dict(COVER))
    ctx.count(len(hfull), None)
    for hc in hcases:
        ctx.nontrivial.add(("hist", tuple(map(tuple, hc["hist"])), hc["root"]["id"]))
    # accuracy of tiny node distances against the exact closed form (reported, judged at 1e-9 rad absolute)
    acc = {}
    for c, it in zip(cases, items):
        st = it.get("stat")
        if st and c.get("M"):
            a = acc.setdefault("1e-%d rad" % round(math.log10(c["M"])), {"grids": 0, "max_abs_err": 0.0, "max_rel_err": 0.0, "nan": 0})
            a["grids"] += 1
            a["max_abs_err"] = max(a["max_abs_err"], st["abs"])
            a["max_rel_err"] = max(a["max_rel_err"], st["rel"])
            a["nan"] += st["nan"]
    ctx.note("edge_node_distance_accuracy_by_edge_length", {k: {kk: (float("%.3g" % vv) if isinstance(vv, float) else vv) for kk, vv in v.items()} for k, v in acc.items()})
    anti = prime = 0
    for c, r in zip(cases, fulls):
        if r.get("kind") == "dualpartial" or "lon" not in c or c["via"] != "topology":
            continue
        units = [unit_of_lonlat(lo, la) for lo, la in zip(c["lon"], c["lat"])]
        cen = [centroid_unit([units[n] for n in f]) for f in r["mesh"]]
        for row in r.get("edge_faces", []):
            if -1 not in row and len(row) == 2:
                a, b = cen[row[0]], cen[row[1]]
                if a[1] * b[1] < 0:
                    anti += a[0] < 0 and b[0] < 0
                    prime += a[0] > 0 and b[0] > 0
    ctx.note("interior_edges_with_centres_across_antimeridian", anti)
    ctx.note("interior_edges_with_centres_across_prime_meridian", prime)
    boundary = interior = more_faces = more_nodes = 0
    for c, r in zip(cases, fulls):
        nf, nn = (r["n_face"] if r.get("kind") == "dualpartial" else len(r["mesh"])), r["n_node"]
        more_faces += nf > nn
        more_nodes += nf < nn
        pads = sum(1 for row in r.get("edge_faces", []) if -1 in row)
        boundary += pads > 0
        interior += pads < len(r.get("edge_faces", []))
        ctx.count(6, (tuple(map(tuple, r["mesh"])), tuple(map(tuple, c["yrows"])), c["dtype"], c["den"], c["via"], c.get("M"), c["id"] if r.get("kind") else None) if nf >= 2 else None)
    ctx.note("grids_with_boundary_edges", boundary)
    ctx.note("grids_with_interior_edges", interior)
    ctx.note("grids_n_face_gt_n_node", more_faces)
    ctx.note("grids_n_face_lt_n_node", more_nodes)
    ctx.note("routes", sorted({c["via"] for c in cases}))
    ctx.note("layouts_enumerated_by_tlc", len(LAYOUTS))
    ctx.note("layouts_replayed", len({(c["pos"], tuple(c["lead"])) for c in cases}))
    ctx.note("cases_grid_axis_two_or_more_from_last", sum(1 for c in cases if len(c["lead"]) - c["pos"] >= 2))
    ctx.rule = (
        "TLC enumerates every manifold face-node table of the scope with node and face data rows (EdgeScope.tla), proves the "
        "transcribed difference kernels on the transcribed edge / edge_face tables equal to the declarative pairings and the "
        "laws of the difference, dumps the states; each state (and catalogue polyhedra closed/cut, random planar meshes, "
        "synthetic MPAS sources) is replayed: edge_node_distances, edge_face_distances, difference of node and face data, "
        "gradient, normalised gradient, with the grid dimension at every position of rank 1..4 data (layouts enumerated by TLC, AggLayout.tla; other dims of pairwise different sizes; every layout also on one fixed partial mixed mesh) and int/float data. JudgeEdge.tla emits the face pair of each edge and the "
        "exact geodesic descriptor of each lattice edge, the harness compares distances to 1e-9, then JudgeEdge.tla decides "
        "pairings, exact differences, zero patterns, normalisable rows, shapes. An evaluation = one (case, quantity) of the six "
        "quantities. Non-trivial = distinct (table, face data, dtype, route) with >= 2 faces."
    )
    for r in fulls[:1] + fulls[n_small : n_small + 1] + fulls[-1:]:
        ctx.sample(
            {
                "id": r["id"],
                "mesh": r["mesh"] if len(r["mesh"]) < 6 else "%d faces" % len(r["mesh"]),
                "edges": r["edges"][:6],
                "edge_faces": r.get("edge_faces", [])[:6],
                "yrows": [y[:6] for y in r.get("yrows", [])[:2]],
                "pos": r.get("pos"),
                "lead": r.get("lead"),
                "fdiff dims/shape": [r.get("fdiff", {}).get("dims"), r.get("fdiff", {}).get("shape")],
                "fdiff flat[p,q,flags]": (r.get("fdiff", {}).get("flat") or [None])[:6],
                "grad*dist flat": (r.get("grad", {}).get("flat") or [None])[:6],
                "fd_ok": r.get("fd_ok", [])[:6],
            }
        )
    ctx.assumptions += [
        "TLC's evaluator and the CommunityModules Json reader",
        "float reference for centre-to-centre distances: normalised mean of the corner unit vectors (harness, math only), atan2 form of the angle; node-node distances from SphereZ.GeoDescr on lattice meshes; tolerance 1e-9 rad",
        "gradient judged as gradient * reference distance = exact difference to 1e-8 relative (no tolerance in the property text)",
        "edges whose two faces have identical corner sets (coincident centres) and all-constant rows under normalisation (0/0) are outside the property and not judged",
        "faces whose reference centre lies inside the library's pole-snap cap (|z| > 1 - 1e-8, i.e. within 1.4e-4 rad of a pole; C04's tolerance) have their centre reported AT the pole: their edges are left out of the centre-distance and gradient clauses",
        "fine meshes (edges 1e-3 .. 1e-6 rad): node distances judged at 1e-9 rad absolute against the exact closed form; the relative error of the spherical law of cosines is reported in the evidence, not judged; gradient tolerance widened to what 1e-9 rad on the distance allows",
        "histories: 'equals what a fresh grid reports' compares with grids rebuilt from the same source by the same slice / copy steps with nothing read or computed before (bitwise for index tables, 1e-12 for distances); subset handles are judged on their own face_node table and node coordinates (their faithfulness is C09)",
        "MPAS dual of a partial mesh is not a mesh (open fans, one-ended edges): judged against the source's own cellsOnEdge / verticesOnEdge pairs, node differences not judged",
        "the edge is identified by the grid's own edge_node_connectivity row (that the table is an edge table of the mesh is re-checked here)",
    ]


def replay(path):
    """./check C16 --replay <file>: re-run and re-judge the cases of a replay file."""
    import shutil

    from checks.c17 import gen_layouts
    from harness.core import Ctx

    with open(path) as fh:
        data = json.load(fh)
    cases = [v["replay"] for v in data["cases"] if v.get("replay")]
    ctx = Ctx(PROP, "replay", 0)
    LAYOUTS[:] = gen_layouts(ctx)
    plain = [c for c in cases if "hist" not in c]
    hist = {}
    for c in cases:
        if "hist" in c:
            hist.setdefault(c["hist_id"], {"id": c["hist_id"], "root": c["root"], "hist": c["hist"], "prop": PROP})
    failed = {}
    if plain:
        attach_source_tables(plain)
        failed.update(process(ctx, plain, [record_case(c) for c in plain])[0])
    if hist:
        hc = list(hist.values())
        failed.update(process_hist(ctx, hc, [record_hist(c) for c in hc])[0])
    for rid, cl in failed.items():
        print("REPLAY %s: failed %s" % (rid, sorted(cl)))
    shutil.rmtree(ctx.work, ignore_errors=True)
    return 1 if ctx.violations else 0

"""X03 (extension) - Grid.validate() and the checks of uxarray/grid/validation.py.

Validate.tla states when a mesh is well-formed, clause by clause, as the docstrings promise
(connectivity, duplicate nodes, non-zero face areas, normalised Cartesian coordinates), and
enumerates two base meshes with every named single corruption and pairs of corruptions.  Each
mesh is built as a real Grid (from_topology and an in-memory UGRID dataset), the checks and
validate() are called in several orders, and JudgeValidate.tla decides whether every answer
(value / warning / exception), its repeatability and the grid's immutability match the spec.

Limitations (not judged, see Validate.tla): orientation of faces (areas are unsigned), the area
of a face that names a non-existent node, near-duplicates within a tolerance."""

from __future__ import annotations

import json
import os

from harness import x_x03 as X
from harness.core import Machinery
from harness.pool import pmap

PROP = "X03"

GEN_CFG = "INIT Init\nNEXT Next\nINVARIANT TypeOK\nINVARIANT BasesWellFormed\nINVARIANT SingleBreaks\nINVARIANT NoOtherFaces\nINVARIANT Emit\nCHECK_DEADLOCK FALSE\n"
JUDGE_CFG = "INIT JInit\nNEXT JNext\nINVARIANT Judge\nCHECK_DEADLOCK FALSE\n"


def _plain(v):
    if isinstance(v, dict):
        return {str(k): _plain(x) for k, x in v.items()}
    if isinstance(v, (tuple, list)):
        return [_plain(x) for x in v]
    if isinstance(v, bool) or isinstance(v, int):
        return v
    return str(v)


def run(ctx):
    thorough = ctx.tier == "thorough"
    # 1. TLC: the base meshes are well-formed, each corruption breaks what it names; emits the cases
    r = ctx.tlc_ok("Validate", GEN_CFG, what="base meshes well-formed, corruptions break their clause; emit cases", workers=2)
    cases = []
    for p in r.prints:
        if isinstance(p, tuple) and len(p) == 2 and p[0] == "CASE":
            c = _plain(p[1])
            c["key"] = "%s/%s/%s" % (c["base"], c["first"], c["second"])
            cases.append(c)
    if len(cases) != r.distinct or len(cases) < 100:
        raise Machinery("Validate.tla emitted %d cases for %d states" % (len(cases), r.distinct))
    cases.sort(key=lambda c: c["key"])

    # 2. replay
    hists = list(X.HISTORIES) if thorough else ["checks_then_validate", "validate_first"]
    jobs = []
    for c in cases:
        for route in ("topology", "ugrid"):
            for k, h in enumerate(X.HISTORIES):
                if h in hists or (c["second"] == "none" and not thorough and h == "reads_first" and route == "topology"):
                    jobs.append({"id": "%s|%s|%s" % (c["key"], route, h), "mesh": c["mesh"], "route": route, "history": h, "key": c["key"]})
    X.run_case(jobs[0])  # compile the numba kernels once, before forking
    nproc = int(os.environ.get("VERIF_NPROC", "0")) or min(8, os.cpu_count() or 4)
    recs = pmap(X.run_case, jobs, nproc=nproc)
    refused = [x for x in recs if "build_error" in x]
    if len(refused) > len(recs) // 4:
        raise Machinery("%d of %d meshes could not be constructed, e.g. %s: %s" % (len(refused), len(recs), refused[0]["id"], refused[0]["build_error"]))
    good = [x for x in recs if "build_error" not in x]

    # 3. judge
    path = os.path.join(ctx.work, "validate.ndjson")
    with open(path, "w") as fh:
        for x in good:
            fh.write(json.dumps({"id": x["id"], "mesh": x["mesh"], "route": x["route"], "calls": [{k: c[k] for k in ("op", "out", "warned", "unchanged")} for c in x["calls"]]}) + "\n")
    rj = ctx.tlc_ok("JudgeValidate", JUDGE_CFG, what="judge %d grids" % len(good), env={"REC_FILE": path}, workers=4, count=False, timeout=3000)
    os.remove(path)
    verdicts = {}
    for p in rj.prints:
        if isinstance(p, tuple) and len(p) == 3 and p[0] == "V":
            verdicts[p[1]] = sorted(p[2], key=str)
    if set(verdicts) != {x["id"] for x in good}:
        raise Machinery("the judge returned %d verdicts for %d grids" % (len(verdicts), len(good)))
    ctx.traces += len(good)

    by_id = {j["id"]: j for j in jobs}
    by_key = {c["key"]: c for c in cases}
    ncalls = 0
    for x in good:
        c = by_key[by_id[x["id"]]["key"]]
        ncalls += len(x["calls"])
        ctx.count(len(x["calls"]), (c["key"], x["route"], x["history"]) if c["first"] != "none" else None)
        for clause, k, out, reason in verdicts[x["id"]]:
            call = x["calls"][k - 1]
            sig = {"clause": clause, "reason": reason, "op": call["op"], "out": str(out), "first": c["first"], "second": c["second"]}
            rp = {"mesh": x["mesh"], "route": x["route"], "history": X.HISTORIES[x["history"]][:k], "expected": c["exp"], "error": call.get("err")}
            ctx.violation("%s|%d|%s" % (x["id"], k, clause), clause, detail={"call": k, "op": call["op"], "out": out, "reason": reason}, sig=sig, replay=rp)
    # informative: limitations
    lim = {"reversed_faces_accepted": 0, "undefined_area_answered": 0, "other_error_on_validate": 0}
    for x in good:
        e = by_key[by_id[x["id"]]["key"]]["exp"]
        for call in x["calls"]:
            if call["op"] == "validate" and call["out"] == "true" and not e["positive"] and e["validates"]:
                lim["reversed_faces_accepted"] += 1
            if call["op"] == "area" and not e["area_defined"] and call["out"] in ("true", "false"):
                lim["undefined_area_answered"] += 1
            if call["op"] == "validate" and call["out"] == "other_error":
                lim["other_error_on_validate"] += 1
    ctx.note("limitations_observed", lim)
    ctx.note("cases", {"meshes": len(cases), "grids": len(good), "calls": ncalls, "refused_by_constructor": len(refused)})
    if refused:
        ctx.note("refused_examples", [(x["id"], x["build_error"]) for x in refused[:3]])
    ctx.exhaustive = True
    ctx.rule = (
        "TLC (Validate.tla) proves the two base meshes well-formed and that each of the 22 named corruptions breaks the clause it names, "
        "and emits every base, single corruption and pair (first x second) with the mesh; each is built through from_topology and an in-memory "
        "UGRID dataset, the five checks and validate() are called in two (thorough: three) orders including validate twice and after derived "
        "attributes were read, and JudgeValidate.tla compares every answer, warning, repeated answer and the before/after fingerprint of the "
        "stored variables with the clauses evaluated on the mesh.  Non-trivial = (corrupted mesh, route, history)."
    )
    for x in good[:1] + good[len(good) // 2 : len(good) // 2 + 1]:
        ctx.sample({"id": x["id"], "mesh": x["mesh"], "calls": x["calls"][:4]})
    ctx.assumptions += [
        "lattice meshes: every face is exactly degenerate or larger than 0.1 sr, so the 1e-8 threshold is never in play",
        "a RuntimeWarning counts when it is raised from validation.py",
        "orientation, undefined areas (non-existent corner) and near-duplicates are limitations, reported not judged",
        "TLC's evaluator and the CommunityModules Json reader",
    ]

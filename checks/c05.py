"""C05 - face areas are the spherical-polygon areas, invariantly.

Specification: tla/AreaCases.tla (exact oracle + generator of faces, orbits, subdivisions with a
tiling proof, closed meshes), tla/AreaCache.tla (state machine of the face_areas / face_jacobian
slots; its behaviours are replayed into real Grids and the recorded traces are validated against
it), tla/JudgeArea.tla (all tolerance / clause logic on quantised relative errors).
"""

from __future__ import annotations

import json
import os
import random
import sys
import time
from concurrent.futures import ThreadPoolExecutor

from harness import catalog
from harness import x_c05 as X
from harness.core import Machinery
from harness.pool import pmap

PROP = "C05"

GEN_INVS_FAST = ["GenFaceConvex", "GenCornersPos", "GenEmit"]
GEN_INVS_FULL = ["GenFaceConvex", "GenCornersPos", "GenRotInvariant", "GenShiftLaw", "GenEmit"]


def _cfg(init, nxt, invs, patch="L1", maxn=3, maxd="any", closed=()):
    return (
        "INIT %s\nNEXT %s\nCONSTANTS\n PatchName = \"%s\"\n MaxN = %d\n MaxDiam = \"%s\"\n ClosedPick = {%s}\n"
        % (init, nxt, patch, maxn, maxd, ",".join('"%s"' % c for c in closed))
        + "".join("INVARIANT %s\n" % i for i in invs)
        + "CHECK_DEADLOCK FALSE\n"
    )


def _nproc():
    return int(os.environ.get("VERIF_NPROC", "0")) or min(16, os.cpu_count() or 4)


def _chunks(xs, n):
    return [xs[i : i + n] for i in range(0, len(xs), n)]


# ----------------------------------------------------------------------------- stage 1: the cache machine
CACHE_INVS = ["NeverRaises", "CachedIsDefault", "JacobianIsDefault", "ComputeIsRequested", "SlotsHoldDefault", "HistoryFree"]


def _cache_cfg(rules, maxlen, mech, invs):
    return (
        "SPECIFICATION Spec\nCONSTANTS\n Rules = {%s}\n MaxLen = %d\n MechName = \"%s\"\n" % (",".join('"%s"' % r for r in rules), maxlen, mech)
        + "".join("INVARIANT %s\n" % i for i in invs)
        + "CHECK_DEADLOCK FALSE\n"
    )


def cache_model(ctx, rules, maxlen, sim_len, sim_num, workers):
    """Model-check the intended mechanism (all behaviours up to maxlen, emitted), show that each repaired
    defect violates an invariant of the machine, and draw longer random behaviours."""
    r = ctx.tlc_ok(
        "AreaCache", _cache_cfg(rules, maxlen, "intended", CACHE_INVS + ["EmitFull"]), what="face_areas cache machine, intended mechanism, all histories <= %d" % maxlen, workers=workers, timeout=1200
    )
    hists = [v[1] for v in X.prints(r.out) if v[0] == "H"]
    if not hists:
        raise Machinery("AreaCache emitted no history")
    for mech, inv in (("compute_writes_slots", "JacobianIsDefault"), ("slots_not_initialised", "NeverRaises"), ("chunk_unsafe", "NeverRaises"), ("returns_cached_arrays", "ComputeIsRequested")):
        rr = ctx.tlc("AreaCache", _cache_cfg(rules, 3, mech, [inv]), what="defect mechanism %s must violate %s" % (mech, inv), workers=2, count=False, timeout=600)
        if rr.violated != inv:
            raise Machinery("AreaCache with mechanism %s: expected %s to be violated, got %r\n%s" % (mech, inv, rr.violated, rr.out[-1500:]))
    rs = ctx.tlc_ok(
        "AreaCache",
        _cache_cfg(rules, sim_len, "intended", CACHE_INVS + ["EmitFull"]),
        what="face_areas cache machine, %d random histories of length %d" % (sim_num, sim_len),
        workers=2,
        simulate="num=%d" % sim_num,
        depth=sim_len + 1,
        seed=ctx.seed + 1,
        timeout=1200,
    )
    long_hists = [v[1] for v in X.prints(rs.out) if v[0] == "H"]
    return hists, long_hists


def _act_json(a):
    a = list(a)
    if a[0] == "compute":
        return ["compute", a[1][0], bool(a[1][1])]
    if a[0] == "total":
        return ["total", a[1]]
    if a[0] == "edit":
        return ["edit", a[1]]
    return [a[0]]


# ----------------------------------------------------------------------------- stage 2: generation
def gen_faces(ctx, plans, workers):
    """Run the Gen configurations concurrently; return [(patch, [face dict])], one entry per plan."""

    def one(k_plan):
        k, (patch, maxn, maxd, invs) = k_plan
        time.sleep(0.15 * k)  # tlc.run tags its files with a millisecond stamp
        r = ctx.tlc_ok(
            "AreaCases", _cfg("GenInit", "GenNext", invs, patch, maxn, maxd), what="all convex CCW faces of patch %s, <=%d corners, diameter %s; %s" % (patch, maxn, maxd, "+".join(invs)), workers=workers, timeout=3000
        )
        faces = []
        for v in X.prints(r.out):
            if v[0] == "F":
                faces.append(
                    {"id": "%s:%s" % (patch, "-".join(map(str, v[1]))), "patch": patch, "dirs": [list(d) for d in v[2]], "ex": [list(d) for d in v[3]], "bucket": v[4]}
                )
        if not faces:
            raise Machinery("patch %s produced no face" % patch)
        return patch, faces

    with ThreadPoolExecutor(max_workers=4) as ex:
        return list(ex.map(one, list(enumerate(plans))))


def gen_closed(ctx, names, workers):
    r = ctx.tlc_ok("AreaCases", _cfg("ClInit", "ClNext", ["ClOK", "ClRenumOK", "ClEmit"], closed=names), what="closed meshes %s: closed, manifold, Euler 2, convex CCW; emitted" % ",".join(names), workers=workers, timeout=3000)
    out = []
    for v in X.prints(r.out):
        if v[0] == "C":
            m = v[2]
            out.append(
                {
                    "id": "closed:%s" % v[1],
                    "nodes": [list(n) for n in m["nodes"]],
                    "faces": [list(f) for f in m["faces"]],
                    "ex": [[list(d) for d in e] for e in m["ex"]],
                    "buckets": list(m["buckets"]),
                    "worst": m["worst"],
                    "node_perms": sorted(list(p) for p in m["node_perms"]),
                    "face_perms": sorted(list(p) for p in m["face_perms"]),
                }
            )
    if len(out) != len(names):
        raise Machinery("closed meshes: %d emitted for %d names" % (len(out), len(names)))
    for m in out:
        if not m["node_perms"] or not m["face_perms"]:
            raise Machinery("no renumbering emitted for %s" % m["id"])
    return out


def gen_orbits(ctx, sel, workers, sensitive):
    path = os.path.join(ctx.work, "sel.ndjson")
    with open(path, "w") as fh:
        for f in sel:
            fh.write(json.dumps({"id": f["id"], "dirs": f["dirs"], "full": bool(f.get("full", True))}) + "\n")
    invs = ["OrbPremise", "OrbTiles", "OrbLaws", "OrbEmit"] + (["OrbTilesSensitive"] if sensitive else [])
    r = ctx.tlc_ok(
        "AreaCases", _cfg("OrbInit", "OrbNext", invs), what="orbits of %d faces: shifts, 24 rotations, subdivisions proved to tile the face" % len(sel), workers=workers, env={"SEL_FILE": path}, timeout=3000
    )
    by = {f["id"]: f for f in sel}
    out = []
    for v in X.prints(r.out):
        if v[0] != "O":
            continue
        o = v[2]
        f = by[v[1]]
        if [list(d) for d in o["ex"]] != f["ex"] or o["bucket"] != f["bucket"]:
            raise Machinery("orbit of %s: descriptor differs from the generator's" % v[1])
        subs = []
        for s in o["subs"]:
            s = dict(s)
            subs.append({"kind": s["kind"], "a": s["a"], "b": s["b"], "pieces": [[list(d) for d in p] for p in s["pieces"]], "ex": [[list(d) for d in e] for e in s["ex"]]})
        subs.sort(key=lambda s: (s["kind"], s["a"], s["b"]))
        out.append(
            {
                "id": v[1],
                "dirs": f["dirs"],
                "ex": f["ex"],
                "bucket": f["bucket"],
                "shifts": [[list(d) for d in g] for g in o["shifts"]],
                "rots": [[list(d) for d in g] for g in o["rots"]],
                "subs": subs,
            }
        )
    if len(out) != len(sel):
        raise Machinery("orbits: %d emitted for %d selected faces" % (len(out), len(sel)))
    os.remove(path)
    return out


def gen_tiny(ctx, sel, workers):
    """TLC proves the shrink map's premises on the selected faces and emits the cancellation-free descriptor
    at M = 1, 2, 5 (the harness must reproduce it in integers before it may use larger M)."""
    path = os.path.join(ctx.work, "tiny.ndjson")
    with open(path, "w") as fh:
        for f in sel:
            fh.write(json.dumps({"id": f["id"], "dirs": f["dirs"], "full": False}) + "\n")
    r = ctx.tlc_ok(
        "AreaCases", _cfg("TinyInit", "TinyNext", ["TinyPremise", "TinyEmit"]), what="shrink map v -> (M-1)(v.c)c + (c.c)v on %d faces: convexity kept, fan descriptor emitted at M=1,2,5" % len(sel), workers=workers, env={"SEL_FILE": path}, timeout=3000
    )
    by = {f["id"]: f for f in sel}
    out, rots = [], None
    for v in X.prints(r.out):
        if v[0] != "T":
            continue
        t = v[2]
        f = by[v[1]]
        if [list(d) for d in t["ex"]] != f["ex"]:
            raise Machinery("tiny %s: descriptor differs from the generator's" % v[1])
        rots = [[list(q[0]), list(q[1])] for q in t["rots"]]
        out.append({"id": v[1], "dirs": f["dirs"], "ex": f["ex"], "fan": {int(M): [list(x) for x in d] for M, d in dict(t["fan"]).items()}})
    if len(out) != len(sel) or not rots or len(rots) != 24:
        raise Machinery("tiny: %d emitted for %d selected faces" % (len(out), len(sel)))
    os.remove(path)
    return out, rots


def _dcfg(init_next, maxpre, mid, mech, invs):
    return (
        init_next
        + "CONSTANTS\n PatchName = \"L1\"\n MaxN = 3\n MaxDiam = \"any\"\n ClosedPick = {}\n MaxPre = %d\n MidReads = %s\n DMech = \"%s\"\n" % (maxpre, "TRUE" if mid else "FALSE", mech)
        + "".join("INVARIANT %s\n" % i for i in invs)
        + "CHECK_DEADLOCK FALSE\n"
    )


def derived_model(ctx, maxpre, workers):
    """Model-check the derived-grid machine (intended mechanism; every complete history is emitted) and show
    that the mechanism 'subset sizes recomputed from a table whose padding was renumbered' violates it."""
    r = ctx.tlc_ok("AreaDerived", _dcfg("SPECIFICATION DSpec\n", maxpre, True, "intended", ["DerivedExact", "HistoryFree", "DEmit"]), what="derived-grid machine (isel / dual after source reads), intended mechanism, pre-reads <= %d" % maxpre, workers=workers, timeout=1200)
    hs = [v[1] for v in X.prints(r.out) if v[0] == "H"]
    if not hs:
        raise Machinery("AreaDerived emitted no history")
    rr = ctx.tlc("AreaDerived", _dcfg("SPECIFICATION DSpec\n", 1, False, "slice_sizes_from_corrupt_table", ["DerivedExact"]), what="defect mechanism slice_sizes_from_corrupt_table must violate DerivedExact", workers=2, count=False, timeout=600)
    if rr.violated != "DerivedExact":
        raise Machinery("AreaDerived with the defect mechanism: expected DerivedExact to be violated, got %r" % rr.violated)
    return [[[st["act"], st["arg"]] for st in h] for h in hs]


def derived_info(ctx, meshes, workers):
    """TLC proves the preconditions of the meshes and emits, per selection, the source faces a derived grid
    must consist of, with sizes, exact descriptors and classes."""
    path = os.path.join(ctx.work, "dmeshes.ndjson")
    with open(path, "w") as fh:
        for m in meshes:
            fh.write(json.dumps({"id": m["id"], "nodes": m["nodes"], "faces": m["faces"], "soup": m["soup"]}) + "\n")
    r = ctx.tlc_ok("AreaDerived", _dcfg("INIT SelInit\nNEXT SelNext\n", 0, False, "intended", ["SelOK", "SelEmit"]), what="selections on %d mixed-size meshes: preconditions, partitions, expected faces" % len(meshes), workers=workers, env={"MESH_FILE": path}, timeout=1200)
    info = {}
    for v in X.prints(r.out):
        if v[0] == "D":
            d = v[2]
            info[v[1]] = {
                "ex": [[list(t) for t in e] for e in d["ex"]],
                "buckets": list(d["buckets"]),
                "sizes": list(d["sizes"]),
                "closed": bool(d["closed"]),
                "sides": sorted(list(sd) for sd in d["sides"]),
                "nodesel": [list(x) for x in d["nodesel"]],
                "sels": {n: list(fs) for n, fs in d["sels"]},
            }
    if set(info) != set(m["id"] for m in meshes):
        raise Machinery("derived selections: %d emitted for %d meshes" % (len(info), len(meshes)))
    os.remove(path)
    return info


def _rot_seq(x, k):
    return x[k:] + x[:k]


# ----------------------------------------------------------------------------- stage 4: judging
JUDGED_KEYS = {
    "face": ["kind", "id", "bucket", "neg", "cneg", "czero", "d", "g", "t", "cx"],
    "orbit": ["kind", "id", "bucket", "neg", "shift_d", "shift_hi", "rot", "subs"],
    "f32": ["kind", "id", "raised", "neg", "q", "qd"],
    "derived": ["kind", "id", "raised", "neg", "n_face", "exp", "exp_sizes", "npf", "q_inv", "qe"],
    "dual": ["kind", "id", "raised", "neg", "closed", "q_inv", "tot"],
    "partition": ["kind", "id", "part_q"],
    "mesh": ["kind", "id", "bucket", "neg", "tot_d", "tot_hi", "tot_g", "tot_t", "tot_fn", "renum", "cached"],
}


def judge_records(ctx, recs, workers, batch=60000):
    """TLC judges the records (in batches, so that the Json reader's memory stays bounded)."""
    failed = {}  # (kind, id) -> (clauses, cartesian class); ids are unique per kind only
    for b0 in range(0, len(recs), batch):
        part = recs[b0 : b0 + batch]
        path = os.path.join(ctx.work, "area_%d.ndjson" % len(ctx.tlc_runs))
        with open(path, "w") as fh:
            for r in part:
                fh.write(json.dumps(dict({k: r[k] for k in JUDGED_KEYS[r["kind"]]}, id="%s|%s" % (r["kind"], r["id"]))) + "\n")
        res = ctx.tlc_ok(
            "JudgeArea", "INIT Init\nNEXT Next\nINVARIANT Judge\nCHECK_DEADLOCK FALSE\n", what="judge %d area records" % len(part), env={"REC_FILE": path}, workers=workers, count=False, timeout=3000
        )
        if res.distinct < len(part):
            raise Machinery("area judge visited %d states for %d records" % (res.distinct, len(part)))
        for v in X.prints(res.out):
            if v[0] == "V":
                kind, rid = v[1].split("|", 1)
                failed[(kind, rid)] = (sorted(v[2]), v[3])
        os.remove(path)
        ctx.traces += len(part)
    return failed


def judge_traces(ctx, traces, rules, workers):
    path = os.path.join(ctx.work, "traces_%d.ndjson" % len(ctx.tlc_runs))
    with open(path, "w") as fh:
        for t in traces:
            fh.write(json.dumps({"id": t["id"], "steps": [{k: s[k] for k in ("act", "raised", "kind", "tags", "tags2")} for s in t["steps"]]}) + "\n")
    cfg = "INIT TrInit\nNEXT TrNext\nCONSTANTS\n Rules = {%s}\n MaxLen = 0\n MechName = \"intended\"\nINVARIANT TrJudge\nCHECK_DEADLOCK FALSE\n" % ",".join('"%s"' % r for r in rules)
    res = ctx.tlc_ok("AreaCache", cfg, what="validate %d recorded Grid traces against the cache machine" % len(traces), env={"REC_FILE": path}, workers=workers, count=False, timeout=3000)
    if res.distinct < len(traces):
        raise Machinery("trace judge visited %d states for %d traces" % (res.distinct, len(traces)))
    failed = {}
    for v in X.prints(res.out):
        if v[0] == "V":
            failed[v[1]] = sorted((int(k), c) for k, c in v[2])
    os.remove(path)
    ctx.traces += len(traces)
    return failed


def _flatten(results):
    out = []
    for c in results:
        for x in c if isinstance(c, list) else [c]:
            if "machinery" in x:
                raise Machinery(x["machinery"])
            out.append(x)
    return out


# ----------------------------------------------------------------------------- main
def run(ctx):
    rng = random.Random(ctx.seed)
    thorough = ctx.tier == "thorough"
    nproc = _nproc()
    w_small = 2 if nproc < 8 else 4
    w_big = 4 if nproc < 8 else 8
    ctx.rule = (
        "TLC enumerates every convex CCW face (3..8 corners, sides < 90 deg) on lattice patches (98 directions |c|<=2 over the whole sphere, "
        "patches of 4.8/9.5 deg spacing near an axis, 25-direction clusters within 10 deg), emitting the exact excess descriptor and an exactly decided "
        "diameter bucket per face; for a stratified subset also start-corner shifts, the 24 cube rotations (patches land on poles and the antimeridian) and "
        "subdivisions TLC proves to tile the face; closed cubed-sphere and catalogue meshes proved closed. Every face is evaluated with all 15 "
        "(family, order) rules and both coordinate inputs; quantised relative errors are judged by TLC (JudgeArea). The face_areas/face_jacobian cache "
        "is a TLA+ state machine whose every history up to the bound (plus random longer ones) is replayed into real Grids; recorded traces are validated "
        "by TLC. Non-trivial = distinct (face, position) with >= 3 corners evaluated against its exact area, or distinct history of >= 2 calls."
    )
    # ---- 1. cache machine
    rules = ["t4", "g3", "t8"]
    hists, long_hists = cache_model(ctx, rules, 4 if thorough else 3, 12, 600 if thorough else 150, w_small)
    dhists = derived_model(ctx, 2 if thorough else 1, w_small)
    # ---- 2. generators (concurrently) while the kernels are compiled / loaded
    if thorough:
        plans = [
            ("L1", 8, "any", GEN_INVS_FULL + ["GenComplete"]),
            ("D12", 8, "any", GEN_INVS_FULL),
            ("X6", 8, "le65", GEN_INVS_FAST),
            ("X6o", 8, "le65", GEN_INVS_FAST),
            ("L2", 6, "le65", GEN_INVS_FULL),
            ("X12", 8, "le30", GEN_INVS_FULL + ["GenComplete"]),
            ("D9", 8, "le30", GEN_INVS_FAST),
            ("X3", 8, "any", GEN_INVS_FAST),
            ("L2", 4, "any", GEN_INVS_FAST),
        ]
        closed_names = ["cs2", "cs3", "cs4", "cs9", "cube", "cuboctahedron", "rhombic_dodecahedron", "tetrakis_cube", "truncated_octahedron", "truncated_cube", "rhombicuboctahedron"]
    else:
        plans = [
            ("L1", 8, "any", GEN_INVS_FULL + ["GenComplete"]),
            ("D12", 8, "any", GEN_INVS_FAST),
            ("X6o", 8, "le65", GEN_INVS_FAST),   # offset patch: the axis point is a corner of its octagons
            ("L2", 4, "le65", GEN_INVS_FAST),
        ]
        closed_names = ["cs2", "cs3", "cuboctahedron", "truncated_cube", "truncated_octahedron", "rhombicuboctahedron"]
    with ThreadPoolExecutor(max_workers=2) as tp:
        fut_faces = tp.submit(gen_faces, ctx, plans, w_small)
        fut_closed = tp.submit(lambda: (time.sleep(0.07), gen_closed(ctx, closed_names, w_small))[1])  # offset: file stamps
        X.warm_up()
        by_patch_list = fut_faces.result()
        closed = fut_closed.result()
    # plans may name a patch twice (different bounds): merge by face id
    faces = {}
    for patch, fs in by_patch_list:
        for f in fs:
            faces[f["id"]] = f
    faces = list(faces.values())
    # faces of the closed meshes are faces too
    for m in closed:
        for j, f in enumerate(m["faces"]):
            faces.append({"id": "%s:f%d" % (m["id"], j), "patch": m["id"], "dirs": [m["nodes"][v] for v in f], "ex": m["ex"][j], "bucket": m["buckets"][j]})
    budget = None if thorough else 32000
    if budget and len(faces) > budget:
        # quick tier: a seeded sample, stratified so that rare (patch, size, bucket) classes stay complete
        groups = {}
        for f in faces:
            groups.setdefault((f["patch"], len(f["dirs"]), f["bucket"]), []).append(f)
        per = budget // len(groups)
        keep = []
        rest = []
        for k in sorted(groups):
            g = groups[k]
            rng.shuffle(g)
            keep += g[:per]
            rest += g[per:]
        rng.shuffle(rest)
        faces = keep + rest[: max(0, budget - len(keep))]
    else:
        ctx.exhaustive = True
    faces.sort(key=lambda f: f["id"])
    # ---- 3. orbits for a stratified subset
    groups = {}
    for f in faces:
        if not f["patch"].startswith("closed:"):
            groups.setdefault((f["patch"], len(f["dirs"]), f["bucket"]), []).append(f)
    per = 60 if thorough else 14          # with shifts and subdivisions
    per_rot = 120 if thorough else 60     # rotations only (position coverage: poles, antimeridian)
    sel = []
    for k in sorted(groups):
        g = list(groups[k])
        rng.shuffle(g)
        sel += [dict(f, full=True) for f in g[:per]]
        # rotations only, of a start-corner shift of the face (TLC re-derives the shifted descriptor and it is
        # compared with the shifted generator's): every other record puts the corner nearest to the +x axis
        # (the point the rotations carry onto the poles and the antimeridian) LAST, the rest shift at random
        for q, f in enumerate(g[per : per + per_rot]):
            n = len(f["dirs"])
            if q % 2 == 0:
                near = max(range(n), key=lambda c: f["dirs"][c][0] / (sum(z * z for z in f["dirs"][c]) ** 0.5))
                kk = (near + 1) % n
            else:
                kk = rng.randrange(n)
            sel.append(dict(f, id="%s@%d" % (f["id"], kk), dirs=_rot_seq(f["dirs"], kk), ex=_rot_seq(f["ex"], kk), full=False))
    # ---- 3b. tiny faces (exact shrink map) and coordinate provenance
    tiny_src = [f for f in faces if f["patch"] in ("X6", "X6o", "X12")]
    rng.shuffle(tiny_src)
    tiny_src.sort(key=lambda f: len(f["dirs"]))          # all sizes: take round-robin by size
    by_n = {}
    for f in tiny_src:
        by_n.setdefault(len(f["dirs"]), []).append(f)
    n_tiny = 600 if thorough else 120
    tiny_sel = [f for n in sorted(by_n) for f in by_n[n][: n_tiny // len(by_n)]]
    with ThreadPoolExecutor(max_workers=2) as tp:
        fut_orb = tp.submit(gen_orbits, ctx, sel, w_big, True)
        fut_tiny = tp.submit(lambda: (time.sleep(0.07), gen_tiny(ctx, tiny_sel, w_small))[1])
        orbits = fut_orb.result()
        tiny, rotseq = fut_tiny.result()
    # ---- 3c. derived grids: mixed-size meshes (padded tables)
    dmeshes = []
    for name, rot, cut in [("truncated_octahedron_split", 0, 0), ("cuboctahedron", 7, 3)] + ([("truncated_cube_split", 5, 0), ("truncated_octahedron_split", 11, 3)] if thorough else []):
        es = catalog.entries(name=name, rot=rot, cut=cut)
        if len(es) != 1:
            raise Machinery("catalogue entry %s/r%d/c%d not found" % (name, rot, cut))
        dmeshes.append({"id": catalog.eid(es[0]), "nodes": es[0]["nodes"], "faces": es[0]["faces"], "soup": False})
    for patch in ["X6o"] + (["D12", "L2"] if thorough else []):
        by_size = {}
        for fc in sorted((x for x in faces if x["patch"] == patch), key=lambda x: x["id"]):
            by_size.setdefault(len(fc["dirs"]), []).append(fc)
        pick = [fc for n in sorted(by_size) for fc in by_size[n][:: max(1, len(by_size[n]) // 4)][:4]]
        rng.shuffle(pick)
        ids, nodes, conn = {}, [], []
        for fc in pick:
            row = []
            for v in fc["dirs"]:
                kk = X._key(v)
                if kk not in ids:
                    ids[kk] = len(nodes)
                    nodes.append(list(kk))
                row.append(ids[kk])
            conn.append(row)
        dmeshes.append({"id": "soup:%s" % patch, "nodes": nodes, "faces": conn, "soup": True})
    dinfo = derived_info(ctx, dmeshes, w_small)
    for m in dmeshes:
        m["info"] = dinfo[m["id"]]
    ditems = []
    for m in dmeshes:
        for k, h in enumerate(dhists):
            plan = [a[1] for a in h if a[0] == "derive"]
            if all((p == "dual" and m["info"]["closed"]) or p in m["info"]["sels"] for p in plan):
                ditems.append({"id": "%s|d%d" % (m["id"], k), "mesh": m, "acts": h})
    prov_sel = [f for f in faces if not f["patch"].startswith("closed:")]
    rng.shuffle(prov_sel)
    prov_sel = prov_sel[: 12000 if thorough else 2400]
    # ---- 4. replay
    t0 = time.time()
    face_recs = _flatten(pmap(X.bulk_chunk, [{"faces": c} for c in _chunks(faces, 400)]))
    orbit_recs = _flatten(pmap(X.orbit_chunk, [{"orbits": c} for c in _chunks(orbits, 8)]))
    mesh_recs = _flatten(pmap(X.mesh_case, closed, chunk=1))
    Ms = [100, 1000, 10000, 100000]      # 6M / 12M lattice units to the axis: faces from ~1e-2 down to ~1e-6 rad across
    targets = [[1, 0, 0], [0, 0, 1], [-1, 0, 0], [0, 0, -1]]
    tiny_recs = _flatten(pmap(X.tiny_chunk, [{"faces": c, "rots": rotseq, "Ms": Ms, "targets": targets} for c in _chunks(tiny, 10)]))
    prov_recs = _flatten(pmap(X.prov_chunk, [{"faces": c} for c in _chunks(prov_sel, 300)]))
    face_recs = face_recs + tiny_recs + prov_recs
    f32_sel = list(prov_sel[: 3000 if thorough else 600])
    f32_recs = _flatten(pmap(X.f32_chunk, [{"faces": c} for c in _chunks(f32_sel, 150)]))
    derived_recs = _flatten(pmap(X.derived_case, ditems))
    cache_meshes = [
        {"id": catalog.eid(e), "nodes": e["nodes"], "faces": e["faces"]}
        for e in catalog.entries(name=["cuboctahedron", "truncated_cube"], rot=[0, 7], cut=[0, 3])
    ]
    if not cache_meshes:
        raise Machinery("no catalogue mesh for the cache histories")
    items = []
    for k, h in enumerate(hists + long_hists):
        items.append({"id": "hist:%d" % k, "mesh": cache_meshes[k % len(cache_meshes)], "rules": rules, "acts": [_act_json(s["act"]) for s in h]})
    traces = pmap(X.history_case, items)
    ctx.note("replay_wall_s", round(time.time() - t0, 1))
    # ---- 5. judge
    errors = [r for r in face_recs + orbit_recs + mesh_recs if "error" in r]
    good = [r for r in face_recs + orbit_recs + mesh_recs if "error" not in r] + f32_recs + derived_recs
    failed = judge_records(ctx, good, w_big)
    tfailed = judge_traces(ctx, traces, rules, w_small)
    # ---- 6. verdicts
    by_id = {f["id"]: f for f in faces}
    orb_by_id = {o["id"]: o for o in orbits}
    mesh_by_id = {m["id"]: m for m in closed}
    rec_by_id = {(r["kind"], r["id"]): r for r in good}
    ditem_by_id = {it["id"]: it for it in ditems}
    for e in errors:
        ctx.violation("chunk:%s" % e["ids"][0], "Raises", detail=e, sig={"site": "Grid.compute_face_areas"}, replay={"kind": "error", "ids": e["ids"]})
    for r in good:
        if r["kind"] == "face":
            ctx.count(1, r["id"] if r["n"] >= 3 else None)
        elif r["kind"] == "orbit":
            ctx.count(1 + 24 + r["n"], "orbit:" + r["id"])
        elif r["kind"] == "f32":
            ctx.count(1, "f32:" + r["id"])
        elif r["kind"] in ("derived", "dual", "partition"):
            ctx.count(1, r["kind"] + ":" + r["id"])
        else:
            ctx.count(1, "mesh:" + r["id"])
    for (kind, rid), (clauses, cart) in sorted(failed.items()):
        r = rec_by_id[(kind, rid)]
        for clause in clauses:
            sig = {"kind": kind, "bucket": r.get("bucket", "")}
            if kind in ("derived", "dual", "partition"):
                it = ditem_by_id[rid.split("@")[0].split("|partition")[0]]
                pre = [a[1] for a in it["acts"][: int(rid.split("@")[1].split(":")[0]) - 1] if a[0] == "read"] if "@" in rid else []
                sig = {"kind": kind, "mesh": r["mesh"], "sel": r.get("sel", ""), "source_reads_before": sorted(set(pre))}
            if kind == "f32":
                sig["source"] = r["source"]
            if clause == "CartesianInputAgrees":
                sig = {"cart": cart}
            if kind == "face" and rid in by_id:
                rp = {"kind": "face", "face": by_id[rid]}
            elif kind == "face":
                base = rid.split(":", 1)[1].split("|")[0]
                rp = {"kind": "derived", "id": rid, "face": by_id.get(base), "dirs": r.get("dirs"), "M": r.get("M"), "to": r.get("to")}
            elif kind in ("derived", "dual", "partition"):
                rp = {"kind": "derived", "item": ditem_by_id[rid.split("@")[0].split("|partition")[0]]}
            elif kind == "f32":
                rp = {"kind": "f32", "faces": [by_id[rid.split(":", 1)[1]]]}
            elif kind == "orbit":
                rp = {"kind": "orbit", "orbit": orb_by_id[rid]}
            else:
                rp = {"kind": "mesh", "mesh": mesh_by_id[rid]}
            ctx.violation("%s:%s" % (kind, rid) if kind != "face" else rid, clause, detail=r, sig=sig, replay=rp)
    item_by_id = {it["id"]: it for it in items}
    for t in traces:
        ctx.count(1, ("hist", json.dumps(item_by_id[t["id"]]["acts"])) if len(t["steps"]) >= 2 else None)
    for tid, bad in sorted(tfailed.items()):
        it = item_by_id[tid]
        tr = next(t for t in traces if t["id"] == tid)
        for step, clause in bad:
            s = tr["steps"][step - 1]
            ctx.violation(
                "%s@%d" % (tid, step),
                clause,
                detail={"acts": it["acts"], "step": step, "observed": s, "mesh": it["mesh"]["id"]},
                sig={"act": s["act"][0], "after": sorted(set(a[0] for a in it["acts"][: step - 1]))},
                replay={"kind": "history", "item": it},
            )
    # ---- evidence
    bk = {}
    for r in face_recs:
        if "error" not in r:
            bk[(r["bucket"], r["n"])] = bk.get((r["bucket"], r["n"]), 0) + 1
    ctx.note("faces_by_bucket_and_size", {"%s/%d" % k: v for k, v in sorted(bk.items())})
    ctx.note("orbits", len(orbit_recs))
    ctx.note("closed_meshes", {m["id"]: m.get("bucket") for m in mesh_recs if "error" not in m})
    ctx.note("histories", {"exhaustive": len(hists), "random_long": len(long_hists)})
    worst = {}
    for r in face_recs:
        if "error" not in r and r["bucket"] != "gt65":
            w = worst.setdefault(r["bucket"], [0, 0])
            w[0] = max(w[0], r["d"][0])
            w[1] = max(w[1], r["d"][1])
    ctx.note("worst_default_error_q(1e-13,1e-6)", worst)
    tw = {}
    for r in tiny_recs:
        if "error" not in r:
            w = tw.setdefault("M=%d" % r["M"], {"default": [0, 0], "highest": [0, 0], "n": 0})
            w["default"] = X.qmax([w["default"], r["d"]])
            w["highest"] = X.qmax([w["highest"], r["g"][-1], r["t"][-1]])
            w["n"] += 1
    ctx.note("tiny_faces_worst_q(1e-13,1e-6)", tw)
    ctx.note("provenance_records", len(prov_recs))
    ctx.note("float32_source_records", len(f32_recs))
    ctx.note("derived_grid_histories", {"histories": len(ditems), "records": len(derived_recs), "meshes": {m["id"]: sorted(set(m["info"]["sizes"])) for m in dmeshes}})
    for r in face_recs[:1] + orbit_recs[:1] + mesh_recs[:1]:
        ctx.sample({k: v for k, v in r.items() if k != "subs"})
    if traces:
        ctx.sample(traces[len(traces) // 2])
    ctx.assumptions += [
        "TLC's evaluator and the CommunityModules Json reader",
        "float evaluation of the exact descriptors (math.atan2 / sqrt / fsum in harness/lattice.py); rounding of the reference is ~1e-12 relative on the smallest faces",
        "quantisation of deviations to ceil(x*1e13), ceil(x*1e6) before TLC compares them with the property's tolerances",
        "the numeric size of quadrature error is observed, not derived: the specification supplies exact references, buckets and the clause logic",
        "faces wider than 65 degrees have no stated accuracy class: only non-negativity, convergence envelope, invariances (rotation, renumbering) and input agreement at 1e-2 are judged there",
        "quick tier samples the generated faces (stratified, seeded); thorough uses all",
    ]


# ----------------------------------------------------------------------------- replay of a stored violation
def replay(path):
    """Re-run the cases of a replay file against the implementation and print what is observed."""
    with open(path) as fh:
        data = json.load(fh)
    X.warm_up()
    for c in data["cases"][:20]:
        rp = c["replay"]
        print("case", c["key"], "clause", c["clause"])
        if rp["kind"] == "face":
            rec = X.bulk_chunk({"faces": [rp["face"]]})[0]
        elif rp["kind"] == "orbit":
            rec = X.orbit_chunk({"orbits": [rp["orbit"]]})[0]
        elif rp["kind"] == "mesh":
            rec = X.mesh_case(rp["mesh"])
        elif rp["kind"] == "history":
            rec = X.history_case(rp["item"])
        elif rp["kind"] == "f32":
            rec = X.f32_chunk({"faces": rp["faces"]})
        elif rp["kind"] == "derived" and "item" in rp:
            rec = X.derived_case(rp["item"])
        elif rp["kind"] == "derived" and rp.get("face") and rp["id"].split(":")[0] in ("both", "xyz"):
            rec = [x for x in X.prov_chunk({"faces": [rp["face"]]}) if x.get("id") == rp["id"]]
        else:
            rec = rp
        print(json.dumps(rec, default=str)[:2000])
    return 0

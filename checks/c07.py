"""C07 - encoding a grid and reading it back preserves the grid, for every grid and every history.

Spec: tla/EncodeRel.tla (what an encoded dataset means in each format, decoders by the formats'
own conventions, "same faces"), tla/EncodeLazy.tla (state machine: two grid handles, module-level
templates, exports; Mech_intended / Mech_observed), tla/TraceEncode.tla (validation of recorded
executions).  Python: harness/x_c07.py (drives the real API, projects, never judges).
"""

from __future__ import annotations

import json
import os
import random
import re

from harness import catalog, meshgen, tlaval, x_c07
from harness import ux as hux
from harness.core import Machinery

PROP = "C07"

ALL_ROUTES = '{"topo","topoE","fv","ugrid","ufile"}'
INVS = ["TypeOK", "TemplatesConstant", "Encodes", "MetadataClosed", "Serialisable", "WellFormedOutput", "EncodedFaces", "RoundTrip",
        "HistoryIndependent", "FunctionOfSource", "DialectRoundTrip"]

ATTRS = ["n_nodes_per_face", "edge_node_connectivity", "face_edge_connectivity", "edge_face_connectivity", "node_face_connectivity",
         "face_face_connectivity", "node_x", "node_lon", "face_lon", "face_x", "edge_lon", "edge_x", "face_areas", "bounds",
         "edge_node_distances", "edge_face_distances", "hole_edge_indices", "edge_node_z"]
# face-size sequences of the model's strip meshes (EncodeRel!StripMesh): the generator's size-spread parameter
SH_UNI = "{<<3,3,3>>}"
SH_G2 = "{<<4,4>>}"
SH_MIX = "{<<3,4,3,5>>, <<3,6>>, <<5,6,7>>}"                                   # spread 2 (three sizes), 3, MPAS-like
SH_ALL = "{<<3,3,3>>, <<3,4,3,5>>, <<3,6>>, <<5,6,7>>}"
SH_MIX_T = "{<<3,4,3,5>>, <<3,6>>, <<5,6,7>>, <<3,5>>, <<4,7,4>>, <<3,8>>, <<3,4>>, <<6,5,7,6>>}"
SH_ALL_T = "{<<3,3,3>>, <<4,4>>, <<3,4,3,5>>, <<3,6>>, <<5,6,7>>, <<3,5>>, <<4,7,4>>, <<3,8>>, <<3,4>>, <<6,5,7,6>>}"
UNI = ["cube", "octahedron", "tetrahedron", "rhombic_dodecahedron", "tetrakis_cube"]
MIX = ["cuboctahedron", "truncated_cube", "truncated_cube_split", "truncated_octahedron", "truncated_octahedron_split", "rhombicuboctahedron"]

SAMPLE_FILES = [
    "ugrid/quad-hexagon/grid.nc",
    "exodus/mixed/mixed.exo",
    "exodus/outCSne8/outCSne8.g",
    "scrip/outCSne8/outCSne8.nc",
    "mpas/QU/mesh.QU.1920km.151026.nc",
    "ugrid/ov_RLL10deg_CSne4/ov_RLL10deg_CSne4.ug",
    "geos-cs/c12/test-c12.native.nc4",
]


_RUN = {"text": ""}


def cfg(mech, maxops, maxexp, r1, s1, r2, s2, io, invs=(), view=None, init="Init", nxt="Next", emit_places=False):
    """Configuration + the generated root module EncodeRun (TLC's cfg syntax has no tuples: the sets of
    face-size sequences are definitions of the root module, substituted for the constants)."""
    _RUN["text"] = (
        "---- MODULE EncodeRun ----\nEXTENDS %s\nRunShapes1 == %s\nRunShapes2 == %s\n%s====\n"
        % ("TraceEncode" if init == "TraceInit" else "EncodeLazy", s1, s2, 'ASSUME PrintT(<<"PLACES", Places>>)\n' if emit_places else "")
    )
    return (
        "INIT %s\nNEXT %s\nCONSTANTS\n MechName = \"%s\"\n MaxOps = %d\n MaxExports = %d\n Routes1 = %s\n Shapes1 <- RunShapes1\n Routes2 = %s\n Shapes2 <- RunShapes2\n WithIO = %s\n"
        % (init, nxt, mech, maxops, maxexp, r1, r2, "TRUE" if io else "FALSE")
        + "".join("INVARIANT %s\n" % i for i in invs)
        + ("VIEW %s\n" % view if view else "")
        + "CHECK_DEADLOCK FALSE\n"
    )


def M():
    return {"EncodeRun": _RUN["text"]}


# ----------------------------------------------------------------------------- generation
_EDGE = re.compile(r'^(-?\d+) -> (-?\d+) \[label="(.*?)",color')


def _call_of(label):
    label = label.replace('\\"', '"')
    m = re.match(r"Do(\w+)\((.*)\)$", label)
    if not m:
        raise Machinery("unparsable action label %r" % label)
    args = [a.strip().strip('"') for a in m.group(2).split(",")]
    kind = m.group(1)
    if kind in ("Write",):
        return [kind, int(args[0])]
    if kind == "Reopen":
        return [kind, int(args[0]), args[1]]
    return [kind] + args


def _shape(x):
    return tuple(int(v) for v in x)


def _desc_of(label):
    txt = label.replace("\\n", "\n").replace('\\"', '"').replace("\\\\", "\\")
    m = re.search(r"/\\ desc = (\[.*?\]\s*\])", txt, re.S)
    mm = re.search(r"/\\ mesh = (\[.*?\])\n/\\ ", txt + "\n/\\ ", re.S)
    if not m or not mm:
        raise Machinery("no desc / mesh in dot node label")
    d = tlaval.parse(m.group(1))
    mesh = tlaval.parse(mm.group(1))
    return {g: {"route": d[g]["route"], "shape": _shape(d[g]["shape"]), "mesh": [list(f) for f in mesh[g]]} for g in d}


def transition_cover(dot_path):
    """Walk TLC's labelled state graph: a set of action sequences from initial states such that
    every edge of the graph lies on at least one of them.  (Graph search only.)"""
    succ = {}
    inits = {}
    with open(dot_path) as fh:
        for line in fh:
            m = _EDGE.match(line)
            if m:
                succ.setdefault(m.group(1), []).append((m.group(2), m.group(3)))
                continue
            if line.rstrip().endswith('",style = filled]') and ' [label="' in line:
                a = line.index(' [label="')
                inits[line[:a]] = _desc_of(line[a + 9 : line.rindex('",style = filled]')])
    parent = {}
    depth = {}
    order = []
    for r in inits:
        depth[r] = 0
        parent[r] = None
        order.append(r)
    i = 0
    while i < len(order):
        u = order[i]
        i += 1
        for v, lab in succ.get(u, []):
            if v not in depth:
                depth[v] = depth[u] + 1
                parent[v] = (u, lab)
                order.append(v)

    def path(u):
        calls = []
        edges = []
        while parent[u] is not None:
            p, lab = parent[u]
            calls.append(lab)
            edges.append((p, u, lab))
            u = p
        return u, calls[::-1], edges

    covered = set()
    behs = []
    all_edges = [(u, v, lab) for u in succ for v, lab in succ[u] if u in depth]
    all_edges.sort(key=lambda e: -depth[e[0]])
    for u, v, lab in all_edges:
        if (u, v, lab) in covered:
            continue
        root, calls, edges = path(u)
        covered.update(edges)
        covered.add((u, v, lab))
        behs.append({"desc": inits[root], "calls": [_call_of(c) for c in calls + [lab]]})
    return behs, len(all_edges), len(depth)


def parse_cex(out):
    res = []
    i = 0
    while True:
        j = out.find('"CEX"', i)
        if j < 0:
            break
        k = out.rfind("<<", 0, j)
        try:
            v, end = tlaval.parse_prefix(out, k)
        except tlaval.ParseError:
            i = j + 5
            continue
        i = end
        desc = {g: {"route": v[1][g]["route"], "shape": _shape(v[1][g]["shape"]), "mesh": [list(f) for f in v[4][g]]} for g in v[1]}
        calls = [list(c) for c in v[2]]
        bad = sorted((str(b[0]), int(b[1]), str(b[2])) for b in v[3])
        res.append({"desc": desc, "calls": calls, "bad": bad})
    return res


def cex_classes(ctx, mech, maxops, r1, s1, r2, s2, io, what):
    """Violating histories of EncodeLazy(mech), one class per (clause, detail, format, route, size mix, length)."""
    r = ctx.tlc_ok("EncodeRun", cfg(mech, maxops, 2, r1, s1, r2, s2, io, ["EmitCex"], "CexView"), extra_modules=M(), what=what, workers=8, timeout=3000)
    allc = parse_cex(r.out)
    classes = {}
    for c in allc:
        for cl, k, det in c["bad"]:
            enc = [x for x in c["calls"] if x[0] == "ToXarray"]
            g, fmt = (enc[k - 1][1], enc[k - 1][2]) if 0 < k <= len(enc) else (c["calls"][-1][1] if isinstance(c["calls"][-1][1], str) else "g1", "")
            key = (cl, det, fmt, c["desc"][g]["route"], c["desc"][g]["shape"], len(c["calls"]))
            classes.setdefault(key, []).append(c)
    for key in classes:
        classes[key].sort(key=lambda c: (len(c["calls"]), str(c["calls"])))
    return classes, len(allc)


def pick_entries(desc, rng, origin, place=None):
    """Real meshes for a scenario.  The face table TLC generated for the scenario's size sequence is
    realised as it is (x_c07.strip_entry attaches coordinates; the table must coincide); for part of
    the cover behaviours a closed / partial catalogue polyhedron of the same kind (uniform, mixed)
    stands in, for variety in size, closedness and position on the sphere."""
    out = {}
    used = set()
    for g in sorted(desc):
        shape = desc[g]["shape"]
        if origin == "cover" and rng.random() < 0.15:
            pool = [n for n in (MIX if len(set(shape)) > 1 else UNI) if n not in used]
            name = rng.choice(pool)
            used.add(name)
            out[g] = catalog.entries(name=name, rot=rng.randrange(25), cut=rng.choice([0, 0, 0, 2, 3, 5]))[0]
        else:
            e = x_c07.strip_entry(shape, rng, place)
            if e["faces"] != desc[g]["mesh"]:
                raise Machinery("strip mesh for %s differs from the table TLC generated: %s vs %s" % (shape, e["faces"], desc[g]["mesh"]))
            out[g] = e
    return out


def finish_calls(calls, rng, sweep=True):
    """Strip explicit Write/Reopen (every encoding is followed by write + reopen anyway), choose the
    API spelling of each encoding, and end with one encoding per format of the grid touched last."""
    out = []
    opened = []
    for c in calls:
        if c[0] in ("Write", "Reopen"):
            continue
        if c[0] == "Open":
            opened.append(c[1])
        if c[0] == "ToXarray":
            c = c[:3] + ["encode_as" if rng.random() < 0.25 else "to_xarray"]
        out.append(c)
    if sweep and opened:
        g = out[-1][1]
        done = {(c[1], c[2]) for k, c in enumerate(out) if c[0] == "ToXarray" and k == len(out) - 1}
        for fmt in ("ugrid", "exodus", "scrip"):
            if (g, fmt) not in done:
                out.append(["ToXarray", g, fmt, "encode_as" if rng.random() < 0.25 else "to_xarray"])
        # what this grid's calls left behind must not show in another grid's encoding
        for h in opened:
            if h != g:
                out.append(["ToXarray", h, "ugrid", "to_xarray"])
    return out


# ----------------------------------------------------------------------------- judging
def validate(ctx, behs, results, tag):
    """Write the traces, have TLC validate them against EncodeLazy(Mech_intended); returns
    {t: [(rel_line, line, clause, export, detail)]}, drift list."""
    tpath = os.path.join(ctx.work, "trace_%s.ndjson" % tag)
    ipath = os.path.join(ctx.work, "index_%s.ndjson" % tag)
    n = 0
    first_of = {}
    lines_of = {}
    with open(tpath, "w") as ft, open(ipath, "w") as fi:
        for b, r in zip(behs, results):
            if r["skipped"] or not r["lines"]:
                continue
            first = n + 1
            for L in r["lines"]:
                ft.write(json.dumps(L) + "\n")
                n += 1
            first_of[b["t"]] = first
            lines_of[b["t"]] = r["lines"]
            mesh = dict(r["mesh"])
            desc = {g: {"route": b["desc"][g]["route"], "shape": list(b["desc"][g]["shape"])} for g in b["desc"]}
            for g in ("g1", "g2"):
                mesh.setdefault(g, [])
                desc.setdefault(g, {"route": "none", "shape": []})
            fi.write(json.dumps({"t": b["t"], "first": first, "last": n, "desc": desc, "mesh": mesh}) + "\n")
    if not first_of:
        return {}, []
    r = ctx.tlc_ok(
        "EncodeRun",
        cfg("intended", 0, 64, "{}", "{}", "{}", "{}", True, invs=["Report"], init="TraceInit", nxt="TraceNext"),
        what="validate %d recorded traces (%d calls) against EncodeLazy(Mech_intended) [%s]" % (len(first_of), n, tag),
        env={"TRACE_FILE": tpath, "INDEX_FILE": ipath},
        extra_modules=M(),
        workers=8,
        count=False,
        timeout=3000,
    )
    acc = set()
    viol = {}
    drift = []
    out = r.out
    for tagname in ('"V"', '"ACC"', '"STUCK"', '"D"'):
        i = 0
        while True:
            j = out.find(tagname, i)
            if j < 0:
                break
            k = out.rfind("<<", 0, j)
            if out[k + 2 : j].strip() != "":
                i = j + 3
                continue
            try:
                v, end = tlaval.parse_prefix(out, k)
            except tlaval.ParseError:
                i = j + 3
                continue
            i = end
            if v[0] == "ACC":
                acc.add(v[1])
            elif v[0] == "STUCK":
                raise Machinery("trace %s: the machine cannot consume line %d: %s" % (v[1], v[2] - first_of[v[1]] + 1, lines_of[v[1]][v[2] - first_of[v[1]]]))
            elif v[0] == "V":
                t, ln = v[1], v[2]
                rel = ln - first_of[t]
                for b in v[3]:
                    viol.setdefault(t, []).append((rel, lines_of[t][rel], str(b[0]), int(b[1]), str(b[2])))
            elif v[0] == "D":
                for d in v[3]:
                    drift.append((str(d[0]), sorted(d[1]), sorted(d[2])))
    missing = set(first_of) - acc
    if missing:
        raise Machinery("traces without verdict (not all lines consumed): %s\n%s" % (sorted(missing)[:5], out[-3000:]))
    ctx.traces += len(first_of)
    os.remove(tpath)
    os.remove(ipath)
    return viol, drift


def export_of(lines, k):
    n = 0
    for L in lines:
        if L["ev"] == "ToXarray":
            n += 1
            if n == k:
                return L
    return None


def beh_id(b):
    ents = ",".join("%s=%s:%s" % (g, b["desc"][g]["route"], b["names"].get(g, "?")) for g in sorted(b["names"]))
    calls = ";".join("%s(%s)" % (c[0], ",".join(str(x) for x in c[1:3])) for c in b["calls"])
    return "%s|%s" % (ents, calls)


def report(ctx, behs, results, viol, origin):
    by_t = {b["t"]: b for b in behs}
    res_t = {b["t"]: r for b, r in zip(behs, results)}
    for t, items in sorted(viol.items()):
        b = by_t[t]
        lines = res_t[t]["lines"]
        for rel, L, clause, k, detail in items:
            X = export_of(lines, k) if k > 0 else None
            g = X["g"] if X else L.get("g", "g1")
            sizes = {len(f) for f in res_t[t]["mesh"].get(g, [])}
            sig = {
                "detail": detail,
                "fmt": X["fmt"] if X else "",
                "route": b["desc"][g]["route"],
                "mixed": len(sizes) > 1,
                "spread": (max(sizes) - min(sizes)) if sizes else 0,
                "at": L["ev"],
                "place": "%s%+g" % (b["place"]["anchor"], b["place"]["off"] * 1e-6) if b.get("place") else "",
            }
            key = "%s@%d:%s:%s:%s" % (beh_id(b), rel + 1, L["ev"], clause, detail)
            ctx.violation(
                key,
                clause,
                detail={"origin": origin, "line": rel + 1, "event": {x: L[x] for x in L if x in ("ev", "g", "a", "fmt", "api", "k", "via", "status", "ok", "st", "alias")},
                        "export": k, "errors": res_t[t]["errors"][:6]},
                sig=sig,
                replay={"meshes": {g: catalog.eid(e) if "rot" in e else e.get("name") for g, e in b["entries"].items()},
                        "routes": {g: b["desc"][g]["route"] for g in b["desc"]}, "calls": b["calls"], "failing_call": rel + 1},
            )


def binding_demo(ctx, behs, results, viol):
    """Corrupt one recorded field of traces TLC accepted and require TLC to reject each with the
    clause that field belongs to (the trace specification is bound to every field it judges)."""
    import copy

    def corrupt(lines, kind):
        L2 = copy.deepcopy(lines)
        for L in L2:
            if kind == "faces" and L["ev"] == "Reopen" and L["st"] == "ok" and L["faces"] and len(L["faces"][0]) >= 3:
                f = L["faces"][0]
                f[0], f[1] = f[1], f[0]
                return L2, "RoundTrip"
            if kind == "names" and L["ev"] == "ToXarray" and L["fmt"] == "ugrid" and L["status"] == "ok":
                L["names"] = L["names"] + ["edge_node_connectivity_x"]
                return L2, "MetadataClosed"
            if kind == "write" and L["ev"] == "Write" and L["ok"]:
                L["ok"] = False
                return L2, "Serialisable"
            if kind == "template" and L["ev"] in ("Access", "ToXarray"):
                L["tT"] = L["tT"] + ["edge_dimension"]
                return L2, "TemplatesConstant"
            if kind == "start_index" and L["ev"] == "ToXarray" and L["fmt"] == "ugrid" and L["status"] == "ok":
                L["enc"]["start"] = 1
                return L2, None  # WellFormed or EncodedFaces, depending on the mesh
            if kind == "block" and L["ev"] == "ToXarray" and L["fmt"] == "exodus" and L["status"] == "ok" and L["enc"]["blocks"]:
                L["enc"]["blocks"][0][0][0] = 0
                return L2, "WellFormed"
            if kind == "corner" and L["ev"] == "ToXarray" and L["fmt"] == "scrip" and L["status"] == "ok" and L["enc"]["corners"]:
                c = L["enc"]["corners"][0]
                c[0], c[1] = c[1], c[0]
                return L2, "EncodedFaces"
            if kind == "status" and L["ev"] == "ToXarray" and L["status"] == "ok":
                L["status"] = "raise"
                return L2, "Encodes"
        return None, None

    clean = [(b, r) for b, r in zip(behs, results) if not r["skipped"] and r["lines"] and b["t"] not in viol][:40]
    kinds = ["faces", "names", "write", "template", "start_index", "block", "corner", "status"]
    cb, cr, want = [], [], {}
    t = 10**6
    for kind in kinds:
        n = 0
        for b, r in clean:
            lines, clause = corrupt(r["lines"], kind)
            if lines is None:
                continue
            # a Write / Reopen that followed a now-failed step would not be consumable: cut the trace there
            if kind == "status":
                k = next(i for i, L in enumerate(lines) if L["ev"] == "ToXarray" and L["status"] == "raise")
                lines = lines[: k + 1]
            if kind == "write":
                k = next(i for i, L in enumerate(lines) if L["ev"] == "Write" and not L["ok"])
                lines = [L for i, L in enumerate(lines) if i <= k or not (L["ev"] == "Reopen" and L["via"] == "file" and L["k"] == lines[k]["k"])]
            t += 1
            for L in lines:
                L["t"] = t
            cb.append(dict(b, t=t))
            cr.append(dict(r, lines=lines))
            want[t] = (kind, clause)
            n += 1
            if n >= 3:
                break
    lacking = sorted(set(kinds) - {k for k, _ in want.values()})
    if lacking:
        if not viol:
            raise Machinery("binding demonstration: no accepted trace to corrupt for %s" % lacking)
        # on a tree that violates the property there may be no accepted trace of some kind: not a harness matter
        ctx.note("binding_demo_kinds_without_accepted_trace", lacking)
    if not want:
        return
    v2, _ = validate(ctx, cb, cr, "corrupt")
    ctx.traces -= len(cb)
    missed = []
    for t, (kind, clause) in want.items():
        got = {x[2] for x in v2.get(t, [])}
        if not got or (clause is not None and clause not in got):
            missed.append((kind, clause, sorted(got)))
    if missed:
        raise Machinery("binding demonstration: corrupted traces were accepted: %s" % missed[:5])
    ctx.note("binding_demo_corrupted_traces_rejected", len(want))


# ----------------------------------------------------------------------------- main
def run(ctx):
    rng = random.Random(ctx.seed)
    thorough = ctx.tier == "thorough"
    hux.import_ux()
    x_c07.snapshot_templates()

    # 1. the specification on its own: Mech_intended satisfies every clause (bounded, exhaustive)
    if thorough:
        ctx.tlc_ok("EncodeRun", cfg("intended", 4, 2, ALL_ROUTES, SH_ALL, ALL_ROUTES, "{<<4,4>>, <<3,5>>}", True, INVS, "NoHist"),
                   extra_modules=M(), what="Mech_intended: all clauses, 200 scenarios, histories <= 4 calls", workers=8, timeout=3000)
        ctx.tlc_ok("EncodeRun", cfg("intended", 6, 3, '{"topo","fv"}', "{<<3,4,3,5>>}", '{"topoE"}', SH_G2, True, INVS, "NoHist"),
                   extra_modules=M(), what="Mech_intended: all clauses, 2 scenarios, histories <= 6 calls, 3 exports", workers=8, timeout=3000)
    else:
        ctx.tlc_ok("EncodeRun", cfg("intended", 4, 2, ALL_ROUTES, SH_ALL_T if thorough else SH_ALL, '{"topoE"}', SH_G2, True, INVS, "NoHist"),
                   extra_modules=M(), what="Mech_intended: all clauses, 20 scenarios (5 routes x 4 size sequences), histories <= 4 calls", workers=8, timeout=1500)

    # 2. Mech_observed: TLC produces the violating histories (directed tests)
    per = 2 if thorough else 1
    classes, n_states = cex_classes(ctx, "observed", 4, ALL_ROUTES, SH_ALL_T if thorough else SH_ALL, '{"topoE"}', SH_G2, True,
                                    "Mech_observed: enumerate violating histories")
    cex = []
    for key in sorted(classes):
        for c in classes[key][:per]:
            cex.append(dict(c, expect=(key[0], key[1]), origin="cex"))
    ctx.note("observed_model_violating_states", n_states)
    ctx.note("observed_model_violation_classes", len(classes))
    seen5 = {k[:5] for k in classes}

    # 3. every repaired defect is a mechanism variant of the model: TLC must find histories on which the variant breaks a
    #    clause that Mech_observed does not break; these histories are replayed as regression tests.  (thorough: also
    #    every single departure from the intended mechanism must break an invariant.)
    wide = thorough
    plans = {
        "rev_d3a60c34": (4, '{"topo","fv","ufile"}' if wide else '{"topo"}', SH_ALL if wide else SH_UNI, False),
        "rev_ef0ca9d1": (4, '{"topo","fv","ufile"}' if wide else '{"topo"}', SH_ALL if wide else SH_UNI, False),
        "rev_e3484517": (3 if wide else 2, '{"topo","topoE"}' if wide else '{"topo"}', SH_UNI, False),
        "rev_ea0c8869": (3, '{"topo","ugrid","fv"}' if wide else '{"topo","ugrid"}', SH_UNI, False),
        "rev_85394185": (4 if wide else 3, '{"topo","fv","ufile"}' if wide else '{"topo"}', SH_ALL if wide else SH_UNI, False),
        "rev_755d0493": (4, '{"fv"}', SH_ALL if wide else SH_UNI, False),
        "rev_6b5a0114": (3 if wide else 2, '{"topo","fv","ugrid"}' if wide else '{"topo"}', SH_MIX_T if wide else SH_MIX, False),
        "rev_5f78d30f": (3 if wide else 2, '{"topo","fv","ugrid"}' if wide else '{"topo"}', SH_MIX_T if wide else SH_MIX, False),
        "rev_e9051200": (3 if wide else 2, '{"ufile"}', SH_ALL if wide else SH_UNI, False),
    }
    regress = []
    broke = {}
    for v, (mo, r1, s1, io) in plans.items():
        cl_v, _ = cex_classes(ctx, v, mo, r1, s1, '{"topoE"}', SH_G2, io, "model variant %s (reverted fix): histories that break a clause" % v)
        new = sorted(k for k in cl_v if k[:5] not in seen5)
        broke[v] = sorted({k[0] for k in new})
        if not new:
            raise Machinery("model variant %s breaks no clause beyond Mech_observed" % v)
        for key in new:
            for c in cl_v[key][:per]:
                regress.append(dict(c, expect=(key[0], key[1]), origin="regress:" + v))
    if thorough:
        for v in ["before_c07_repairs", "only_alias", "only_helper", "only_coords", "only_scrip", "only_exofill", "only_exostart", "only_exoreader", "only_scripreader", "only_scripkeep", "only_filefill"]:
            invs = [i for i in INVS if i != "FunctionOfSource"]
            r = ctx.tlc("EncodeRun", cfg(v, 4, 2, ALL_ROUTES, SH_ALL_T if thorough else SH_ALL, '{"topoE"}', SH_G2, True, invs, "NoHist"),
                        extra_modules=M(), what="model mutant %s must break a clause" % v, workers=4, count=False, timeout=900)
            broke[v] = r.violated
            if not r.violated:
                raise Machinery("model mutant %s is not distinguished by any invariant" % v)
    ctx.note("model_variants_broken_clauses", broke)
    ctx.note("regression_histories", len(regress))

    # 4. transition cover of the call graph (Mech_intended), as test behaviours
    gens = []
    dot = os.path.join(ctx.work, "cover.dot")
    plans = [(3, SH_ALL, '{"topoE"}', SH_G2)]
    if thorough:
        plans = [(4, SH_ALL, '{"topoE"}', SH_G2), (3, SH_ALL_T, '{"topo","fv"}', "{<<3,5>>}")]
    n_edges = n_nodes = 0
    places = []
    for depth, s1, r2, s2 in plans:
        rr = ctx.tlc_ok("EncodeRun", cfg("intended", depth, 2, ALL_ROUTES, s1, r2, s2, False, [], "GenView", emit_places=True),
                        extra_modules=M(), what="call graph to depth %d for the transition cover + the set of places" % depth, workers=1, dump_dot=dot, timeout=3000)
        j = rr.out.find('"PLACES"')
        if j >= 0:
            v, _ = tlaval.parse_prefix(rr.out, rr.out.rfind("<<", 0, j))
            if True:
                places = sorted(({"anchor": str(dict(x)["anchor"]), "off": int(dict(x)["off"])} for x in v[1]), key=lambda x: (x["anchor"], x["off"]))
        bs, ne, nn = transition_cover(dot)
        os.remove(dot)
        n_edges += ne
        n_nodes += nn
        gens += bs
    ctx.note("cover_graph", {"abstract_states": n_nodes, "transitions": n_edges, "covering_behaviours": len(gens)})
    budget = 8000 if thorough else 450
    if len(gens) > budget:
        # keep every behaviour that encodes in its prefix or touches both grids; sample the rest
        keep = [b for b in gens if sum(1 for c in b["calls"] if c[0] == "ToXarray") >= 1 and len({c[1] for c in b["calls"]}) == 2]
        if len(keep) > budget // 2:
            keep = rng.sample(keep, budget // 2)
        ids = {id(b) for b in keep}
        rest = [b for b in gens if id(b) not in ids]
        gens = keep + rng.sample(rest, budget - len(keep))
        ctx.note("cover_sampled", len(gens))
    else:
        ctx.exhaustive = True

    behs = []
    t = 0
    if len(places) < 20:
        raise Machinery("TLC emitted %d places" % len(places))
    ctx.note("places_generated_by_TLC", len(places))
    # every provenance route meets every place: within a route the cover behaviours cycle through the places
    gens.sort(key=lambda b: (b["desc"]["g1"]["route"], str(b["desc"]["g1"]["shape"]), str(b["calls"])))
    nth = {}
    for src in (cex, regress, [dict(b, origin="cover") for b in gens]):
        for b in src:
            origin = b["origin"]
            t += 1
            route1 = b["desc"]["g1"]["route"]
            place = places[nth.get(route1, 0) % len(places)] if origin == "cover" else rng.choice(places)
            nth[route1] = nth.get(route1, 0) + (1 if origin == "cover" else 0)
            ents = pick_entries(b["desc"], rng, origin, place)
            behs.append({"t": t, "origin": origin, "desc": b["desc"], "entries": ents, "place": place, "names": {g: (catalog.eid(e) if "rot" in e else e["name"]) for g, e in ents.items()},
                         "routes": {g: b["desc"][g]["route"] for g in b["desc"]}, "calls": finish_calls(b["calls"], rng), "work": ctx.work,
                         "expect": b.get("expect"), "model_bad": b.get("bad")})
    # 5. code -> spec: bigger inputs (sample files, random mixed planar meshes), same machine, same judge
    big = []
    files = SAMPLE_FILES if thorough else SAMPLE_FILES[:4]
    for f in files:
        p = os.path.join(hux.REPO, "test", "meshfiles", f)
        if os.path.exists(p) and os.path.getsize(p) > 0:
            for pre in ([], ["face_edge_connectivity"], ["face_lon", "CHUNK"]) if thorough else ([], ["edge_lon"]):
                t += 1
                calls = [["Open", "g1"]] + [["Chunk", "g1"] if a == "CHUNK" else ["Access", "g1", a] for a in pre]
                big.append({"t": t, "origin": "file", "desc": {"g1": {"route": "file", "shape": ()}}, "entries": {"g1": {"file": p, "name": f}},
                            "names": {"g1": f}, "routes": {"g1": "file"}, "calls": finish_calls(calls, rng), "work": ctx.work})
    for k in range(24 if thorough else 6):
        nx, ny = rng.randint(3, 14 if thorough else 8), rng.randint(3, 14 if thorough else 8)
        lon, lat, faces = meshgen.planar_mixed(nx, ny, rng, holes=rng.choice([0.0, 0.2]))
        route = x_c07.ROUTES[k % 5]
        t += 1
        pre = rng.sample(["edge_node_connectivity", "face_lon", "node_x", "face_areas", "node_face_connectivity", "edge_face_distances"], 2)
        calls = [["Open", "g1"]] + [["Access", "g1", a] for a in pre]
        big.append({"t": t, "origin": "planar", "desc": {"g1": {"route": route, "shape": ()}},
                    "entries": {"g1": {"lonlat": list(zip(lon, lat)), "faces": faces, "name": "planar%dx%d#%d" % (nx, ny, k)}},
                    "names": {"g1": "planar%dx%d#%d" % (nx, ny, k)}, "routes": {"g1": route}, "calls": finish_calls(calls, rng), "work": ctx.work})

    # 6. replay into the real library, record, validate
    # compile the library's jitted kernels once, in the parent, so that forked workers inherit them
    warm = {"t": 0, "desc": {}, "entries": {"g1": catalog.entries(name="cuboctahedron", rot=1, cut=0)[0]}, "routes": {"g1": "topo"}, "work": ctx.work,
            "calls": [["Open", "g1"]] + [["Access", "g1", a] for a in ATTRS] + [["ToXarray", "g1", f] for f in ("ugrid", "exodus", "scrip")]}
    w = x_c07.replay_behaviour(warm)
    if w["skipped"] and not w.get("impl_raised"):
        raise Machinery("warm-up behaviour failed: %s" % w["skipped"])
    nproc = int(os.environ.get("VERIF_NPROC", "0")) or min(16, os.cpu_count() or 4)
    both = x_c07.robust_map(x_c07.replay_behaviour, behs + big, nproc)
    results, results_big = both[: len(behs)], both[len(behs) :]
    skipped = {}
    for b, r in list(zip(behs, results)) + list(zip(big, results_big)):
        if r.get("crashed"):
            ctx.violation("%s@crash" % beh_id(b), "ProcessSurvives", detail=r["skipped"], sig={"at": "replay"},
                          replay={"meshes": b["names"], "routes": b["routes"], "calls": b["calls"]})
        if r.get("impl_raised"):
            g = r["impl_raised"].split("(")[1].split(")")[0]
            ctx.violation("%s@Open" % beh_id(b), "SourceOpens", detail=r["impl_raised"],
                          sig={"route": b["desc"].get(g, {}).get("route", ""), "at": r["impl_raised"].split("(")[0]},
                          replay={"meshes": b["names"], "routes": b["routes"], "calls": b["calls"]})
        if r["skipped"]:
            if r.get("machinery"):
                raise Machinery("replay of behaviour %s failed in the harness: %s" % (beh_id(b), r["skipped"]))
            skipped[r["skipped"]] = skipped.get(r["skipped"], 0) + 1
    ctx.note("behaviours_skipped", skipped)
    viol, drift = validate(ctx, behs, results, "gen")
    viol_big, drift_big = validate(ctx, big, results_big, "big")
    binding_demo(ctx, behs, results, viol)
    report(ctx, behs, results, viol, "generated")
    report(ctx, big, results_big, viol_big, "sample/random input")

    # 7. bookkeeping: counts, reproduction of the model's predicted violations, drift
    n_calls = 0
    aliases = 0
    for b, r in list(zip(behs, results)) + list(zip(big, results_big)):
        if r["skipped"]:
            continue
        n_calls += len(r["lines"])
        aliases += r.get("aliases", 0)
        encs = tuple((L["g"], L["fmt"], L["status"]) for L in r["lines"] if L["ev"] == "ToXarray")
        pre = tuple(tuple(c[:3]) for c in b["calls"] if c[0] != "ToXarray")
        nontrivial = len(pre) > 1
        ctx.count(len(r["lines"]), (tuple(sorted((g, b["desc"][g]["route"], b["names"][g]) for g in b["names"])), pre, encs) if nontrivial else None)
    reproduced = 0
    inapplicable = 0
    not_reproduced = []
    for b, r in zip(behs, results):
        if b["origin"] != "cex" or r["skipped"]:
            continue
        got = {(cl, det) for (_, _, cl, _, det) in viol.get(b["t"], [])}
        want = b["expect"]
        if want in got:
            reproduced += 1
        elif any(L["ev"] == "Access" and L["status"] == "raise" for L in r["lines"]):
            inapplicable += 1  # an attribute the history needs could not be built on this mesh (not C07's concern)
        else:
            not_reproduced.append({"expected": want, "calls": b["calls"], "routes": b["routes"], "meshes": b["names"], "got": sorted(got)})
    ctx.note("observed_model_histories_replayed", sum(1 for b in behs if b["origin"] == "cex"))
    ctx.note("observed_model_histories_reproduced", reproduced)
    ctx.note("observed_model_histories_inapplicable_on_mesh", inapplicable)
    if not_reproduced:
        print("MODEL-DRIFT: %d histories predicted by Mech_observed were not reproduced on the code, e.g. %s" % (len(not_reproduced), json.dumps(not_reproduced[0])[:400]))
        ctx.note("observed_model_not_reproduced", not_reproduced[:5])
    dr = {}
    for a, extra, absent in drift + drift_big:
        dr.setdefault((a, tuple(extra), tuple(absent)), 0)
        dr[(a, tuple(extra), tuple(absent))] += 1
    if dr:
        top = sorted(dr.items(), key=lambda kv: -kv[1])[:4]
        print("MODEL-DRIFT: %d accesses materialised something else than the descriptive dependency graph says, e.g. %s" % (sum(dr.values()), top))
    ctx.note("dependency_graph_drift", sum(dr.values()))
    ctx.note("exports_that_are_the_grids_own_dataset", aliases)
    if aliases:
        print("INFO: to_xarray('ugrid') returned Grid._ds itself in %d encodings (aliasing is C19's clause; its C07 consequences are judged under Serialisable)" % aliases)
    ctx.note("calls_replayed", n_calls)
    ctx.rule = (
        "TLC model-checks EncodeLazy(Mech_intended) (all clauses), enumerates the violating histories of EncodeLazy(Mech_observed) and dumps the "
        "labelled call graph; a transition cover of that graph plus the predicted violating histories are replayed call by call into real grids "
        "(catalogue meshes x 4 provenance routes; every encoding followed by to_netcdf, in-memory reopen, file reopen), each call logged with the "
        "projected abstract state; TLC (TraceEncode) consumes every trace against EncodeLazy(Mech_intended), decoding every export by the format's "
        "own conventions. Non-trivial = distinct (meshes+routes, non-encoding calls, encodings) with at least one call besides Open before encoding."
    )
    for b, r in list(zip(behs, results))[:1] + list(zip(behs, results))[len(cex) + len(regress) : len(cex) + len(regress) + 2]:
        ctx.sample({"meshes": b["names"], "routes": b["routes"], "calls": b["calls"], "violations": [(x[2], x[3], x[4]) for x in viol.get(b["t"], [])][:6]})
    ctx.assumptions += [
        "netCDF4 + xarray writer/reader of plain variables (the file E-record is read back with decode_cf=False)",
        "positions are matched to source nodes with a chord tolerance of 1e-9 (float32 sample files: 1e-6)",
        "a direction with |z| > 1 - 1e-8 is the pole by the library's documented tolerance: pole distances in (0, 0.0081 deg] are not generated",
        "SCRIP cannot express a cell with fewer corners except by repeating one: consecutive equal corners are one corner",
        "abstract meshes of the model have 2-4 faces; real meshes come from the TLC-proved catalogue, 7 sample files and random planar patches",
    ]

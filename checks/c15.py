"""C15 - exported polygons and lines correspond one-to-one with faces (inputs and histories)."""

from __future__ import annotations

import json
import os
import random

from harness import catalog
from harness import x_c15 as X
from harness.core import Machinery
from harness.pool import pmap

PROP = "C15"
NAMES = ["cube", "cuboctahedron", "tetrahedron", "truncated_octahedron", "truncated_cube", "rhombicuboctahedron",
         "truncated_octahedron_split", "truncated_cube_split"]

GEN_CFG = """INIT Init
NEXT Next
INVARIANT LawPartition
INVARIANT LawParity
INVARIANT LawSigns
INVARIANT LawClosed
INVARIANT LawSignLocal
INVARIANT Emit
CHECK_DEADLOCK FALSE
"""
JUDGE_CFG = "INIT Init\nNEXT Next\nINVARIANT Judge\nCHECK_DEADLOCK FALSE\n"


# ============================================================================ part 1: per-face semantics
def static_variants(idx):
    """The conversions performed on a fresh grid of one case (every one on its own fresh grid)."""
    out = [{"act": "Am"}]
    projs = [("none", True), ("pc180", True), ("rob", True), ("pc180", False), ("rob", False)]
    for pe in X.PE:
        for eng in ("sp", "gp"):
            for pn, pj in projs:
                # grid-only conversions are a sub-path of the data conversions; do them on a share of the cases
                act = "ToGdf" if (idx + len(out)) % 5 == 0 else "DataToGdf"
                out.append({"act": act, "pe": pe, "proj": pn, "eng": eng, "project": pj, "cache": True, "override": False, "var": "a"})
        for pn in ("none", "pc180", "rob"):
            act = "ToPoly" if (idx + len(out)) % 5 == 0 else "DataToPoly"
            out.append({"act": act, "pe": pe, "proj": pn, "eng": "-", "project": True, "cache": True, "override": False, "var": "a", "ri": True})
            out.append({"act": "ToLine", "pe": pe, "proj": pn, "eng": "-", "project": True, "cache": True, "override": False})
    return out


def refused(ev):
    """Combinations the implementation documents as unsupported (it raises ValueError): not judged."""
    if ev["act"] in ("ToGdf", "DataToGdf"):
        return ev["pe"] == "split" and ev["proj"] != "none" and ev.get("project", True)
    if ev["act"] in ("ToPoly", "DataToPoly"):
        return ev["pe"] == "split" and ev["proj"] != "none"
    return False


def ev_tag(ev):
    if ev["act"] == "Am":
        return "Am"
    return "%s/%s/%s/%s/p%d" % (ev["act"], ev["pe"], ev["proj"], ev["eng"], 1 if ev.get("project", True) else 0)


def record_static(case):
    """One case = (catalogue entry, sign of the seam nodes).  Returns the projected records."""
    import numpy as np

    entry, sv = case["entry"], case["sv"]
    recs, errs, areas = [], [], []
    try:
        g0 = X.make_grid(entry, sv)
        lon, lat = X.recorded_lonlat(g0, entry, sv)
        T = X.Targets(entry, lon, lat)
    except Exception as e:  # noqa
        return {"id": case["id"], "fatal": "%s: %s" % (type(e).__name__, str(e)[:200])}
    base = {"nodes": entry["nodes"], "faces": entry["faces"]}
    for ev in static_variants(case["idx"]):
        rid = "%s|%s" % (case["id"], ev_tag(ev))
        try:
            g = X.make_grid(entry, sv)
            if ev["act"] == "Am":
                am = [int(x) for x in np.asarray(g.antimeridian_face_indices).ravel()]
                recs.append(dict(base, id=rid, kind="am", k=0, sgn=T.sgn[0], am=am, pe="-"))
                continue
            das = {"a": X.tracer(g, "ta")}
            obj, owner = X.call(g, das, ev)
        except Exception as e:  # noqa
            if not refused(ev):
                errs.append({"id": rid, "ev": ev, "error": "%s: %s" % (type(e).__name__, str(e)[:200])})
            continue
        kind = X.kind_of(ev["act"])
        k = X.seam_k(ev["proj"])
        pj = X.proj(ev["proj"])
        if kind == "gdf":
            system = T.system(ev["proj"], ev["project"] and pj is not None)
            crs_ok = None
        else:
            import cartopy.crs as ccrs

            tr = X.declared_crs(obj)
            shifted = ccrs.PlateCarree(central_longitude=X.cl_of(ev["proj"]))
            if pj is None or (kind == "line" and ev["pe"] == "split"):
                # coordinates are (seam-shifted) longitudes / latitudes
                system, crs_ok = T.system(ev["proj"], False), bool(tr == shifted)
            else:
                system, crs_ok = T.system(ev["proj"], True), bool(tr == pj)
        rows, data, holes = X.raw_rows(obj, kind)
        rec = dict(base, id=rid, kind=kind, pe=ev["pe"], k=k, sgn=T.sgn[k])
        rec["rows"] = [[T.match(p, system) for p in r] for r in rows]
        if holes:
            rec["rows"].append([[[-2, 0]]])
        if crs_ok is not None:
            rec["crs_ok"] = crs_ok
        if ev["act"].startswith("Data"):
            col = "ta" if kind == "gdf" else "arr"
            rec["data"] = data.get(col, [])
            extra = sorted(set(data) - {col})
            if extra:
                errs.append({"id": rid, "ev": ev, "error": "unexpected data columns %s" % extra})
        if owner is not None and ev["pe"] != "ignore":
            rec["owner"] = owner
        recs.append(rec)
        # numeric clause: the pieces of a split face cover the same area of the (lon, lat) plane
        if ev["pe"] == "split" and system.startswith("ll"):
            areas.append({"id": rid, "k": k, "system": system, "kind": kind, "owner": owner,
                          "piece_area": [[X.shoelace(p) for p in r] for r in rows]})
    return {"id": case["id"], "recs": recs, "errs": errs, "areas": areas, "tab": {s: T.tab[s].tolist() for s in ("ll0", "ll180")},
            "sgn": T.sgn}


def sig_of_static(rid, clause, facts=None):
    parts = rid.split("|")
    tag = parts[-1].split("/")
    s = {"part": "static", "clause": clause, "act": tag[0]}
    if len(tag) >= 5:
        s.update({"pe": tag[1], "proj": tag[2], "eng": tag[3], "project": tag[4] == "p1"})
    if facts:
        s["crossers"] = bool(facts.get("crossers", 0))
    return s


def run_gen(ctx, ents, offset, what):
    mesh_file = os.path.join(ctx.work, "meshes.ndjson")
    with open(mesh_file, "w") as fh:
        for e in ents:
            fh.write(json.dumps({"name": e["name"], "rot": e["rot"], "cut": e["cut"], "nodes": e["nodes"], "faces": e["faces"], "closed": e["closed"]}) + "\n")
    r = ctx.tlc_ok("PolyGen", GEN_CFG, what="laws of CrossesAM/Kept on %d meshes (%s) x seam position x seam-node signs; emits cases" % (len(ents), what),
                   env={"MESH_FILE": mesh_file}, workers=8, timeout=1500)
    gen = {}
    for v in X.tagged_prints(r.out, ("CASE",)):
        c = v[1]
        gen[(c["mi"] + offset, c["k"], c["sv"])] = c
    if len(gen) < len(ents) * 4:
        raise Machinery("PolyGen emitted %d cases for %d meshes" % (len(gen), len(ents)))
    return gen


def part_static(ctx, rng):
    thorough = ctx.tier == "thorough"
    rots = list(range(25)) if thorough else [0, 3, 7, 12, 18, 22]
    cuts = [0, 2, 3, 5] if thorough else [0, 3]
    ents = catalog.entries(name=NAMES, rot=rots, cut=cuts)
    if not thorough:
        ents = [e for i, e in enumerate(ents) if i % 2 == 0 or e["name"].endswith("_split")]
    elif len(ents) > 360:
        keep = [e for e in ents if e["rot"] in (0, 3, 7, 12, 18, 22)]
        rest = [e for e in ents if e["rot"] not in (0, 3, 7, 12, 18, 22)]
        ents = keep + rng.sample(rest, 360 - len(keep)) if len(keep) < 360 else keep
    gen = run_gen(ctx, ents, 0, "catalogue")
    # grids WITHOUT crossing faces: the sub-mesh of the faces the specification keeps under 'exclude'
    derived = []
    for mi, e in enumerate(ents, start=1):
        c0 = gen[(mi, 0, 1)]
        if e["cut"] == 0 and not c0["polecorner"] and not c0["tie"] and len(c0["kept"]) >= 2 and len(derived) < (60 if thorough else 10):
            d = dict(e)
            d["faces"] = [e["faces"][f] for f in c0["kept"]]
            d["closed"] = False
            d["name"] = e["name"] + "~kept"
            derived.append(d)
    gen.update(run_gen(ctx, derived, len(ents), "sub-meshes without crossers"))
    ents = ents + derived
    cases, skipped = [], {"pole-corner": 0, "tie": 0, "pole-touch": 0}
    for mi, e in enumerate(ents, start=1):
        seen = set()
        for sv in (1, -1, 2):
            c0, c2 = gen[(mi, 0, sv)], gen[(mi, 2, sv)]
            why = None
            if c0["polecorner"]:
                why = "pole-corner"
            elif c0["tie"] or c2["tie"]:
                why = "tie"
            elif c0["poletouch"]:
                why = "pole-touch"
            if why:
                skipped[why] += 1
                continue
            key = tuple(c0["sgn"])
            if key in seen:
                continue
            seen.add(key)
            cases.append({"id": "%s|sv%d" % (catalog.eid(e), sv), "idx": len(cases), "entry": e, "sv": sv, "mi": mi})
    if not cases:
        raise Machinery("no static case left")
    res = pmap(record_static, cases)
    recs, errs = [], []
    for c, o in zip(cases, res):
        if "fatal" in o:
            raise Machinery("case %s: %s" % (c["id"], o["fatal"]))
        recs += o["recs"]
        errs += o["errs"]
    # TLC judges every record
    path = os.path.join(ctx.work, "poly_recs.ndjson")
    failed, unjudged = {}, {}
    CH = 6000
    for a in range(0, len(recs), CH):
        with open(path, "w") as fh:
            for rec in recs[a:a + CH]:
                fh.write(json.dumps(rec) + "\n")
        jr = ctx.tlc_ok("JudgePoly", JUDGE_CFG, what="judge %d conversion records" % len(recs[a:a + CH]), env={"REC_FILE": path},
                        workers=8, count=False, timeout=3000)
        if jr.distinct < len(recs[a:a + CH]):
            raise Machinery("JudgePoly visited %d states for %d records" % (jr.distinct, len(recs[a:a + CH])))
        for v in X.tagged_prints(jr.out, ("V", "N")):
            if v[0] == "V":
                failed[v[1]] = (set(v[2]), v[3])
            else:
                unjudged[v[1]] = v[2]
    os.remove(path)
    ctx.traces += len(recs)
    by_id = {rec["id"]: rec for rec in recs}
    n_cross = n_nocross = 0
    for c in cases:
        g0 = gen[(c["mi"], 0, c["sv"])]
        n_cross += 1 if g0["cross"] else 0
        n_nocross += 0 if g0["cross"] else 1
    if n_cross == 0 or n_nocross == 0:
        raise Machinery("static cases must include grids with and without crossing faces (%d / %d)" % (n_cross, n_nocross))
    for rec in recs:
        ctx.count(1, rec["id"] if rec["kind"] != "am" or True else None)
    for rid, (cl, facts) in sorted(failed.items()):
        rec = by_id[rid]
        rp = {"case": rid, "nodes": rec["nodes"], "faces": rec["faces"], "sgn": rec["sgn"], "failed": sorted(cl), "facts": facts,
              "observed": {k: rec[k] for k in ("rows", "data", "owner", "am", "crs_ok") if k in rec}}
        for clause in sorted(cl):
            ctx.violation(rid, clause, detail={"failed": sorted(cl), "facts": facts}, replay=rp, sig=sig_of_static(rid, clause, facts))
    for e in errs:
        ctx.violation(e["id"], "Raises", detail=e["error"], replay=e, sig=sig_of_static(e["id"], "Raises"))
    # numeric clause (Python, as the property's area statement is numeric): pieces cover the face
    n_area = 0
    for c, o in zip(cases, res):
        e = c["entry"]
        for a in o["areas"]:
            k = a["k"]
            gsv = None
            for sv in (1, -1, 2):
                if list(gen[(c["mi"], k, sv)]["sgn"]) == list(o["sgn"][k]):
                    gsv = gen[(c["mi"], k, sv)]
                    break
            if gsv is None:
                continue
            tab = o["tab"][a["system"]]
            exp = [X.expected_planar_area(f, tab, fi in gsv["cross"], fi in gsv["polein"]) for fi, f in enumerate(e["faces"])]
            if any(x is None for x in exp):
                continue
            pa = a["piece_area"]
            if a["kind"] == "gdf" and len(pa) == len(exp):
                got = [sum(r) for r in pa]
            elif a["kind"] == "poly" and a["owner"] and len(a["owner"]) == len(pa) and all(0 <= w < len(exp) for w in a["owner"]):
                got = [0.0] * len(exp)
                for w, r in zip(a["owner"], pa):
                    got[w] += sum(r)
            else:
                got, exp = [sum(sum(r) for r in pa)], [sum(exp)]
            n_area += 1
            bad = [i for i, (x, y) in enumerate(zip(got, exp)) if abs(x - y) > 1e-5 * max(abs(y), 1.0) + 1e-4]
            if bad:
                ctx.violation(a["id"], "SplitAreaCovers", detail={"faces": bad[:5], "got": [got[i] for i in bad[:5]], "expected": [exp[i] for i in bad[:5]]},
                              replay={"case": a["id"], "nodes": e["nodes"], "faces": e["faces"]}, sig=sig_of_static(a["id"], "SplitAreaCovers"))
    ctx.note("static", {"meshes": len(ents), "cases": len(cases), "records": len(recs), "with_crossers": n_cross, "without_crossers": n_nocross,
                        "skipped_by_spec": skipped, "unjudged_records": len(unjudged), "area_checks": n_area,
                        "failing_records": len(failed), "raises": len(errs)})
    for rec in recs[1:3]:
        ctx.sample({k: rec[k] for k in ("id", "kind", "pe", "k", "rows", "data") if k in rec})
    return ents, gen, cases


def run(ctx):
    rng = random.Random(ctx.seed)
    X.hux.import_ux()
    part_static(ctx, rng)
    ctx.rule = "wip"

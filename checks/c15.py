"""C15 - exported polygons and lines correspond one-to-one with faces (inputs and histories)."""

from __future__ import annotations

import json
import os
import random

from harness import catalog
from harness import x_c15 as X
from harness.core import Machinery
from harness.pool import pmap

PROP = "C15"
NAMES = ["cube", "cuboctahedron", "tetrahedron", "truncated_octahedron", "truncated_cube", "rhombicuboctahedron",
         "truncated_octahedron_split", "truncated_cube_split"]

GEN_CFG = """INIT Init
NEXT Next
INVARIANT LawPartition
INVARIANT LawParity
INVARIANT LawSigns
INVARIANT LawClosed
INVARIANT LawSignLocal
INVARIANT LawWellFormed
INVARIANT LawVisibility
INVARIANT Emit
CHECK_DEADLOCK FALSE
"""
JUDGE_CFG = "INIT Init\nNEXT Next\nINVARIANT Judge\nCHECK_DEADLOCK FALSE\n"


# ============================================================================ part 1: per-face semantics
# centres of the partial projections: integer directions in the plane y = 0 chosen so that few lattice nodes fall
# exactly on the horizon (the specification leaves those faces, and then the whole record, unjudged)
PARTIAL_QUICK = ["ortho:3,0,1", "nsper:-3,0,-1"]
PARTIAL_THOROUGH = ["ortho:3,0,1", "nsper:-3,0,-1", "ortho:-1,0,3", "ortho:1,0,-3", "nsper:1,0,3", "ortho:-3,0,1"]
PARTIAL_CUBED = ["ortho:2,0,1", "nsper:-2,0,-1"]        # odd lattice coordinates: 2x + z is never 0


def partial_variants(idx, names):
    """Conversions under projections that show only part of the sphere (NaN polygons)."""
    out = []
    for n, pn in enumerate(names):
        for pe in ("exclude", "ignore"):
            eng = ("sp", "gp")[(idx + n + len(out)) % 2]
            base = {"pe": pe, "proj": pn, "project": True, "cache": True, "override": False, "var": "a"}
            out.append(dict(base, act="DataToGdf", eng=eng))
            out.append(dict(base, act="ToGdf", eng=eng, xnan=True))
            out.append(dict(base, act="ToGdf", eng=("gp", "sp")[(idx + n) % 2], xnan=False))
            out.append(dict(base, act="DataToPoly", eng="-", ri=True))
            out.append(dict(base, act="ToLine", eng="-"))
    return out


def static_variants(idx, partial=(), reduced=False):
    """The conversions performed on a fresh grid of one case (every one on its own fresh grid)."""
    if reduced:
        # large meshes: one engine, the seam-moving projection, every periodic_elements option
        out = [{"act": "Am"}]
        for pe in X.PE:
            for pn, pj in (("none", True), ("rob180", True), ("pc180", False)):
                out.append({"act": "DataToGdf", "pe": pe, "proj": pn, "eng": ("sp", "gp")[len(out) % 2], "project": pj, "cache": True, "override": False, "var": "a"})
            for pn in ("none", "rob180"):
                out.append({"act": "DataToPoly", "pe": pe, "proj": pn, "eng": "-", "project": True, "cache": True, "override": False, "var": "a", "ri": True})
                out.append({"act": "ToLine", "pe": pe, "proj": pn, "eng": "-", "project": True, "cache": True, "override": False})
        return out + partial_variants(idx, partial)
    out = [{"act": "Am"}]
    projs = [("none", True), ("rob", True), ("rob180", True), ("rob180", False), ("pc180", True), ("pc180", False)]
    for pe in X.PE:
        for eng in ("sp", "gp"):
            for pn, pj in projs:
                # grid-only conversions are a sub-path of the data conversions; do them on a share of the cases
                act = "ToGdf" if (idx + len(out)) % 5 == 0 else "DataToGdf"
                out.append({"act": act, "pe": pe, "proj": pn, "eng": eng, "project": pj, "cache": True, "override": False, "var": "a"})
        for pn in ("none", "rob", "rob180", "pc180"):
            act = "ToPoly" if (idx + len(out)) % 5 == 0 else "DataToPoly"
            out.append({"act": act, "pe": pe, "proj": pn, "eng": "-", "project": True, "cache": True, "override": False, "var": "a", "ri": True})
            out.append({"act": "ToLine", "pe": pe, "proj": pn, "eng": "-", "project": True, "cache": True, "override": False})
    return out + partial_variants(idx, partial)


def refused(ev):
    """Combinations the implementation documents as unsupported (it raises ValueError): not judged."""
    if ev["act"] in ("ToGdf", "DataToGdf"):
        return ev["pe"] == "split" and ev["proj"] != "none" and ev.get("project", True)
    if ev["act"] in ("ToPoly", "DataToPoly"):
        return ev["pe"] == "split" and ev["proj"] != "none"
    return False


def ev_tag(ev):
    if ev["act"] == "Am":
        return "Am"
    return "%s/%s/%s/%s/p%d%s" % (ev["act"], ev["pe"], ev["proj"], ev["eng"], 1 if ev.get("project", True) else 0,
                                  "" if "xnan" not in ev else ("x1" if ev["xnan"] else "x0"))


def record_static(case):
    """One case = (catalogue entry, sign of the seam nodes).  Returns the projected records."""
    import numpy as np

    entry, sv = case["entry"], case["sv"]
    recs, errs, areas = [], [], []
    try:
        g0 = X.make_grid(entry, sv)
        lon, lat = X.recorded_lonlat(g0, entry, sv)
        T = X.Targets(entry, lon, lat)
    except Exception as e:  # noqa
        return {"id": case["id"], "fatal": "%s: %s" % (type(e).__name__, str(e)[:200])}
    base = {"nodes": entry["nodes"], "faces": entry["faces"]}
    for ev in static_variants(case["idx"], case.get("partial", ()), case.get("reduced", False)):
        rid = "%s|%s" % (case["id"], ev_tag(ev))
        try:
            g = X.make_grid(entry, sv)
            if ev["act"] == "Am":
                am = [int(x) for x in np.asarray(g.antimeridian_face_indices).ravel()]
                recs.append(dict(base, id=rid, kind="am", k=0, sgn=T.sgn[0], am=am, pe="-"))
                continue
            das = {"a": X.tracer(g, "ta")}
            obj, owner = X.call(g, das, ev)
        except Exception as e:  # noqa
            if not refused(ev):
                errs.append({"id": rid, "ev": ev, "error": "%s: %s" % (type(e).__name__, str(e)[:200]), "etype": type(e).__name__})
            continue
        kind = X.kind_of(ev["act"])
        k = X.seam_k(ev["proj"])
        pj = X.proj(ev["proj"])
        if kind == "gdf":
            system = T.system(ev["proj"], ev["project"] and pj is not None)
            crs_ok = None
        else:
            import cartopy.crs as ccrs

            tr = X.declared_crs(obj)
            shifted = ccrs.PlateCarree(central_longitude=X.cl_of(ev["proj"]))
            if pj is None or (kind == "line" and ev["pe"] == "split"):
                # coordinates are (seam-shifted) longitudes / latitudes
                system, crs_ok = T.system(ev["proj"], False), bool(tr == shifted)
            else:
                system, crs_ok = T.system(ev["proj"], True), bool(tr == pj)
        rows, data, holes = X.raw_rows(obj, kind)
        rec = dict(base, id=rid, kind=kind, pe=ev["pe"], k=k, sgn=T.sgn[k])
        if X.is_partial(system):
            rec.update(pc=X.centre_of(system), pk=system.split(":")[0], nanmode="keep" if ev.get("xnan") is False else "drop", nodenan=T.nodenan(system))
        if isinstance(owner, tuple):
            if owner[1] is not None:
                rec["nn"] = owner[1]
            owner = None
        rec["rows"] = [[T.match(p, system) for p in r] for r in rows]
        if holes:
            rec["rows"].append([[[-2, 0]]])
        if kind != "gdf" and not system.startswith("ll") and any(v[0] == -2 for r in rec["rows"] for p in r for v in p):
            # diagnosis only: the same coordinates read as seam-shifted longitudes / latitudes
            rec["rows_ll"] = [[T.match(p, T.system(ev["proj"], False)) for p in r] for r in rows]
        if kind == "line":
            rec["closed"] = [bool(len(r[0]) >= 2 and (r[0][0] == r[0][-1]).all()) for r in rows]
        if crs_ok is not None:
            rec["crs_ok"] = crs_ok
        if kind == "gdf":
            rec["frame_ok"] = type(obj).__module__.split(".")[0] == X.ENGINES[ev["eng"]]
        if ev["act"].startswith("Data"):
            col = "ta" if kind == "gdf" else "arr"
            rec["data"] = data.get(col, [])
            extra = sorted(set(data) - {col})
            if extra:
                errs.append({"id": rid, "ev": ev, "error": "unexpected data columns %s" % extra})
        if owner is not None and ev["pe"] != "ignore":
            rec["owner"] = owner
        recs.append(rec)
        # numeric clause: the pieces of a split face cover the same area of the (lon, lat) plane
        if ev["pe"] == "split" and system.startswith("ll"):
            areas.append({"id": rid, "k": k, "system": system, "kind": kind, "owner": owner,
                          "piece_area": [[X.shoelace(p) for p in r] for r in rows]})
    return {"id": case["id"], "recs": recs, "errs": errs, "areas": areas, "tab": {s: T.tab[s].tolist() for s in ("ll0", "ll180")},
            "sgn": T.sgn}


def record_accessor(case):
    """Plotting accessors (run in the parent process): grid.plot.edges / uxda.plot.polygons with the default and with
    explicit projections; the frame they hand to hvplot is captured and judged like any other GeoDataFrame."""
    entry, sv = case["entry"], case["sv"]
    g0 = X.make_grid(entry, sv)
    lon, lat = X.recorded_lonlat(g0, entry, sv)
    T = X.Targets(entry, lon, lat)
    base = {"nodes": entry["nodes"], "faces": entry["faces"]}
    recs, errs = [], []
    n = 0
    for act, pact in (("ToGdf", "PlotEdges"), ("DataToGdf", "PlotPolygons")):
        for pe in X.PE:
            for pn in ("default", "rob180", "pc180", "ortho:3,0,1"):
                n += 1
                ev = {"act": act, "pe": pe, "proj": pn, "eng": ("sp", "gp")[n % 2], "project": False, "cache": True, "override": False, "var": "a"}
                rid = "%s|%s/%s/%s/%s/p0" % (case["id"], pact, pe, pn, ev["eng"])
                try:
                    g = X.make_grid(entry, sv)
                    frame, ok = X.accessor_call(g, {"a": X.tracer(g, "ta")}, ev)
                except Exception as e:  # noqa
                    errs.append({"id": rid, "ev": ev, "error": "%s: %s" % (type(e).__name__, str(e)[:200]), "etype": type(e).__name__})
                    continue
                pname = "none" if pn == "default" else pn
                k = X.seam_k(pname)
                system = T.system(pname, False)
                rows, data, holes = X.raw_rows(frame, "gdf")
                rec = dict(base, id=rid, kind="gdf", pe=pe, k=k, sgn=T.sgn[k], args_ok=ok,
                           frame_ok=type(frame).__module__.split(".")[0] == X.ENGINES[ev["eng"]])
                rec["rows"] = [[T.match(p, system) for p in r] for r in rows]
                if act == "DataToGdf":
                    rec["data"] = data.get("ta", [])
                recs.append(rec)
    return recs, errs


KIND_OF_ACT = {"ToGdf": "gdf", "DataToGdf": "gdf", "ToPoly": "poly", "DataToPoly": "poly", "ToLine": "line", "PlotEdges": "gdf", "PlotPolygons": "gdf"}


def sig_of_static(rid, clause, facts=None, etype=None):
    """Signature of a failing conversion: the call (input description) plus the shape of the failure
    as decided by JudgePoly (facts.pattern)."""
    tag = rid.split("|")[-1].split("/")
    s = {"part": "static", "clause": clause, "act": tag[0]}
    if len(tag) >= 5:
        s.update({"kind": KIND_OF_ACT[tag[0]], "pe": tag[1], "proj": tag[2], "eng": tag[3], "projected": tag[2] != "none" and tag[4].startswith("p1"),
                  "partial": X.is_partial(tag[2]) if tag[2] != "default" else False, "accessor": tag[0].startswith("Plot")})
    if facts:
        s["crossers"] = bool(facts.get("crossers", 0))
        s["pattern"] = facts.get("pattern", "none")
    if etype:
        s["error"] = etype
    return s


def run_gen(ctx, ents, offset, what):
    mesh_file = os.path.join(ctx.work, "meshes.ndjson")
    with open(mesh_file, "w") as fh:
        for e in ents:
            fh.write(json.dumps({"name": e["name"], "rot": e["rot"], "cut": e["cut"], "nodes": e["nodes"], "faces": e["faces"], "closed": e["closed"]}) + "\n")
    r = ctx.tlc_ok("PolyGen", GEN_CFG, what="laws of CrossesAM/Kept on %d meshes (%s) x seam position x seam-node signs; emits cases" % (len(ents), what),
                   env={"MESH_FILE": mesh_file}, workers=8, timeout=1500)
    gen = {}
    for v in X.tagged_prints(r.out, ("CASE",)):
        c = v[1]
        gen[(c["mi"] + offset, c["k"], c["sv"])] = c
    if len(gen) < len(ents) * 4:
        raise Machinery("PolyGen emitted %d cases for %d meshes" % (len(gen), len(ents)))
    return gen


def part_static(ctx, rng):
    thorough = ctx.tier == "thorough"
    rots = list(range(25)) if thorough else [0, 7, 18]
    cuts = [0, 2, 3, 5] if thorough else [0, 3]
    ents = catalog.entries(name=NAMES, rot=rots, cut=cuts)
    if not thorough:
        ents = [e for i, e in enumerate(ents) if i % 2 == 0 or (e["name"].endswith("_split") and e["rot"] == 0)]
        ents += catalog.entries(name="truncated_cube_split", rot=22, cut=0)      # has a non-crossing face lying on one parallel
    elif len(ents) > 240:
        keep = [e for e in ents if e["rot"] in (0, 7, 18)]
        rest = [e for e in ents if e["rot"] not in (0, 7, 18)]
        ents = keep + rng.sample(rest, 240 - len(keep)) if len(keep) < 240 else keep
    # larger mixed meshes: cubed spheres with triangulated cells (150 / 294+ faces), proved well formed by PolyGen
    large = [X.cubed_sphere(5)] + ([X.cubed_sphere(7), X.cubed_sphere(9, split_every=4)] if thorough else [])
    ents = ents + large
    gen = run_gen(ctx, ents, 0, "catalogue + cubed spheres")
    # grids WITHOUT crossing faces: the sub-mesh of the faces the specification keeps under 'exclude'
    derived = []
    for mi, e in enumerate(ents, start=1):
        c0 = gen[(mi, 0, 1)]
        if e["cut"] == 0 and not e["name"].startswith("cubed") and not c0["polecorner"] and not c0["tie"] and len(c0["kept"]) >= 2 and len(derived) < (30 if thorough else 5):
            d = dict(e)
            d["faces"] = [e["faces"][f] for f in c0["kept"]]
            d["closed"] = False
            d["name"] = e["name"] + "~kept"
            derived.append(d)
    # ... and grids on which EVERY face crosses (nothing is kept by 'exclude'): the sub-mesh of the crossing faces
    n_all = 0
    for mi, e in enumerate(list(ents), start=1):
        c0 = gen[(mi, 0, 1)]
        if e["cut"] == 0 and not e["name"].startswith("cubed") and not c0["polecorner"] and not c0["tie"] and len(c0["cross"]) >= 2 and n_all < (12 if thorough else 2) and len(e["sizes"]) >= (2 if n_all else 1):
            d = dict(e)
            d["faces"] = [e["faces"][f] for f in sorted(c0["cross"])]
            d["closed"] = False
            d["name"] = e["name"] + "~crossing"
            derived.append(d)
            n_all += 1
    gen.update(run_gen(ctx, derived, len(ents), "sub-meshes without crossers / with crossers only"))
    ents = ents + derived
    cases, skipped = [], {"pole-corner": 0, "tie": 0, "pole-touch": 0}
    for mi, e in enumerate(ents, start=1):
        seen = set()
        for sv in (1, -1, 2):
            c0, c2 = gen[(mi, 0, sv)], gen[(mi, 2, sv)]
            why = None
            if c0["polecorner"]:
                why = "pole-corner"
            elif c0["tie"] or c2["tie"]:
                why = "tie"
            elif c0["poletouch"]:
                why = "pole-touch"
            if why:
                skipped[why] += 1
                continue
            key = tuple(c0["sgn"])
            if key in seen:
                continue
            seen.add(key)
            cases.append({"id": "%s|sv%d" % (catalog.eid(e), sv), "idx": len(cases), "entry": e, "sv": sv, "mi": mi,
                          "partial": PARTIAL_CUBED if e["name"].startswith("cubed") else (PARTIAL_THOROUGH if thorough else PARTIAL_QUICK),
                          "reduced": e["name"].startswith("cubed")})
    if not cases:
        raise Machinery("no static case left")
    import time

    t0 = time.time()
    res = pmap(record_static, cases)
    ctx.note("t_static_replay_s", round(time.time() - t0, 1))
    recs, errs = [], []
    for c, o in zip(cases, res):
        if "fatal" in o:
            raise Machinery("case %s: %s" % (c["id"], o["fatal"]))
        recs += o["recs"]
        errs += o["errs"]
    # the plotting accessors, on a few grids, in this process (hvplot initialises once)
    t0 = time.time()
    acc_cases = [c for c in cases if c["sv"] == 1 and c["entry"]["cut"] == 0 and "~" not in c["entry"]["name"] and not c["entry"]["name"].startswith("cubed")
                 and gen[(c["mi"], 0, 1)]["cross"] and len(c["entry"]["sizes"]) >= 2][: (6 if thorough else 2)]
    if not acc_cases:
        raise Machinery("no grid for the accessor records")
    X.warm_accessors(acc_cases[0]["entry"])
    n_acc = 0
    for c in acc_cases:
        r_, e_ = record_accessor(c)
        recs += r_
        errs += e_
        n_acc += len(r_) + len(e_)
    ctx.note("accessor_static", {"grids": len(acc_cases), "calls": n_acc, "t_s": round(time.time() - t0, 1)})
    # TLC judges every record
    path = os.path.join(ctx.work, "poly_recs.ndjson")
    failed, unjudged = {}, {}
    CH = 6000
    for a in range(0, len(recs), CH):
        with open(path, "w") as fh:
            for rec in recs[a:a + CH]:
                fh.write(json.dumps(rec) + "\n")
        jr = ctx.tlc_ok("JudgePoly", JUDGE_CFG, what="judge %d conversion records" % len(recs[a:a + CH]), env={"REC_FILE": path},
                        workers=8, count=False, timeout=3000)
        if jr.distinct < len(recs[a:a + CH]):
            raise Machinery("JudgePoly visited %d states for %d records" % (jr.distinct, len(recs[a:a + CH])))
        for v in X.tagged_prints(jr.out, ("V", "N")):
            if v[0] == "V":
                failed[v[1]] = (set(v[2]), v[3])
            else:
                unjudged[v[1]] = v[2]
    os.remove(path)
    ctx.traces += len(recs)
    by_id = {rec["id"]: rec for rec in recs}
    n_cross = n_nocross = 0
    for c in cases:
        g0 = gen[(c["mi"], 0, c["sv"])]
        n_cross += 1 if g0["cross"] else 0
        n_nocross += 0 if g0["cross"] else 1
    n_flat = sum(1 for c in cases if set(gen[(c["mi"], 0, c["sv"])]["flat"]) - set(gen[(c["mi"], 0, c["sv"])]["cross"]))
    n_none = sum(1 for c in cases if not gen[(c["mi"], 0, c["sv"])]["kept"])
    if n_flat == 0 or n_none == 0:
        raise Machinery("static cases must include a non-crossing face on one parallel (%d) and a grid on which every face crosses (%d)" % (n_flat, n_none))
    if n_cross == 0 or n_nocross == 0:
        raise Machinery("static cases must include grids with and without crossing faces (%d / %d)" % (n_cross, n_nocross))
    for rec in recs:
        ctx.count(1, rec["id"] if rec["kind"] != "am" or True else None)
    for rid, (cl, facts) in sorted(failed.items()):
        rec = by_id[rid]
        rp = {"case": rid, "nodes": rec["nodes"], "faces": rec["faces"], "sgn": rec["sgn"], "failed": sorted(cl), "facts": facts,
              "observed": {k: rec[k] for k in ("rows", "data", "owner", "am", "crs_ok") if k in rec}}
        for clause in sorted(cl):
            ctx.violation(rid, clause, detail={"failed": sorted(cl), "facts": facts}, replay=rp, sig=sig_of_static(rid, clause, facts))
    case_of = {c["id"]: c for c in cases}
    for e in errs:
        sg = sig_of_static(e["id"], "Raises", etype=e.get("etype"))
        c = case_of[e["id"].rsplit("|", 1)[0]]
        gk = gen[(c["mi"], X.seam_k(e["ev"].get("proj", "none").replace("default", "none")), c["sv"])]
        # decided by the specification: a face that does NOT cross the seam and whose corners lie on one parallel
        sg["flat_noncrossing_face"] = bool(set(gk["flat"]) - set(gk["cross"]))
        sg["none_kept"] = len(gk["kept"]) == 0          # every face crosses the seam (decided by the specification)
        ctx.violation(e["id"], "Raises", detail=e["error"], replay=e, sig=sg)
    # numeric clause (Python, as the property's area statement is numeric): pieces cover the face
    n_area = 0
    for c, o in zip(cases, res):
        e = c["entry"]
        for a in o["areas"]:
            k = a["k"]
            gsv = None
            for sv in (1, -1, 2):
                if list(gen[(c["mi"], k, sv)]["sgn"]) == list(o["sgn"][k]):
                    gsv = gen[(c["mi"], k, sv)]
                    break
            if gsv is None:
                continue
            tab = o["tab"][a["system"]]
            exps = [[X.expected_planar_area(f, e["nodes"], tab, k, fi in gsv["polein"], gc) for fi, f in enumerate(e["faces"])] for gc in (True, False)]
            if any(x is None for ex in exps for x in ex):
                continue
            pa = a["piece_area"]
            if a["kind"] == "gdf" and len(pa) == len(exps[0]):
                got = [sum(r) for r in pa]
                exps = exps
            elif a["kind"] == "poly" and a["owner"] and len(a["owner"]) == len(pa) and all(0 <= w < len(exps[0]) for w in a["owner"]):
                got = [0.0] * len(exps[0])
                for w, r in zip(a["owner"], pa):
                    got[w] += sum(r)
            else:
                got, exps = [sum(sum(r) for r in pa)], [[sum(ex)] for ex in exps]
            n_area += 1
            # either convention for the cut points is a legitimate reading of "cover the same face"
            bad = [i for i in range(len(got)) if all(abs(got[i] - ex[i]) > 2e-5 * max(abs(ex[i]), 1.0) + 1e-3 for ex in exps)]
            if bad:
                ctx.violation(a["id"], "SplitAreaCovers", detail={"faces": bad[:5], "got": [got[i] for i in bad[:5]], "expected": [[ex[i] for ex in exps] for i in bad[:5]]},
                              replay={"case": a["id"], "nodes": e["nodes"], "faces": e["faces"]}, sig=sig_of_static(a["id"], "SplitAreaCovers"))
    import collections

    why = collections.Counter(unjudged.values())
    n_partial = sum(1 for rec in recs if "pc" in rec and rec["id"] not in unjudged)
    n_large = sum(1 for rec in recs if rec["id"].startswith("cubed") and rec["id"] not in unjudged)
    if n_partial < 50 or n_large < 20:
        raise Machinery("too few judged records under partial projections (%d) or on large meshes (%d)" % (n_partial, n_large))
    ctx.note("static_partial", {"judged_records_partial_projection": n_partial, "judged_records_large_mesh": n_large, "unjudged_reasons": dict(why),
                                "large_meshes": ["%s: %d faces" % (e["name"], len(e["faces"])) for e in ents if e["name"].startswith("cubed")]})
    ctx.note("static", {"meshes": len(ents), "cases": len(cases), "records": len(recs), "with_crossers": n_cross, "without_crossers": n_nocross, "every_face_crosses": n_none, "flat_noncrossing_face": n_flat,
                        "skipped_by_spec": skipped, "unjudged_records": len(unjudged), "area_checks": n_area,
                        "failing_records": len(failed), "raises": len(errs)})
    for rec in recs[1:3]:
        ctx.sample({k: rec[k] for k in ("id", "kind", "pe", "k", "rows", "data") if k in rec})
    return ents, gen, cases


# ============================================================================ part 2: histories
def pc_cfg(mech, proj, eng, projects, flags, kinds, maxlen, edit, keep, emitfrom, invs, pe=None, vars_=("ta", "tb"), emitmod=1, ris=("TRUE", "FALSE")):
    S = lambda xs: "{%s}" % ", ".join('"%s"' % x for x in xs)  # noqa: E731
    return (
        "SPECIFICATION Spec\nCONSTANTS\n PE = %s\n PROJ = %s\n ENG = %s\n PROJECTS = {%s}\n FLAGS <- %s\n VARS = %s\n KINDS = %s\n"
        " MaxLen = %d\n Mech <- %s\n AllowEdit = %s\n KeepHist = %s\n EmitFrom = %d\n EmitMod = %d\n RIS = {%s}\n%sCHECK_DEADLOCK FALSE\n"
        % (S(pe or X.PE), S(proj), S(eng), ", ".join(projects), flags, S(vars_), S(kinds), maxlen, mech,
           "TRUE" if edit else "FALSE", "TRUE" if keep else "FALSE", emitfrom, emitmod, ", ".join(ris), "".join("INVARIANT %s\n" % i for i in invs))
    )


def gen_histories(ctx, what, **kw):
    """Histories emitted by TLC from PlotCache(MechObserved): list of (events, predicted bad sets per step)."""
    sim = kw.pop("simulate", None)
    depth = kw.pop("depth", None)
    # the histories are the same whatever the mechanism; MechHistoric (every repaired choice at once) only ranks them:
    # TracePlot recomputes what MechObserved predicts for each recorded trace
    cfg = pc_cfg("MechHistoric", keep=True, invs=["TypeOK", "Emit"], **kw)
    extra = {}
    if sim:
        extra = {"simulate": sim, "depth": depth, "seed": ctx.seed + 7}
    r = ctx.tlc_ok("PlotCache", cfg, what=what, workers=2 if sim else 8, timeout=1500, count=not sim, **extra)
    E = X.tagged_prints(r.out, ("E",))
    if len(E) != 1:
        raise Machinery("PlotCache emitted %d alphabets" % len(E))
    alpha = [dict(e) for e in E[0][1]]
    out = []
    for h in X.tagged_prints(r.out, ("H",)):
        evs = []
        for i in h[1]:
            if i > 0:
                evs.append(alpha[i - 1])
            else:
                evs.append({"act": "Edit", "pe": "-", "proj": "-", "eng": "-", "project": True, "cache": False, "override": False, "var": "-", "target": -i, "ri": False})
        out.append((evs, [sorted(b) for b in h[2]]))
    return out, len(alpha)


def hist_key(evs):
    return "/".join(
        "E%d" % e["target"] if e["act"] == "Edit" else
        "%s%s:%s:%s:%s:%s%s%s%s:%s" % ("plot." if e.get("via") else "", e["act"], e["pe"], e["proj"], e["eng"], "P" if e["project"] else "p",
                                         "C" if e["cache"] else "c", "O" if e["override"] else "o", "I" if e.get("ri") else "", e["var"])
        for e in evs)


def via_accessor(evs):
    """The same history with every conversion the plotting accessors can express (GeoDataFrame, project=False, cache=True,
    override=False, a projection) made through grid.plot.edges / uxda.plot.polygons; None if there is none."""
    out, n = [], 0
    for e in evs:
        if e["act"] in ("ToGdf", "DataToGdf") and not e["project"] and e["cache"] and not e["override"] and e["proj"] != "none":
            out.append(dict(e, via="accessor"))
            n += 1
        else:
            out.append(e)
    return out if n else None


def part_history(ctx, rng, ents, gen, cases):
    thorough = ctx.tier == "thorough"
    # -- 1. the lazy design can meet the property: PlotCache(MechIntended) satisfies the clauses
    full = dict(proj=["none", "rob", "rob180"], eng=["sp", "gp"], projects=["TRUE", "FALSE"], flags="FlagsAll", kinds=["gdf", "poly", "line"])
    ctx.tlc_ok("PlotCache", pc_cfg("MechIntended", maxlen=2, edit=True, keep=False, emitfrom=9, invs=["TypeOK", "NoBad", "EntryCoherent", "NoAliasing"], **full),
               what="PlotCache(MechIntended): clauses hold on all histories of length <= 2 over the full argument domains (with caller edits)", workers=8, timeout=1500)
    inv4 = ["TypeOK", "NoBad", "EntryCoherent", "NoAliasing"]
    small = dict(proj=["none", "rob180"], eng=["sp"], projects=["TRUE"], flags="FlagsTwo", kinds=["gdf", "poly", "line"])
    ctx.tlc_ok("PlotCache", pc_cfg("MechIntended", maxlen=3, edit=True, keep=False, emitfrom=9, invs=inv4, **small),
               what="PlotCache(MechIntended): clauses hold on all histories of length <= 3 across the three families (seam-moving projection)", workers=8, timeout=1500)
    if thorough:
        # the three caches do not interact (checked above to depth 3), so deeper / wider exploration is done per family
        ctx.tlc_ok("PlotCache", pc_cfg("MechIntended", maxlen=3, edit=True, keep=False, emitfrom=9, invs=inv4, proj=["none", "rob", "rob180"], eng=["sp", "gp"],
                                        projects=["TRUE", "FALSE"], flags="FlagsThree", kinds=["gdf"]),
                   what="PlotCache(MechIntended), GeoDataFrame family: length <= 3 over the full argument domains", workers=8, timeout=1500)
        for fam, fl in (("gdf", "FlagsTwo"), ("poly", "FlagsTwo"), ("line", "FlagsThree")):
            ctx.tlc_ok("PlotCache", pc_cfg("MechIntended", maxlen=4, edit=True, keep=False, emitfrom=9, invs=inv4, proj=["none", "rob180"], eng=["sp"],
                                            projects=["TRUE"], flags=fl, kinds=[fam]),
                       what="PlotCache(MechIntended), %s family: length <= 4" % fam, workers=8, timeout=1500)
    # the machine distinguishes the mechanisms: the observed one and the pre-5278ad57 line cache break the clauses
    for mech, kinds in (("MechObserved", ["gdf", "poly", "line"]), ("MechLinesOld", ["line"]), ("MechDataInCache", ["gdf"]), ("MechLineAliased", ["line"]),
                        ("MechSideLast", ["gdf", "poly"]), ("MechKeyNoProject", ["gdf"]), ("MechPolyCachedOnIndices", ["poly"])):
        r = ctx.tlc("PlotCache", pc_cfg(mech, maxlen=3, edit=(mech in ("MechObserved", "MechLineAliased")), keep=False, emitfrom=9, invs=["NoBad"],
                                        proj=["none", "rob180"], eng=["sp"], projects=["TRUE", "FALSE"] if mech == "MechKeyNoProject" else ["TRUE"],
                                        flags="FlagsTwo", kinds=kinds),
                    what="PlotCache(%s) violates NoBad (expected counterexample)" % mech, workers=4, timeout=600, count=False)
        if r.violated != "NoBad":
            raise Machinery("PlotCache(%s) was expected to violate NoBad, got %s" % (mech, r.violated))
    # -- 2. histories generated by TLC from the observed mechanism, with the predicted failures
    hists = {}

    def add(hs, cap_clean=None):
        """all ranked-bad histories (per stratum at most cap_clean // 8 when a cap is given), a sample of the clean ones"""
        clean, strata = [], {}
        for evs, bads in hs:
            k = hist_key(evs)
            if k in hists:
                continue
            if cap_clean is None:
                hists[k] = (evs, bads)
            elif not any(bads[-1:]):
                clean.append((k, evs, bads))
            else:
                strata.setdefault((evs[-1]["act"], tuple(bads[-1])), []).append((k, evs, bads))
        if cap_clean is not None:
            if cap_clean < len(clean):
                clean = rng.sample(clean, cap_clean)
            for sk in sorted(strata):
                grp = strata[sk]
                clean += grp if len(grp) <= cap_clean // 8 else rng.sample(grp, cap_clean // 8)
            for k, evs, bads in clean:
                hists[k] = (evs, bads)

    n_alpha = {}
    if thorough:
        hs, n_alpha["pairs"] = gen_histories(ctx, "all histories of length <= 2, three families, full argument domains", maxlen=2, edit=True, emitfrom=1,
                                             proj=["none", "rob", "rob180"], eng=["sp", "gp"], projects=["TRUE", "FALSE"], flags="FlagsTwo", kinds=["gdf", "poly", "line"])
        add(hs)
        hs, n_alpha["gdf3"] = gen_histories(ctx, "GeoDataFrame family, all histories of length 3", maxlen=3, edit=True, emitfrom=3,
                                            proj=["none", "rob180", "ortho"], eng=["sp"], projects=["TRUE"], flags="FlagsTwo", kinds=["gdf"], vars_=("ta", "tb", "tc"), emitmod=8)
        add(hs, cap_clean=25000)
        hs, n_alpha["gdf3p"] = gen_histories(ctx, "GeoDataFrame family with project=False, one engine, length 3", maxlen=3, edit=False, emitfrom=3,
                                             proj=["rob", "rob180"], eng=["sp"], projects=["TRUE", "FALSE"], flags="FlagsTwo", kinds=["gdf"], pe=["exclude", "ignore"], vars_=("ta",))
        add(hs, cap_clean=8000)
        hs, n_alpha["poly3"] = gen_histories(ctx, "PolyCollection family, all histories of length 3", maxlen=3, edit=True, emitfrom=3,
                                             proj=["none", "rob180"], eng=["sp"], projects=["TRUE"], flags="FlagsTwo", kinds=["poly"], vars_=("ta", "tb", "tc"), emitmod=4)
        add(hs, cap_clean=25000)
        for fam in ("gdf", "poly"):
            hs, n_alpha[fam + "4"] = gen_histories(ctx, "%s family, grid- and data-level conversions of three variables over ONE cache key, all histories of length 4" % fam,
                                                   maxlen=4, edit=False, emitfrom=4, proj=["none"], eng=["sp"], projects=["TRUE"], flags="FlagsTwo", kinds=[fam],
                                                   pe=["exclude"], vars_=("ta", "tb", "tc"))
            add(hs, cap_clean=6000)
        hs, n_alpha["line3"] = gen_histories(ctx, "LineCollection family, all histories of length 3", maxlen=3, edit=True, emitfrom=3,
                                             proj=["none", "pc180", "rob180"], eng=["sp"], projects=["TRUE"], flags="FlagsThree", kinds=["line"])
        add(hs)
        nsim = 2000
    else:
        hs, n_alpha["pairs"] = gen_histories(ctx, "all histories of length <= 2, three families", maxlen=2, edit=True, emitfrom=1,
                                             proj=["none", "rob180", "ortho"], eng=["sp", "gp"], projects=["TRUE"], flags="FlagsTwo", kinds=["gdf", "poly", "line"])
        add(hs)
        hs, n_alpha["pairs_p"] = gen_histories(ctx, "GeoDataFrame pairs with project=False", maxlen=2, edit=False, emitfrom=2,
                                               proj=["rob180"], eng=["sp"], projects=["TRUE", "FALSE"], flags="FlagsTwo", kinds=["gdf"], pe=["exclude", "ignore"], vars_=("ta",))
        add(hs)
        hs, n_alpha["gdf3"] = gen_histories(ctx, "GeoDataFrame family, histories of length 3 (one engine)", maxlen=3, edit=True, emitfrom=3,
                                            proj=["none", "rob180"], eng=["sp"], projects=["TRUE"], flags="FlagsTwo", kinds=["gdf"], vars_=("ta", "tb", "tc"), emitmod=20)
        add(hs, cap_clean=1200)
        hs, n_alpha["poly3"] = gen_histories(ctx, "PolyCollection family, histories of length 3", maxlen=3, edit=True, emitfrom=3,
                                             proj=["none", "ortho"], eng=["sp"], projects=["TRUE"], flags="FlagsTwo", kinds=["poly"], vars_=("ta", "tb", "tc"), emitmod=40)
        add(hs, cap_clean=1200)
        for fam in ("gdf", "poly"):
            hs, n_alpha[fam + "4"] = gen_histories(ctx, "%s family, grid- and data-level conversions of three variables over ONE cache key, histories of length 4" % fam,
                                                   maxlen=4, edit=False, emitfrom=4, proj=["none"], eng=["sp"], projects=["TRUE"], flags="FlagsTwo", kinds=[fam],
                                                   pe=["split" if fam == "poly" else "exclude"], vars_=("ta", "tb", "tc"), emitmod=8)
            add(hs, cap_clean=400)
        hs, n_alpha["line3"] = gen_histories(ctx, "LineCollection family, all histories of length 3", maxlen=3, edit=True, emitfrom=3,
                                             proj=["none", "pc180"], eng=["sp"], projects=["TRUE"], flags="FlagsThree", kinds=["line"])
        add(hs)
        nsim = 120
    # histories in which the plotting accessors make the conversions they can express
    hs, n_alpha["accessor"] = gen_histories(ctx, "GeoDataFrame pairs with project=False, routed through the plotting accessors", maxlen=2, edit=False, emitfrom=1,
                                            proj=["rob180"], eng=["sp"], projects=["TRUE", "FALSE"], flags="FlagsTwo", kinds=["gdf"], vars_=("ta",))
    acc = [(via_accessor(evs), bads) for evs, bads in hs]
    acc = [(evs, bads) for evs, bads in acc if evs is not None]
    acc.sort(key=lambda h: hist_key(h[0]))
    if not thorough and len(acc) > 150:
        acc = rng.sample(acc, 150)
    acc_keys = set()
    for evs, bads in acc:
        hists[hist_key(evs)] = (evs, bads)
        acc_keys.add(hist_key(evs))
    hs, _ = gen_histories(ctx, "random behaviours of length 5 (-simulate)", maxlen=5, edit=True, emitfrom=5, simulate="num=%d" % (nsim // 2), depth=6,
                          proj=["none", "rob", "rob180"] if thorough else ["none", "rob180"], eng=["sp", "gp"], projects=["TRUE", "FALSE"],
                          flags="FlagsThree" if thorough else "FlagsTwo", kinds=["gdf", "poly", "line"])
    hs.sort(key=lambda h: hist_key(h[0]))
    add(hs if len(hs) <= nsim else rng.sample(hs, nsim))
    if not thorough:
        # keep the quick tier inside its budget: all predicted failures of length <= 2, a sample of the rest
        keys = sorted(hists)
        pred = [k for k in keys if any(hists[k][1])]
        rest = [k for k in keys if not any(hists[k][1])]
        # stratified: per (kind of the failing call, clauses, length) so that every past mechanism stays represented
        strata = {}
        for k in pred:
            evs, bads = hists[k]
            q = max(i for i, b in enumerate(bads) if b)
            strata.setdefault((evs[q]["act"], tuple(bads[q]), len(evs)), []).append(k)
        keep = set()
        for sk in sorted(strata):
            keep |= set(rng.sample(strata[sk], min(len(strata[sk]), 120)))
        keep |= set(rng.sample(rest, min(len(rest), 1500)))

        def sandwich(evs):
            # conversion; the caller edits what it got; the same conversion again (a cache hit if anything is cached)
            return (len(evs) == 3 and evs[1]["act"] == "Edit" and evs[0]["act"] != "Edit" and evs[2]["act"] != "Edit"
                    and X.kind_of(evs[0]["act"]) == X.kind_of(evs[2]["act"])
                    and all(evs[0][f] == evs[2][f] for f in ("pe", "proj", "eng", "project")) and evs[0]["cache"] and not evs[2]["override"])

        keep |= {k for k in keys if sandwich(hists[k][0])}
        keep |= acc_keys
        hists = {k: hists[k] for k in keys if k in keep}
    # -- 3. replay on real grids (with crossing faces under both seam positions)
    pool = []
    for c in cases:
        e = c["entry"]
        if c["sv"] != 1 or e["cut"] != 0 or "~" in e["name"] or len(e["sizes"]) < 2 or e["name"].startswith("cubed"):
            continue
        c0, c2 = gen[(c["mi"], 0, 1)], gen[(c["mi"], 2, 1)]
        if c0["cross"] and c2["cross"] and set(c0["cross"]) != set(c2["cross"]) and len(c0["kept"]) >= 2 and len(c2["kept"]) >= 2:
            pool.append(e)
    if len(pool) < 2:
        raise Machinery("no mixed-size grid with crossers under both seam positions")
    pool = [pool[0], pool[len(pool) // 2]]
    X.HIST["entries"] = pool
    keys = sorted(hists)
    jobs = [{"id": "h%d" % n, "mesh": n % len(pool), "events": hists[k][0]} for n, k in enumerate(keys)]
    refs = {}
    for m, e in enumerate(pool):
        for k in keys:
            for ev in hists[k][0]:
                if ev["act"] != "Edit" and (m, X.ref_key(ev)) not in refs:
                    refs[(m, X.ref_key(ev))] = X.fresh_reference(e, ev)
    import time

    t0 = time.time()
    par = [j for j in jobs if not any(e.get("via") for e in j["events"])]
    seq = [j for j in jobs if any(e.get("via") for e in j["events"])]
    done = {j["id"]: r for j, r in zip(par, pmap(X.replay_trace, par))}
    X.warm_accessors(pool[0])
    for j in seq:                      # accessor histories: in this process (hvplot is initialised once)
        done[j["id"]] = X.replay_trace(j)
    res = [done[j["id"]] for j in jobs]
    ctx.note("t_history_replay_s", round(time.time() - t0, 1))
    ctx.note("accessor_histories", len(seq))
    cls = {}

    def cid(d):
        return cls.setdefault(d, len(cls) + 1)

    # -- 4. TLC validates the recorded traces against the ideal and explains failures by the observed mechanism
    verdicts, drift = [], []
    CH = 30000
    path = os.path.join(ctx.work, "traces.ndjson")
    edit_errs = []
    for a in range(0, len(jobs), CH):
        with open(path, "w") as fh:
            for job, tr in zip(jobs[a:a + CH], res[a:a + CH]):
                steps = []
                for ev, st in zip(job["events"], tr["steps"]):
                    if ev["act"] == "Edit":
                        rx, rg, rc = False, 0, []
                        if st["err"]:
                            edit_errs.append((job["id"], st["err"]))
                    else:
                        rf = refs[(job["mesh"], X.ref_key(ev))]
                        rx, rg, rc = rf[0], (cid(rf[1]) if not rf[0] else 0), [[n, cid(d)] for n, d in sorted(rf[2].items())]
                    step = {"ev": {k: v for k, v in ev.items() if k != "via"}, "x": st["x"], "rx": rx, "r": st["r"], "rg": rg, "rc": rc,
                            "o": [{"g": cid(g), "c": [[n, cid(d)] for n, d in sorted(c.items())]} for g, c in st["o"]]}
                    if "argok" in st:
                        step["argok"] = st["argok"]
                    steps.append(step)
                fh.write(json.dumps({"id": job["id"], "check_drift": True, "steps": steps}) + "\n")
        jr = ctx.tlc_ok("TracePlot", JUDGE_CFG, what="validate %d recorded histories against the ideal; explain failures by MechObserved" % len(jobs[a:a + CH]),
                        env={"TRACE_FILE": path}, workers=8, count=False, timeout=3000)
        if jr.distinct < len(jobs[a:a + CH]):
            raise Machinery("TracePlot visited %d states for %d traces" % (jr.distinct, len(jobs[a:a + CH])))
        for v in X.tagged_prints(jr.out, ("V", "D")):
            (verdicts if v[0] == "V" else drift).append(v)
    os.remove(path)
    if edit_errs:
        raise Machinery("caller edit failed in the harness: %s" % (edit_errs[:2],))
    ctx.traces += len(jobs)
    by_id = {j["id"]: j for j in jobs}
    tr_of = {t["id"]: t for t in res}
    n_fail = 0
    for _, tid, q, clause, expl in verdicts:
        job = by_id[tid]
        ev = job["events"][q - 1]
        kind = "edit" if ev["act"] == "Edit" else X.kind_of(ev["act"])
        n_fail += 1
        ctx.violation("hist:" + hist_key(job["events"][:q]), clause,
                      detail={"step": q, "explained_by": expl, "mesh": catalog.eid(pool[job["mesh"]]), "errors": [s["err"] for s in tr_of[tid]["steps"][:q]]},
                      replay={"mesh": catalog.eid(pool[job["mesh"]]), "events": job["events"][:q], "observed": tr_of[tid]["steps"][:q]},
                      sig={"part": "history", "kind": kind, "explained_by": expl})
    for job in jobs:
        ctx.count(1, hist_key(job["events"]) if len(job["events"]) >= 2 else None)
    pred_total = sum(1 for k in keys for b in hists[k][1] if b)
    ctx.note("history", {"alphabet_sizes": n_alpha, "histories_replayed": len(jobs), "steps": sum(len(j["events"]) for j in jobs),
                         "by_length": {str(n): sum(1 for j in jobs if len(j["events"]) == n) for n in (1, 2, 3, 4, 5)},
                         "failing_step_clauses": n_fail, "steps_ranked_bad_by_MechHistoric": pred_total,
                         "model_drift_predicted_but_not_observed": len(drift), "meshes": [catalog.eid(e) for e in pool],
                         "distinct_object_classes": len(cls)})
    if drift:
        print("MODEL-DRIFT: %d step/clause pairs predicted by MechObserved were not shown by the code, e.g. %s" % (len(drift), drift[:2]))
    for job in jobs[:1] + jobs[len(jobs) // 2: len(jobs) // 2 + 1]:
        ctx.sample({"history": hist_key(job["events"]), "observed": tr_of[job["id"]]["steps"]})


def run(ctx):
    rng = random.Random(ctx.seed)
    X.hux.import_ux()
    ents, gen, cases = part_static(ctx, rng)
    part_history(ctx, rng, ents, gen, cases)
    ctx.rule = (
        "Part 1: TLC (PolyGen.tla) checks the laws of the exact crossing definition (PolyCases.tla) on catalogue meshes x seam position x "
        "seam-node signs and emits the cases; each case is converted on fresh real grids under every periodic_elements x engine x projection x "
        "project option with tracer data, every exported vertex is matched to a node id (float32 tolerance, cartopy applied by the harness to the "
        "exact corners) and TLC (JudgePoly.tla) judges every record.  Part 2: TLC model-checks the cache machine PlotCache(MechIntended), emits "
        "all histories of the tier's bound from PlotCache(MechObserved) with predicted failures; each history is replayed step by step on a real "
        "grid, all returned objects re-projected after every step, and TLC (TracePlot.tla) validates the trace against the ideal and explains "
        "failures by mechanism knobs.  Non-trivial = a conversion record, or a history of >= 2 steps (distinct argument sequences)."
    )
    ctx.exhaustive = False
    ctx.assumptions += [
        "TLC's evaluator and the CommunityModules Json reader",
        "cartopy's transform_points is trusted as a function (expected coordinates are cartopy applied to the exact corners); what is checked is its use",
        "vertex -> node id matching with 4 * 2^-23 relative tolerance (float32 shells), longitudes modulo 360; +180/-180 of a seam node is an input",
        "history part compares bitwise digests with what a fresh grid returns for the same arguments (same code, same process configuration)",
        "split + projection is documented as unsupported (ValueError) and is not judged; meshes with a pole corner or a tie edge are excluded by the specification",
        "the SplitAreaCovers clause and the choice of area formula inputs are numeric (harness), every other verdict is TLC's",
    ]

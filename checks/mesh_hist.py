"""C02 / C03 beyond "a fresh Grid.from_topology read in a fixed order":

 * observation ORDER   - MeshOrder.tla: the lazy grid by value; TLC proves the intended mechanism order
                         independent / coherent / dims = shapes, refutes the named variants, and generates the
                         orders (all permutations of the property's core observables, -simulate over all 15)
 * SUPPLIED tables     - MeshSources.tla / MeshSrcGen.tla: TLC writes the edge table (keyed row order, flipped
                         ends), face_edge / edge_face / face_face / node_face a source supplies, certifies the
                         bundle well-formed; constructor routes from_topology, open_grid(dict), UGRID dataset
 * SELECTED grids      - isel(n_face / n_node / n_edge) after a prefix of observations on the source
 * MPAS-shaped sources - the mesh as an MPAS file stores it, padding / slot conventions as parameters

Every history is replayed on a real grid (harness/x_c0203.py) and judged by TLC (JudgeMeshHist.tla).
"""

from __future__ import annotations

import json
import os
import random

from checks import mesh_common as mc
from harness import catalog, lattice, meshgen
from harness import x_c0203 as X
from harness.core import Machinery
from harness.pool import pmap

SCENARIOS = ["fan", "wide", "supE", "supEF", "supAll", "tetra"]
VARIANTS = ["widthFromSizes", "rankNotRow", "replaceEdges", "sliceRemapsEdgeFace"]
PROPS_OF_MODEL = ["TypeOK", "SourceWellFormed", "Coherent", "SuppliedKept", "OrderIndependent", "DimsAreShapes"]

# which property a clause of JudgeMeshHist belongs to
C02_OBS = {"fn", "en", "fe", "npf", "n_edge", "n_max_face_edges", "n_max_face_nodes", "n_node", "n_face"}
C03_OBS = {"nf", "ef", "ff", "holes", "n_max_node_faces", "n_max_face_faces"}
C02_CLAUSES = {
    "FaceNodesKept", "NodesPerFace", "EdgeRowsWellShaped", "EdgeNoneMissing", "EdgeNoneExtra", "EdgeNoDuplicates",
    "SuppliedEdgesKept", "EdgeCount", "FaceEdgeShape", "FaceEdgePadding", "FaceEdgeJoins", "FaceEdgeWidth",
    "MaxFaceNodes", "NodeCount", "FaceCount", "Euler",
}
C03_CLAUSES = {
    "NodeFaceShape", "NodeFaceMembers", "NodeFacePadding", "MaxNodeFaces", "EdgeFaceShape", "EdgeFaceMembers",
    "EdgeFacePadding", "FaceFaceCounts", "FaceFacePadding", "HoleEdges",
}


# the judge's diagnoses (JudgeMeshHist!Diag) and the clause each belongs to
DIAG_OF = {"FaceEdgeJoins": "FaceEdgeBeforeCorner", "FaceFacePadding": "FaceFaceGaps", "NodeFacePadding": "NodeFaceGaps",
           "EdgeFacePadding": "EdgeFaceGaps", "HoleEdges": "HolesFromSecondSlot"}


def clause_prop(clause):
    if clause in C02_CLAUSES:
        return "C02"
    if clause in C03_CLAUSES:
        return "C03"
    if clause.startswith("Stable("):
        return "C02" if clause[7:-1] in C02_OBS else "C03"
    if "=shape(" in clause:
        dim, tbl = clause[:-1].split("=shape(")
        return "C03" if (tbl in ("nf", "ff", "ef")) else "C02"
    return None  # StdTypes, Raises: decided by the caller


# ----------------------------------------------------------------------------- model
def order_cfg(scns, mech, obs="all", select=True, maxpre=99, track=False, invs=PROPS_OF_MODEL, dual=True):
    return (
        "INIT Init\nNEXT Next\nCONSTANTS\n Scns = {%s}\n Mech = \"%s\"\n ObsName = \"%s\"\n WithSelect = %s\n WithDual = %s\n MaxPre = %d\n TrackHist = %s\n"
        % (",".join('"%s"' % s for s in scns), mech, obs, "TRUE" if select else "FALSE", "TRUE" if dual else "FALSE", maxpre, "TRUE" if track else "FALSE")
        + "".join("INVARIANT %s\n" % i for i in invs)
        + "CHECK_DEADLOCK FALSE\n"
    )


def model_check(ctx):
    """MechIntended satisfies the four properties on every reachable store of every scenario, before and
    after every selection; each variant mechanism is refuted."""
    r = ctx.tlc_ok(
        "MeshOrder",
        order_cfg(SCENARIOS, "intended"),
        what="lazy grid by value: OrderIndependent, DimsAreShapes, Coherent, SuppliedKept over every reachable store, 6 scenarios, selections after any observations",
        workers=4,
        timeout=900,
    )
    proved = r.distinct
    refuted = {}
    for v in VARIANTS:
        rv = ctx.tlc("MeshOrder", order_cfg(SCENARIOS, v), what="variant mechanism %s must be refuted" % v, workers=1, count=False, timeout=900)
        if rv.ok or rv.violated not in ("Coherent", "SuppliedKept", "OrderIndependent", "DimsAreShapes"):
            raise Machinery("MeshOrder: variant mechanism %s was not refuted (ok=%s violated=%s)\n%s" % (v, rv.ok, rv.violated, rv.out[-3000:]))
        refuted[v] = rv.violated
    ctx.note("meshorder_states_intended", proved)
    ctx.note("meshorder_variants_refuted", refuted)
    return proved, refuted


def gen_orders(ctx, obs, select=False, maxpre=0, simulate=None, seed=None, scn="fan", dual=False):
    """Histories from MeshOrder with the order in the state: every permutation of the observables (model
    checking mode) or random behaviours (-simulate).  -> list of [[kind, arg], ...]"""
    kw = {}
    if simulate:
        kw = dict(simulate="num=%d" % simulate, depth=60, seed=seed)
    r = ctx.tlc_ok(
        "MeshOrder",
        order_cfg([scn], "intended", obs=obs, select=select, maxpre=maxpre, track=True, invs=["Emit"], dual=dual),
        what="observation orders over %s%s%s%s" % (obs, " with a selection" if select else "", " then the dual" if dual else "", " (-simulate %d)" % simulate if simulate else " (all permutations)"),
        workers=4,
        count=not simulate,
        timeout=900,
        **kw,
    )
    hs = set()
    for p in r.prints:
        if isinstance(p, tuple) and len(p) == 2 and p[0] == "H":
            hs.add(tuple((str(s[0]), str(s[1])) for s in p[1]))
    if not hs:
        raise Machinery("MeshOrder generated no history (%s)\n%s" % (obs, r.out[-2000:]))
    return [[list(s) for s in h] for h in sorted(hs)]


# ----------------------------------------------------------------------------- sources (TLC writes them)
def _plain(v):
    if isinstance(v, dict):
        return {str(k): _plain(x) for k, x in v.items()}
    if isinstance(v, (tuple, list)):
        return [_plain(x) for x in v]
    if isinstance(v, bool) or isinstance(v, int):
        return v
    return str(v)


def build_sources(ctx, reqs):
    """reqs: list of request dicts (MeshSrcGen.tla) -> {id: source record}; every bundle certified well-formed."""
    out = {}
    BATCH = 4000
    for b0 in range(0, len(reqs), BATCH):
        part = reqs[b0 : b0 + BATCH]
        path = os.path.join(ctx.work, "req_%d_%d.ndjson" % (len(ctx.tlc_runs), b0))
        with open(path, "w") as fh:
            for r in part:
                fh.write(json.dumps(r) + "\n")
        for workers in (4, 1):
            res = ctx.tlc_ok(
                "MeshSrcGen",
                "INIT Init\nNEXT Next\nINVARIANT Emit\nCHECK_DEADLOCK FALSE\n",
                what="TLC writes %d sources (supplied tables, MPAS encodings, selections) and certifies them" % len(part),
                env={"REQ_FILE": path},
                workers=workers,
                count=False,
                timeout=3000,
            )
            got = {}
            for p in res.prints:
                if isinstance(p, tuple) and len(p) == 3 and p[0] == "SRC":
                    got[str(p[1])] = _plain(p[2])
            if all(r["id"] in got for r in part):
                break
        missing = [r["id"] for r in part if r["id"] not in got]
        if missing:
            raise Machinery("MeshSrcGen returned no source for %d requests, e.g. %s" % (len(missing), missing[:3]))
        bad = [k for k, v in got.items() if v.get("wf") is not True]
        if bad:
            raise Machinery("MeshSrcGen: %d sources are not well-formed (generator bug), e.g. %s" % (len(bad), bad[:3]))
        out.update(got)
        os.remove(path)
    return out


# ----------------------------------------------------------------------------- mesh pool
def is_manifold(mesh):
    cnt = {}
    for f in mesh:
        for j in range(len(f)):
            s = frozenset((f[j], f[(j + 1) % len(f)]))
            cnt[s] = cnt.get(s, 0) + 1
    return all(c <= 2 for c in cnt.values())  # input selection only; TLC certifies (wf) what is used


def catalogue_pool(rot=(0,)):
    out = []
    for e in catalog.entries():
        if e["rot"] not in rot:
            continue
        lon, lat = [], []
        for v in e["nodes"]:
            lo, la = lattice.lonlat_deg(v)
            lon.append(lo)
            lat.append(la)
        out.append(
            {
                "tag": "cat:%s:r%d:c%d" % (e["name"], e["rot"], e["cut"]),
                "mesh": [list(f) for f in e["faces"]],
                "n_node": len(e["nodes"]),
                "lon": lon,
                "lat": lat,
                "dirs": [list(v) for v in e["nodes"]],
                "closed": bool(e["closed"]),
            }
        )
    return out


def planar_pool(rng, n, size):
    out = []
    for k in range(n):
        nx, ny = rng.randint(2, size), rng.randint(2, size)
        lon, lat, faces = meshgen.planar_mixed(nx, ny, rng, holes=rng.choice([0.0, 0.15, 0.35]))
        out.append({"tag": "planar:%d:%dx%d" % (k, nx, ny), "mesh": faces, "n_node": len(lon), "lon": lon, "lat": lat, "closed": False})
    return out


def scope_pool(meshes, n_node, tag, rng, n):
    pick = sorted(rng.sample(range(len(meshes)), min(n, len(meshes))))
    return [{"tag": "%s:%d" % (tag, k), "mesh": meshes[k], "n_node": n_node, "closed": False} for k in pick]


# ----------------------------------------------------------------------------- case assembly
SUPS_ANY = [["en"], ["en", "fe"], ["nf"], ["en", "fe", "nf"]]
SUPS_MANIFOLD = [["en", "ef"], ["en", "fe", "ef"], ["ff"], ["en", "fe", "ef", "ff", "nf"], ["en", "ef", "ff"]]
EOS = [("keyed", "keyed"), ("reversed", "max"), ("keyed", "min"), ("sorted", "keyed"), ("sorted", "min")]
VIAS = ["topology", "ugrid_ds", "topology_dict", "ugrid_open"]
MPAS_PAD = ["zero", "last", "dimp1", "one"]


def _eo(rng, k):
    how, flip = EOS[k % len(EOS)]
    return {"how": how, "flip": flip, "a": rng.randrange(1000), "b": rng.randrange(1000)}


def _sel(rng, dim):
    return {"dim": dim, "a": rng.randrange(1000), "b": rng.randrange(1000), "q": rng.choice([1, 2, 2, 3]), "order": rng.choice(["asc", "desc", "keyed"])}


def make_case(prop, cid, src, hist, rng, sup=(), eo=None, via="topology", extra_width=0, mpas=None, family="order"):
    """-> (case, request or None).  The request is what TLC needs to write the source."""
    if mpas:
        extra_width = mpas["wide"]  # maxEdges of the file
    width = max(len(f) for f in src["mesh"]) + extra_width
    case = {
        "prop": prop, "id": cid, "mesh": src["mesh"], "n_node": src["n_node"], "width": width, "via": via, "hist": hist,
        "family": family, "sup_names": list(sup),
    }
    for k in ("lon", "lat", "dirs"):
        if k in src:
            case[k] = src[k]
    if src.get("closed") and is_manifold(src["mesh"]):
        case["closed_sphere"] = True
    sel = [s for s in hist if s[0] == "select"]
    req = None
    if sup or mpas or sel:
        req = {"id": cid, "mesh": src["mesh"], "n_node": src["n_node"], "width": width, "eo": eo or {"how": "sorted", "flip": "min", "a": 0, "b": 0}, "sup": list(sup)}
        if mpas:
            req["mpas"] = mpas
            case["mpasd"] = mpas
        if sel:
            req["sel"] = _sel(rng, sel[0][1])
            if family == "dual":
                req["sel"]["q"] = 3  # keep about three quarters: a dual face needs a node with three faces
    return case, req


def attach_sources(cases, reqs, sources):
    for c in cases:
        s = sources.get(c["id"])
        if s is None:
            continue
        c["sup"] = {k: s[k] for k in c["sup_names"]}
        if "mpas" in s:
            c["mpas"] = s["mpas"]
            c["sup_en"] = [[a - 1, b - 1] for a, b in s["mpas"]["verticesOnEdge"]]
        c["idx"] = s.get("idx", [])


def _worker(conn, work):
    """long-lived replay worker: receives (key, chunk) over its own pipe, writes the records to a file"""
    while True:
        task = conn.recv()
        if task is None:
            return
        key, chunk = task
        out = [X.replay(c) for c in chunk]
        path = os.path.join(work, "replay_%s.json" % key)
        with open(path + ".tmp", "w") as fh:
            json.dump(out, fh)
        os.replace(path + ".tmp", path)
        conn.send(key)


def replay_many(cases, work, limit=600):
    """Replay in forked, long-lived worker processes (each has its own pipe; no shared queue).  Unlike a plain
    pool this survives a worker that DIES or hangs (a seeded change that makes compiled code index out of range
    corrupts the heap): its chunk is replayed again case by case, and the history that kills its worker gets a
    record saying so (clause Raises) instead of hanging or crashing the check."""
    import multiprocessing as mp
    import time

    from harness import ux as hux

    hux.import_ux()
    nproc = int(os.environ.get("VERIF_NPROC", "0")) or min(16, os.cpu_count() or 4)
    ctx_mp = mp.get_context("fork")

    def run_jobs(todo):
        """todo: [(key, chunk)] -> {key: list of record lists | None (worker died / timed out)}"""
        done, queue, workers = {}, list(todo), []

        def spawn():
            parent, child = ctx_mp.Pipe()
            p = ctx_mp.Process(target=_worker, args=(child, work))
            p.start()
            child.close()
            return {"p": p, "conn": parent, "key": None, "t0": 0.0}

        def assign(w):
            if queue:
                key, chunk = queue.pop(0)
                w["key"], w["t0"] = key, time.time()
                w["conn"].send((key, chunk))
            else:
                w["key"] = None

        workers = [spawn() for _ in range(min(nproc, len(queue)))]
        for w in workers:
            assign(w)
        while any(w["key"] is not None for w in workers):
            time.sleep(0.01)
            for i, w in enumerate(workers):
                if w["key"] is None:
                    continue
                finished = False
                try:
                    if w["conn"].poll():
                        key = w["conn"].recv()
                        path = os.path.join(work, "replay_%s.json" % key)
                        with open(path) as fh:
                            done[key] = json.load(fh)
                        os.remove(path)
                        finished = True
                except (EOFError, OSError):
                    pass
                if finished:
                    assign(w)
                    continue
                dead = not w["p"].is_alive()
                if not dead and time.time() - w["t0"] > limit:
                    w["p"].kill()
                    dead = True
                if dead:
                    w["p"].join()
                    done[w["key"]] = None
                    workers[i] = spawn()
                    assign(workers[i])
        for w in workers:
            try:
                w["conn"].send(None)
            except (OSError, BrokenPipeError):
                pass
            w["p"].join(5)
            if w["p"].is_alive():
                w["p"].kill()
        return done

    size = max(1, min(150, len(cases) // (nproc * 6) or 1))
    jobs = [("c%d" % k, cases[i : i + size]) for k, i in enumerate(range(0, len(cases), size))]
    first = run_jobs(jobs)
    results = {k: v for k, v in first.items() if v is not None}
    retry = [("%s_%d" % (key, j), [c]) for key, chunk in jobs if first[key] is None for j, c in enumerate(chunk)]
    if retry:
        second = run_jobs(retry)
        for key, chunk in jobs:
            if first[key] is not None:
                continue
            out = []
            for j, c in enumerate(chunk):
                r = second["%s_%d" % (key, j)]
                if r is None:
                    r = [[{"id": c["id"], "order": [], "first": {}, "error_kind": "observe",
                           "error": "the worker process died (or hung) while replaying this history"}]]
                out += r
            results[key] = out
    return [rs for key, _ in jobs for rs in results[key]]


# ----------------------------------------------------------------------------- verdicts
def sig_of(case, clause, sub, failed=()):
    """Abstract signature of a violation: the clause, where it happened, and - decided by TLC - the whole
    pattern of clauses the record fails plus the judge's diagnoses (known findings match on these)."""
    sig = {"clause": clause.split("(")[0] if clause.startswith("Stable(") else clause, "family": case["family"], "via": case["via"], "grid": sub or "constructed"}
    if clause.startswith("Stable(") or "=shape(" in clause:
        sig["what"] = clause
    if "mpasd" in case:
        sig["source"] = "mpas"
        for k in ("eoc", "covz", "coez"):
            sig[k] = case["mpasd"][k]
    if failed:
        sig["pattern"] = "+".join(sorted(c for c in failed if not c.startswith("diag:")))
        d = DIAG_OF.get(clause)
        sig["diag"] = d if d and ("diag:" + d) in failed else ""
    return sig


def report(ctx, prop, cases, recs, failed, errs):
    """Violations of THIS property's clauses; failures of the other property's clauses are only noted."""
    by_id = {c["id"]: c for c in cases}
    other = {}

    def owner(rid):
        return by_id[rid.split("|")[0]]

    def mine(cl):
        """the clauses of THIS property a record fails (+ diagnoses): the pattern a known finding is matched by"""
        return [x for x in cl if x.startswith("diag:") or x == "StdTypes" or clause_prop(x) == prop]

    def replay_of(c, rid):
        r = {k: c[k] for k in c if k != "workdir"}
        r["record"] = rid
        return r

    kinds = {r["id"]: r.get("error_kind") for r in recs if "error" in r}
    derive = [rid for rid in errs if kinds.get(rid) == "derive"]
    if derive:
        print("NOTE: %d derivations (isel / get_dual) raised; not a verdict of this property, e.g. %s: %s" % (len(derive), derive[0], errs[derive[0]]))
    ctx.note("derivations_raised", len(derive))
    for rid, msg in errs.items():
        if kinds.get(rid) == "derive":
            continue
        c = owner(rid)
        ctx.violation(rid, "Raises", detail=msg, replay=replay_of(c, rid), sig=sig_of(c, "Raises", rid.partition("|")[2]))
    for rid, cl in failed.items():
        c = owner(rid)
        for clause in sorted(cl):
            if clause.startswith("diag:"):
                continue
            p = clause_prop(clause)
            if clause == "StdTypes":
                p = prop
            if p != prop:
                other.setdefault(clause.split("(")[0], []).append(rid)
                continue
            ctx.violation(rid, clause, detail={"failed": sorted(cl)}, replay=replay_of(c, rid), sig=sig_of(c, clause, rid.partition("|")[2], mine(cl)))
    if other:
        print("NOTE: clauses of the sibling property failed on %d records of this run (reported by its own check): %s" % (
            sum(len(v) for v in other.values()), {k: len(v) for k, v in sorted(other.items())}))
    ctx.note("sibling_clause_failures", {k: len(v) for k, v in other.items()})


def keep_flags(recs, prop):
    """StdTypes is judged per property: each check keeps the flags of its own tables."""
    mine = ("fn", "en", "fe") if prop == "C02" else ("nf", "ef", "ff")
    for r in recs:
        if "flags" in r:
            r["flags"] = {k: v for k, v in r["flags"].items() if k.split("_")[0] in mine}


def coverage(cases):
    """Bookkeeping, not a verdict: how often the situations the histories exist for actually occur.  A family
    that silently shrank to nothing would make the check vacuous (machinery failure)."""
    cov = {"wide_table_dimension_before_table": 0, "supplied_edges_not_in_sorted_order": 0, "supplied_edge_ends_flipped": 0,
           "edge_face_stored_before_selection": 0, "node_face_stored_before_selection": 0, "selection_by_node": 0, "selection_by_edge": 0,
           "dual_of_selected_grid": 0, "mpas_nonzero_padding_mixed_sizes": 0, "mpas_absent_cell_leading_slot": 0, "supplied_via_ugrid_dataset": 0}
    for c in cases:
        names = [s[1] for s in c["hist"]]
        kinds = [s[0] for s in c["hist"]]
        wide = c["mesh"] and c["width"] > max(len(f) for f in c["mesh"])
        if wide and "n_max_face_edges" in names and "fe" in names and names.index("n_max_face_edges") < names.index("fe") \
                and ("select" not in kinds or names.index("n_max_face_edges") < kinds.index("select")):
            cov["wide_table_dimension_before_table"] += 1
        en = c.get("sup", {}).get("en")
        if en:
            keys = [(min(r), max(r)) for r in en]
            cov["supplied_edges_not_in_sorted_order"] += keys != sorted(keys)
            cov["supplied_edge_ends_flipped"] += any(r[0] > r[1] for r in en)
            cov["supplied_via_ugrid_dataset"] += c["via"].startswith("ugrid")
        if "select" in kinds:
            k = kinds.index("select")
            pre = names[:k]
            cov["edge_face_stored_before_selection"] += any(x in pre for x in ("ef", "ff", "holes", "n_max_face_faces")) or "ef" in c.get("sup", {})
            cov["node_face_stored_before_selection"] += any(x in pre for x in ("nf", "n_max_node_faces")) or "nf" in c.get("sup", {})
            cov["selection_by_node"] += names[k] == "n_node"
            cov["selection_by_edge"] += names[k] == "n_edge"
            cov["dual_of_selected_grid"] += "dual" in kinds
        d = c.get("mpasd")
        if d and c["mesh"]:
            mixed = len({len(f) for f in c["mesh"]}) > 1 or d["wide"] > 0
            cov["mpas_nonzero_padding_mixed_sizes"] += d["pad"] != "zero" and mixed
            cov["mpas_absent_cell_leading_slot"] += d["covz"] == "front" or d["coez"] == "first"
    return {k: int(v) for k, v in cov.items()}


def run_histories(ctx, prop, cases, reqs):
    sources = build_sources(ctx, reqs) if reqs else {}
    attach_sources(cases, reqs, sources)
    cov = coverage(cases)
    ctx.note("history_coverage", cov)
    empty = [k for k, v in cov.items() if v == 0]
    if empty:
        raise Machinery("history families are vacuous for: %s" % ", ".join(empty))
    for c in cases:
        c["workdir"] = ctx.work
    recs = [r for rs in replay_many(cases, ctx.work) for r in rs]
    ctx.note("derived_grids_without_faces_not_judged", sum(1 for r in recs if "outside" in r))
    recs = [r for r in recs if "outside" not in r]
    keep_flags(recs, prop)
    failed, _, errs = mc.judge(ctx, recs, module="JudgeMeshHist", workers=min(8, int(os.environ.get("VERIF_NPROC", "0")) or 8), tag="hist")
    report(ctx, prop, cases, recs, failed, errs)
    return recs, failed, errs


# ----------------------------------------------------------------------------- the families of a run
def assemble(ctx, prop, rng, thorough, scope):
    """scope: list of source dicts from the TLC-enumerated tables (manifold ones for C03).
    -> (cases, requests)"""
    core = "c02core" if prop == "C02" else "c03core"
    perms = gen_orders(ctx, core)
    sims = gen_orders(ctx, "all", simulate=1000 if thorough else 300, seed=ctx.seed)
    sels = gen_orders(ctx, "all", select=True, maxpre=3, simulate=2500 if thorough else 900, seed=ctx.seed + 1)
    sels = [h for h in sels if any(s[0] == "select" for s in h)]
    duals = gen_orders(ctx, "all", dual=True, simulate=700 if thorough else 250, seed=ctx.seed + 2, scn="tetra")
    duals += gen_orders(ctx, "all", select=True, maxpre=2, dual=True, simulate=900 if thorough else 350, seed=ctx.seed + 3, scn="tetra")
    duals = [h for h in duals if any(s[0] == "dual" for s in h)]
    rng.shuffle(duals)
    duals = duals[: 1500 if thorough else 600]
    rng.shuffle(sims)
    rng.shuffle(sels)
    # -simulate prints a terminal state once per worker that reaches it: keep the requested numbers
    sims = sims[: 1000 if thorough else 300]
    sels = sels[: 2500 if thorough else 900]
    ctx.note("orders", {"core_permutations": len(perms), "simulated_all": len(sims), "simulated_with_selection": len(sels), "simulated_with_dual": len(duals)})
    cat = catalogue_pool()
    cat_small = [s for s in cat if len(s["mesh"]) <= 15]
    planar = planar_pool(rng, 24 if thorough else 8, 7 if thorough else 5)
    manifold = lambda s: is_manifold(s["mesh"])
    cases, reqs = [], []

    def add(c, q):
        cases.append(c)
        if q:
            reqs.append(q)

    # --- O: derived-only grids, every order --------------------------------------------------
    pool_o = list(scope) + cat_small
    rng.shuffle(pool_o)
    if len(perms) <= 200:
        n_full = 16 if thorough else 10
        for k, src in enumerate(pool_o[:n_full]):
            for xw in (0, 1 + k % 2):
                for j, h in enumerate(perms):
                    add(*make_case(prop, "O:%s:w%d:p%d" % (src["tag"], xw, j), src, h, rng, extra_width=xw))
    else:
        reps = 2 if thorough else 1
        for j, h in enumerate(perms * reps):
            src = pool_o[j % len(pool_o)]
            xw = (j // len(pool_o)) % 3
            add(*make_case(prop, "O:%s:w%d:p%d" % (src["tag"], xw, j), src, h, rng, extra_width=xw))
    for j, h in enumerate(sims):
        src = (pool_o + planar)[j % (len(pool_o) + len(planar))]
        add(*make_case(prop, "Oa:%s:w%d:s%d" % (src["tag"], j % 3, j), src, h, rng, extra_width=j % 3))

    # --- S: sources that supply tables ----------------------------------------------------------
    pool_s = list(scope) + cat + planar
    rng.shuffle(pool_s)
    n_s = 3000 if thorough else 1100
    orders = perms + sims
    rng.shuffle(orders)
    for k in range(n_s):
        src = pool_s[k % len(pool_s)]
        sups = SUPS_ANY + (SUPS_MANIFOLD if manifold(src) else [])
        sup = sups[(k // len(pool_s) + k) % len(sups)]
        via = VIAS[k % len(VIAS)]
        if k % 97 == 0:
            via = "ugrid_file"
        add(*make_case(prop, "S:%s:%s:%s:%d" % (src["tag"], "+".join(sup), via, k), src, orders[k % len(orders)], rng,
                       sup=sup, eo=_eo(rng, k), via=via, extra_width=(k // 7) % 2, family="supplied"))

    # --- M: MPAS-shaped sources -----------------------------------------------------------------
    pool_m = [s for s in list(scope) + cat + planar[:4] if manifold(s)]
    rng.shuffle(pool_m)
    n_m = 1600 if thorough else 640
    for k in range(n_m):
        src = pool_m[k % len(pool_m)]
        # eoc: MPAS files name by edgesOnCell(j) the edge BEFORE vertex j (measured on the QU sample: 960 of 960 sides)
        d = {"pad": MPAS_PAD[k % 4], "eoc": "before", "covz": ["end", "front"][(k // 4) % 2],
             "coez": ["second", "first"][(k // 8) % 2], "wide": (k // 16) % 2}
        add(*make_case(prop, "M:%s:%s:%d" % (src["tag"], "-".join(str(d[x]) for x in ("pad", "eoc", "covz", "coez", "wide")), k), src,
                       orders[(k * 7) % len(orders)], rng, eo=_eo(rng, k), via="mpas" if k % 3 else "mpas_open", mpas=d, family="mpas"))

    # --- D: grids selected from a grid, after some observations on it ------------------------------
    n_d = len(sels)
    for k in range(n_d):
        h = sels[k]
        mode = k % 4
        if mode == 3 and pool_m:
            src = pool_m[k % len(pool_m)]
            d = {"pad": MPAS_PAD[k % 4], "eoc": "before", "covz": "end", "coez": "second", "wide": (k // 4) % 2}
            add(*make_case(prop, "D:%s:mpas:%d" % (src["tag"], k), src, h, rng, eo=_eo(rng, k), via="mpas", mpas=d, family="selected"))
            continue
        src = pool_s[(k * 5) % len(pool_s)]
        sup = []
        if mode in (1, 2):
            sups = SUPS_ANY + (SUPS_MANIFOLD if manifold(src) else [])
            sup = sups[k % len(sups)]
        add(*make_case(prop, "D:%s:%s:%d" % (src["tag"], "+".join(sup) or "none", k), src, h, rng, sup=sup, eo=_eo(rng, k),
                       via=VIAS[k % 2] if mode == 2 else "topology", extra_width=(k // 3) % 2, family="selected"))
    # --- D2: the dual of a grid / of a selected grid (sources with real geometry: get_dual orders by angle) -----
    pool_g = cat + planar
    for k, h in enumerate(duals):
        src = pool_g[(k * 3) % len(pool_g)]
        sup = []
        if k % 3 == 1:
            sups = SUPS_ANY + (SUPS_MANIFOLD if manifold(src) else [])
            sup = sups[k % len(sups)]
        add(*make_case(prop, "D2:%s:%s:%d" % (src["tag"], "+".join(sup) or "none", k), src, h, rng, sup=sup, eo=_eo(rng, k),
                       via=VIAS[k % 2] if sup else "topology", extra_width=(k // 5) % 2, family="dual"))

    # --- F: sample files of the repository, judged against the faces their own face table lists ------
    for c in file_cases(ctx, prop, rng, perms, 2 if thorough else 1, only=None if thorough else QUICK_FILES):
        cases.append(c)
    return cases, reqs


# ----------------------------------------------------------------------------- sample files (code -> spec)
SAMPLE_FILES = [
    # (path under /repo/test/meshfiles, use_dual, closed sphere, MPAS conventions or None)
    ("ugrid/quad-hexagon/grid.nc", False, False, None),
    ("exodus/outCSne8/outCSne8.g", False, True, None),
    ("exodus/mixed/mixed.exo", False, False, None),
    ("scrip/outCSne8/outCSne8.nc", False, False, None),  # coincident corners are not merged along cube edges: not closed as a table
    ("mpas/QU/mesh.QU.1920km.151026.nc", False, True, {"eoc": "before", "covz": "end", "coez": "second"}),
    ("mpas/QU/mesh.QU.1920km.151026.nc", True, True, {"eoc": "before", "covz": "end", "coez": "second"}),
]


QUICK_FILES = ("ugrid/quad-hexagon/grid.nc", "mpas/QU/mesh.QU.1920km.151026.nc")


def file_cases(ctx, prop, rng, orders, per_file, only=None):
    """orders: permutations of the property's core observables (TLC judges a few hundred faces per
    record: the clauses cost up to O(faces^2) evaluations, so the order is kept to the core set)."""
    from harness import ux as hux

    out = []
    for path, dual, closed, mp in SAMPLE_FILES:
        if only is not None and path not in only:
            continue
        full = os.path.join(hux.REPO, "test", "meshfiles", path)
        if not os.path.exists(full) or os.path.getsize(full) == 0:
            continue
        for k in range(per_file):
            c = {"prop": prop, "id": "F:%s%s:%d" % (path, ":dual" if dual else "", k), "via": "file", "path": full, "use_dual": dual,
                 "hist": orders[rng.randrange(len(orders))], "family": "file", "sup_names": [], "mesh": [], "n_node": 0, "width": 0}
            if closed:
                c["closed_sphere"] = True
            if mp:
                c["mpasd"] = mp
            out.append(c)
    return out


def count_cases(ctx, cases):
    for c in cases:
        key = (tuple(map(tuple, c["mesh"])), c["width"], tuple(c["sup_names"]), c["via"], tuple(tuple(s) for s in c["hist"]), c.get("path"))
        ctx.count(1, key if (len(c["mesh"]) >= 2 or c["via"] == "file") else None)


# ----------------------------------------------------------------------------- ./check C0x --replay <file>
def replay_file(prop, path):
    """Re-run the cases of a replay file (replays/<prop>_<clause>_<tier>.json) and judge them again."""
    import shutil

    from harness.core import Ctx

    with open(path) as fh:
        data = json.load(fh)
    seen, hist, plain = set(), [], []
    for v in data.get("cases", []):
        c = v.get("replay")
        if not c or c["id"] in seen:
            continue
        seen.add(c["id"])
        (hist if "hist" in c else plain).append(c)
    ctx = Ctx(prop + "_replay", "replay", 0)
    bad = 0
    try:
        for c in hist:
            c["workdir"] = ctx.work
        if hist:
            recs = [r for c in hist for r in X.replay(c) if "outside" not in r]
            keep_flags(recs, prop)
            failed, _, errs = mc.judge(ctx, recs, module="JudgeMeshHist", workers=2, tag="replay")
            for r in recs:
                rid = r["id"]
                if rid in errs:
                    print("RAISES %s %s" % (rid, errs[rid]))
                    bad += r.get("error_kind") != "derive"
                elif rid in failed:
                    own = sorted(c for c in failed[rid] if c.startswith("diag:") or c == "StdTypes" or clause_prop(c) == prop)
                    if [c for c in own if not c.startswith("diag:")]:
                        print("FAILS %s clauses=%s order=%s" % (rid, own, r.get("order")))
                        bad += 1
                    else:
                        print("HOLDS %s (clauses of the sibling property fail: %s)" % (rid, sorted(set(failed[rid]) - set(own))))
                else:
                    print("HOLDS %s" % rid)
        if plain:
            recs = [mc.record_case(c) for c in plain]
            failed, _, errs = mc.judge(ctx, recs)
            for r in recs:
                rid = r["id"]
                if rid in errs:
                    print("RAISES %s %s" % (rid, errs[rid]))
                    bad += 1
                elif rid in failed:
                    print("FAILS %s clauses=%s" % (rid, sorted(failed[rid])))
                    bad += 1
                else:
                    print("HOLDS %s" % rid)
        return 1 if bad else 0
    finally:
        shutil.rmtree(ctx.work, ignore_errors=True)

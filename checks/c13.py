"""C13 - face latitude-longitude bounds enclose the face and are tight.

Spec (tla/BoundsSpec.tla on top of SphereZ.tla): for a convex counter-clockwise face of integer
directions, exactly which boundary feature attains lat_max / lat_min (a corner, the interior
extreme of a poleward-bulging edge with value asin sqrt(N/D), or an enclosed pole), the
west-most / east-most corner or the full circle, and the wrap flag.
Model (tla/LonBox.tla): the greedy periodic growth of the longitude interval on a cyclic integer
longitude; TLC proves greedy = shortest cover below half a circle for every insertion order and
exhibits the order dependence beyond it.
Generate (tla/BoundsCases.tla): TLC enumerates lattice faces inside the quantifier with their
expected bounds.  Replay: faces are batched into grids, Grid.bounds is recorded.  Judge
(tla/JudgeBounds.tla): TLC decides every clause and the abstract signature of each failing case.
Python evaluates descriptors to floats, applies the tolerance (1e-8 latitudes = the library's ERROR_TOLERANCE, 1e-9 longitudes) and samples the boundary.
"""

from __future__ import annotations

import json
import math
import os
import random
import re

from harness import catalog, tlaval
from harness import ux as hux
from harness.core import Machinery
from harness.pool import pmap

PROP = "C13"
TOL = 1e-9  # longitudes
TOL_LAT = 1.0e-8 * (1 + 1e-6)  # latitudes: the library's documented ERROR_TOLERANCE (an interior extreme within 1e-8 of an end point is identified with it)
TWO_PI = 2.0 * math.pi


# ----------------------------------------------------------------------------- TLC: generation
def gen_cfg(mode, K=2, maxn=3, pair=1, pre=1, plain=1, fam=1, grow=1, seed=0):
    return (
        "INIT Init\nNEXT Next\nCONSTANTS\n K = %d\n MaxN = %d\n Mode = \"%s\"\n PairMod = %d\n PreMod = %d\n PlainMod = %d\n"
        " FamMod = %d\n GrowMod = %d\n Seed = %d\nINVARIANT OracleSane\nINVARIANT Emit\nCHECK_DEADLOCK FALSE\n"
        % (K, maxn, mode, pair, pre, plain, fam, grow, seed)
    )


_TAG = re.compile(r'^<< ?"(\w+)"', re.M)


def parse_tagged(out, tags=("CASE", "SKIP")):
    """PrintT values with the given tags (TLC prints short values as '<<"TAG", ..>>' on one line and
    pretty-prints long ones over several lines as '<< "TAG", ...')."""
    res = []
    i = 0
    while True:
        m = _TAG.search(out, i)
        if not m:
            break
        if m.group(1) not in tags:
            i = m.end()
            continue
        v, i = tlaval.parse_prefix(out, m.start())
        res.append(v)
    return res


def vec_id(f):
    return "|".join(",".join(str(c) for c in v) for v in f)


def to_case(c):
    f = [list(v) for v in c["f"]]
    return {
        "key": c["id"] or vec_id(f),
        "f": f,
        "tops": sorted([list(t) for t in c["tops"]]),
        "bots": sorted([list(t) for t in c["bots"]]),
        "latmax": list(c["latmax"]),
        "latmin": list(c["latmin"]),
        "amax": sorted([list(t) for t in c["amax"]]),
        "amin": sorted([list(t) for t in c["amin"]]),
        "lon": list(c["lon"]),
        "wrap": c["wrap"],
        "poles": list(c["poles"]),
        "fams": sorted(c["fams"]) + (["one_hemisphere"] if (all(v[2] > 0 for v in f) or all(v[2] < 0 for v in f)) else []),
    }


def generate_lattice(ctx, what, **kw):
    r = ctx.tlc_ok("BoundsCases", gen_cfg("lattice", seed=ctx.seed % 1000, **kw), what=what, workers=8, timeout=3000)
    vals = parse_tagged(r.out)
    cases = [to_case(v[1]) for v in vals if v[0] == "CASE"]
    cases.sort(key=lambda c: c["key"])
    return cases, r


def catalogue_faces(min_size=3):
    """Distinct faces of the catalogue (all 24 rotations are catalogue entries), every start corner."""
    seen = {}
    for e in catalog.entries(cut=0):
        for f in e["faces"]:
            if len(f) >= min_size:
                vs = tuple(tuple(e["nodes"][i]) for i in f)
                for k in range(len(vs)):
                    r = vs[k:] + vs[:k]
                    seen.setdefault(r, "cat:%s:%s" % (e["name"], vec_id(r)))
    return [{"id": i, "f": [list(v) for v in f]} for f, i in sorted(seen.items())]


def generate_file(ctx, faces, what):
    path = os.path.join(ctx.work, "faces_%d.ndjson" % len(ctx.tlc_runs))
    with open(path, "w") as fh:
        for x in faces:
            fh.write(json.dumps(x) + "\n")
    r = ctx.tlc_ok("BoundsCases", gen_cfg("file", K=3, maxn=8), what=what, workers=8, env={"FACE_FILE": path}, timeout=3000)
    vals = parse_tagged(r.out)
    cases = [to_case(v[1]) for v in vals if v[0] == "CASE"]
    skipped = [v[1] for v in vals if v[0] == "SKIP"]
    if len(cases) + len(skipped) != len(faces):
        raise Machinery("file generator: %d faces in, %d cases + %d skipped out" % (len(faces), len(cases), len(skipped)))
    cases.sort(key=lambda c: c["key"])
    os.remove(path)
    return cases, skipped


# ----------------------------------------------------------------------------- float evaluation of descriptors
def lat_val(d):
    """<<s, N, D>> -> s * asin(sqrt(N / D)), evaluated as atan2 (well conditioned near the poles)."""
    s, n, dd = d
    return s * math.atan2(math.sqrt(n), math.sqrt(dd - n))


def corner_lat(v):
    return math.atan2(v[2], math.hypot(v[0], v[1]))


def corner_lon(v):
    return math.atan2(v[1], v[0]) % TWO_PI


def circ_diff(a, b):
    return abs((a - b + math.pi) % TWO_PI - math.pi)


def lon_inside(lon, lo, hi, tol):
    if hi - lo >= TWO_PI - tol:
        return True
    if circ_diff(lon, lo) <= tol or circ_diff(lon, hi) <= tol:  # at an end, also across the 0 / 2 pi seam
        return True
    if lo <= hi:
        return lo - tol <= lon <= hi + tol
    return lon >= lo - tol or lon <= hi + tol


def boundary_samples(f, m):
    """Points s*a/|a| + t*b/|b| (s + t = 1, t = k/m) on every edge: (edge, k, lat, lon or None)."""
    n = len(f)
    units = []
    for v in f:
        l = math.sqrt(v[0] * v[0] + v[1] * v[1] + v[2] * v[2])
        units.append((v[0] / l, v[1] / l, v[2] / l))
    for i in range(n):
        a = units[i]
        b = units[(i + 1) % n]
        for k in range(m + 1):
            t = k / m
            s = 1.0 - t
            x = s * a[0] + t * b[0]
            y = s * a[1] + t * b[1]
            z = s * a[2] + t * b[2]
            h = math.hypot(x, y)
            yield i + 1, k, math.atan2(z, h), (math.atan2(y, x) % TWO_PI if h > 1e-14 else None)


def outside(f, m, lat_lo, lat_hi, lon_lo, lon_hi, per_kind=2):
    """Sample points outside the box, at most per_kind of each kind (lat_lo, lat_hi, lon)."""
    bad = {"lat_lo": [], "lat_hi": [], "lon": []}
    for e, k, lat, lon in boundary_samples(f, m):
        if lat < lat_lo - TOL_LAT:
            bad["lat_lo"].append(["lat_lo", e, k])
        if lat > lat_hi + TOL_LAT:
            bad["lat_hi"].append(["lat_hi", e, k])
        if lon is not None and not lon_inside(lon, lon_lo, lon_hi, TOL):
            bad["lon"].append(["lon", e, k])
    return [x for kind in ("lat_lo", "lat_hi", "lon") for x in bad[kind][:per_kind]]


def real_face(item):
    """The face handed to the implementation: the judged face itself, or its image under the scale maps
    of BoundsScale.tla (Python integers; TLC proved that the deciding features are inherited)."""
    return item.get("fx", item["f"])


def edge_extreme(f, i, sign):
    """Latitude of the interior extreme (top: sign=1, bottom: sign=-1) of edge i (1-based) of the integer face f:
    tan^2 = (nx^2 + ny^2) / nz^2 with n = a x b, evaluated from exact integers."""
    a, b = f[i - 1], f[i % len(f)]
    nx = a[1] * b[2] - a[2] * b[1]
    ny = a[2] * b[0] - a[0] * b[2]
    nz = a[0] * b[1] - a[1] * b[0]
    return sign * math.atan2(math.sqrt(nx * nx + ny * ny), abs(nz))


def feature_lat(f, ft, sign):
    if ft[0] == "c":
        return corner_lat(f[ft[1] - 1])
    if ft[0] == "e":
        return edge_extreme(f, ft[1], sign)
    return ft[1] * math.pi / 2


def expected_box(item):
    f = real_face(item)
    if item["lon"][0] == "full":
        lo, hi = 0.0, TWO_PI
    else:
        lo, hi = corner_lon(f[item["lon"][1] - 1]), corner_lon(f[item["lon"][2] - 1])
    return feature_lat(f, item["amin"][0], -1), feature_lat(f, item["amax"][0], 1), lo, hi


SNAP_CAP = math.acos(1.0 - 1e-8)  # the library treats |z| > 1 - 1e-8 as the pole (documented snap): 1.414e-4 rad


def lat_match(exact, reported):
    """Within the library's documented 1e-8, or both inside the cap that its documented pole snap identifies with the pole."""
    if abs(exact - reported) <= TOL_LAT:
        return True
    cap = math.pi / 2 - SNAP_CAP
    return (exact >= cap and reported >= cap) or (exact <= -cap and reported <= -cap)


# ----------------------------------------------------------------------------- replay
def pole_lon_deg(item):
    """Longitude handed over for a corner at a pole: 0 (what xyz -> lonlat gives), or the west-most corner's."""
    if item["plon"] == "west" and item["lon"][0] == "iv":
        w = real_face(item)[item["lon"][1] - 1]
        return math.degrees(math.atan2(w[1], w[0]))
    return 0.0


def build_grid(items):
    import numpy as np

    ux = hux.import_ux()
    _, FILL = hux.consts()
    lon, lat, idx, conn = [], [], {}, []
    for it in items:
        g = real_face(it)[::-1] if it["cw"] else real_face(it)
        row = []
        for v in g:
            x, y, z = v
            if x == 0 and y == 0:
                lo, la = pole_lon_deg(it), (90.0 if z > 0 else -90.0)
            else:
                lo = math.degrees(math.atan2(y, x))
                la = math.degrees(math.atan2(z, math.hypot(x, y)))
            key = (x, y, z, lo)
            if key not in idx:
                idx[key] = len(lon)
                lon.append(lo)
                lat.append(la)
            row.append(idx[key])
        conn.append(row)
    return ux.Grid.from_topology(np.array(lon, dtype=float), np.array(lat, dtype=float), hux.pad_table(conn), fill_value=FILL)


def bounds_of(items, out):
    """Grid.bounds for a batch; a batch that raises is split so that the raising faces are isolated."""
    import numpy as np

    try:
        b = np.asarray(build_grid(items).bounds.values, dtype=float)
        if b.shape != (len(items), 2, 2):
            raise Machinery("Grid.bounds has shape %s for %d faces" % (b.shape, len(items)))
        for it, row in zip(items, b):
            out[it["id"]] = row.tolist()
    except Machinery:
        raise
    except Exception as e:  # noqa - the property promises a value: an exception is a verdict
        if len(items) == 1:
            out[items[0]["id"]] = "%s: %s" % (type(e).__name__, str(e)[:160])
            return
        step = max(1, (len(items) + 7) // 8)
        for k in range(0, len(items), step):
            bounds_of(items[k : k + step], out)


def record(item, b, m):
    f = real_face(item)
    rec = {"id": item["id"], "f": item["f"], "cw": item["cw"], "plon": item["plon"], "turned": bool(item.get("turned", False)), "fam": item.get("fam", "lattice")}
    if isinstance(b, str):
        rec.update(raised=True, error=b, mx=[], mn=[], lo=[], hi=[], full=False, wrap=False, encl=[])
        return rec
    (lat_lo, lat_hi), (lon_lo, lon_hi) = b
    vals = [lat_lo, lat_hi, lon_lo, lon_hi]
    if not all(isinstance(x, float) and x == x and abs(x) < 1e6 for x in vals):
        # a fill value or NaN left in the box: no feature can match it
        rec.update(raised=False, mx=[], mn=[], lo=[], hi=[], full=False, wrap=False, encl=[["nonfinite", 0, 0]], box=[repr(x) for x in vals])
        return rec
    n = len(f)
    cl = [corner_lat(v) for v in f]
    mx = [["c", j + 1] for j in range(n) if lat_match(cl[j], lat_hi)]
    mn = [["c", j + 1] for j in range(n) if lat_match(cl[j], lat_lo)]
    mx += [["e", t[0]] for t in item["tops"] if lat_match(edge_extreme(f, t[0], 1), lat_hi)]
    mn += [["e", t[0]] for t in item["bots"] if lat_match(edge_extreme(f, t[0], -1), lat_lo)]
    if lat_match(math.pi / 2, lat_hi):
        mx.append(["p", 1])
    if lat_match(-math.pi / 2, lat_lo):
        mn.append(["p", -1])
    nonpole = [j for j in range(n) if f[j][0] != 0 or f[j][1] != 0]
    lo = [j + 1 for j in nonpole if circ_diff(corner_lon(f[j]), lon_lo) <= TOL]
    hi = [j + 1 for j in nonpole if circ_diff(corner_lon(f[j]), lon_hi) <= TOL]
    rec.update(
        raised=False,
        mx=mx,
        mn=mn,
        lo=lo,
        hi=hi,
        full=bool(lon_hi - lon_lo >= TWO_PI - TOL),
        wrap=bool(lon_lo > lon_hi),
        encl=outside(f, m, lat_lo, lat_hi, lon_lo, lon_hi),
        box=vals,
    )
    # the oracle's own box must enclose the samples (else the machinery is wrong, not the code)
    e = expected_box(item)
    if outside(f, m, *e):
        rec["oracle_bad"] = list(e)
    return rec


def work_item(x):
    """One unit of replay work for the pool: a batch of generated faces, or one sample grid file."""
    if x[0] == "grid":
        return gridfile_check(x[1])
    return replay_batch(x)


def replay_batch(batch):
    items, m = batch
    out = {}
    bounds_of(items, out)
    return [record(it, out[it["id"]], m) for it in items]


# ----------------------------------------------------------------------------- judge
def judge(ctx, recs, workers=8):
    path = os.path.join(ctx.work, "rec_%d.ndjson" % len(ctx.tlc_runs))
    keep = ("id", "f", "cw", "plon", "turned", "fam", "raised", "mx", "mn", "lo", "hi", "full", "wrap", "encl")
    with open(path, "w") as fh:
        for r in recs:
            fh.write(json.dumps({k: r[k] for k in keep}) + "\n")
    res = ctx.tlc_ok(
        "JudgeBounds",
        "INIT Init\nNEXT Next\nINVARIANT Judge\nCHECK_DEADLOCK FALSE\n",
        what="judge %d recorded bounds" % len(recs),
        env={"REC_FILE": path},
        workers=workers,
        count=False,
        timeout=3000,
    )
    nblocks = (len(recs) + 63) // 64
    if res.distinct != len(recs) + nblocks:
        raise Machinery("judge visited %d states for %d records in %d blocks" % (res.distinct, len(recs), nblocks))
    verdicts = {}
    for v in parse_tagged(res.out, tags=("V", "X")):
        if v[0] == "X":
            raise Machinery("record %s is outside the quantifier" % (v[1],))
        verdicts[v[1]] = (sorted(v[2]), dict(v[3]))
    ctx.traces += len(recs)
    os.remove(path)
    return verdicts


# ----------------------------------------------------------------------------- LonBox model
def lonbox_cfg(m, nmax, inv):
    return "INIT Init\nNEXT Next\nCONSTANTS\n M = %d\n NMax = %d\n%sCHECK_DEADLOCK FALSE\n" % (
        m,
        nmax,
        "".join("INVARIANT %s\n" % i for i in inv),
    )


def lonbox_model(ctx, thorough):
    m, nmax = (16, 6) if thorough else (12, 5)
    r = ctx.tlc_ok(
        "LonBox",
        lonbox_cfg(m, nmax, ["TypeOK", "Covers", "GreedyIsShortestBelowHalf", "L2MatchesL1Step"]),
        what="greedy periodic interval growth = shortest cover below half a circle, every insertion order, M=%d, <=%d points" % (m, nmax),
        workers=8,
        timeout=1500,
    )
    ctx.note("lonbox_states", r.distinct)
    # beyond the bound the greedy result depends on the order: TLC must find a counterexample
    r2 = ctx.tlc(
        "LonBox",
        lonbox_cfg(m, nmax, ["GreedyIsShortestAlways"]),
        what="order dependence beyond half a circle (a violation is expected)",
        workers=4,
        count=False,
        timeout=1500,
    )
    if r2.violated != "GreedyIsShortestAlways":
        raise Machinery("LonBox: expected a counterexample to GreedyIsShortestAlways, got %r" % (r2,))
    ctx.note("lonbox_order_dependence_beyond_half_circle", "exhibited (counterexample depth %d)" % r2.depth)


def lonbox_traces(ctx, rng, n):
    """Code -> spec for the helper itself: random insertion orders are fed to the real (private)
    _insert_pt_in_latlonbox on the cyclic lattice k * 2 pi / 24; TLC replays the LonBox machine over each
    recorded trace and compares the box after every step.  Descriptive binding: a mismatch is MODEL-DRIFT."""
    import numpy as np

    hux.import_ux()
    try:
        from uxarray.grid.geometry import _insert_pt_in_latlonbox as ins
        from uxarray.constants import INT_FILL_VALUE as FILL
    except Exception as e:  # noqa - the helper is private: its absence is drift, not a verdict
        print("MODEL-DRIFT: _insert_pt_in_latlonbox not importable (%s)" % e)
        return
    M = 24
    step = TWO_PI / M

    def proj(x):
        k = x / step
        return int(round(k)) % M if abs(k - round(k)) < 1e-9 else -7

    recs = []
    for t in range(n):
        if t % 3 == 0:  # extent below half a circle, any order, repeats
            base, width = rng.randrange(M), rng.randrange(1, M // 2)
            pts = [(base + rng.randrange(width + 1)) % M for _ in range(rng.randrange(1, 9))]
        else:  # anything
            pts = [rng.randrange(M) for _ in range(rng.randrange(1, 9))]
        box = np.full((2, 2), FILL, dtype=np.float64)
        boxes = []
        try:
            for j, p in enumerate(pts):
                box = ins(box, np.array([0.01 * j, p * step]))
                boxes.append([proj(float(box[1][0])), proj(float(box[1][1]))])
        except Exception as e:  # noqa
            boxes += [[-7, -7]] * (len(pts) - len(boxes))
        recs.append({"id": "t%d" % t, "pts": pts, "boxes": boxes})
    path = os.path.join(ctx.work, "lonbox_traces.ndjson")
    with open(path, "w") as fh:
        for r in recs:
            fh.write(json.dumps(r) + "\n")
    res = ctx.tlc_ok(
        "LonBoxTrace",
        "INIT Init\nNEXT Next\nINVARIANT Accept\nCHECK_DEADLOCK FALSE\n",
        what="validate %d recorded traces of _insert_pt_in_latlonbox against the LonBox machine" % n,
        env={"REC_FILE": path},
        workers=4,
        count=False,
        timeout=1500,
    )
    if res.distinct != n:
        raise Machinery("LonBoxTrace visited %d states for %d traces" % (res.distinct, n))
    rejected = parse_tagged(res.out, tags=("T",))
    ctx.traces += n
    ctx.note("lonbox_helper_traces", {"validated": n, "rejected": len(rejected)})
    if rejected:
        print("MODEL-DRIFT: %d of %d traces of _insert_pt_in_latlonbox differ from the LonBox machine, e.g. %s" % (len(rejected), n, rejected[0]))
    os.remove(path)


# ----------------------------------------------------------------------------- small faces (BoundsScale.tla)
M0 = 18
PQS = [(1, 0), (-1, 0), (1, 1), (2, 1), (-1, 2), (0, 1), (-2, -1), (1, -2)]  # (1, 0): across the prime meridian, (-1, 0): the antimeridian
SCALES = [(100, 1), (1000, 1), (10**4, 1), (10**5, 1), (100, 10), (100, 100), (100, 1000), (1000, 100), (10**4, 10)]  # (M, N)


def scale_cfg(mode, invs, maxn=6, pre=1, grow=1, seed=0):
    return (
        "INIT Init\nNEXT Next\nCONSTANTS\n Mode = \"%s\"\n MaxN = %d\n M0 = %d\n MSet = {19, 21, 24}\n SMax = 2\n PreMod = %d\n GrowMod = %d\n Seed = %d\n"
        % (mode, maxn, M0, pre, grow, seed)
        + "".join("INVARIANT %s\n" % i for i in invs)
        + "CHECK_DEADLOCK FALSE\n"
    )


def generate_small(ctx, what, pre, grow):
    """Planar bases x centre latitudes; TLC proves the scale law on each and emits S_M0,s(B) with its exact bounds."""
    r = ctx.tlc_ok(
        "BoundsScale",
        scale_cfg("planar", ["LawSmall", "LawSmallPolar", "SmallClosedForm", "Emit"], pre=pre, grow=grow, seed=ctx.seed % 1000),
        what=what,
        workers=8,
        timeout=3000,
    )
    cases = []
    for v in parse_tagged(r.out):
        c = to_case(v[1])
        c["base"] = [list(p) for p in v[1]["base"]]
        c["s"] = v[1]["s"]
        c["key"] = "S:%d:%s" % (c["s"], "|".join("%d,%d" % tuple(p) for p in c["base"]))
        cases.append(c)
    if len(cases) != r.distinct - 25 * 5:
        raise Machinery("small-face generator: %d cases for %d states" % (len(cases), r.distinct))
    cases.sort(key=lambda c: c["key"])
    return cases


def prove_lattice_scale_laws(ctx, cases):
    """LawPolar (N = 2, 3) and LawTurn (all PQ) on the very lattice faces whose polar images are replayed."""
    path = os.path.join(ctx.work, "lawfaces_%d.ndjson" % len(ctx.tlc_runs))
    with open(path, "w") as fh:
        for c in cases:
            fh.write(json.dumps({"f": c["f"]}) + "\n")
    r = ctx.tlc_ok(
        "BoundsScale",
        scale_cfg("file", ["LawPolar", "LawTurn"]),
        what="polar-scaling and turn laws (features inherited) on %d lattice faces" % len(cases),
        workers=8,
        env={"FACE_FILE": path},
        timeout=3000,
    )
    os.remove(path)
    return r


def scale_map(v, pq, n):
    p, q = pq
    return [p * v[0] - q * v[1], q * v[0] + p * v[1], n * v[2]]


def expand_small(cases, rng, per_case):
    items = []
    for c in cases:
        for _ in range(per_case):
            m, n = rng.choice(SCALES)
            if c["s"] == 0:
                n = 1  # polar scaling of an equator-centred face stretches it instead of moving it
            pq = rng.choice(PQS)
            cw = rng.random() < 0.5
            it = dict(c)
            it["fx"] = [scale_map([m, y, c["s"] * m + z], pq, n) for y, z in c["base"]]
            it.update(cw=cw, plon="zero", turned=pq != (1, 0), fam="small")
            it["id"] = "%s:M%d:N%d:pq%d,%d:%s" % (c["key"], m, n, pq[0], pq[1], "cw" if cw else "ccw")
            items.append(it)
    return items


def expand_polar(cases, rng, per_case):
    """Lattice faces inside one hemisphere, shrunk towards their pole by P_N (optionally turned)."""
    items = []
    for c in cases:
        for _ in range(per_case):
            n = rng.choice([10, 100, 1000])
            pq = rng.choice(PQS)
            cw = rng.random() < 0.5
            plons = ["zero", "west"] if ("cornerpole" in c["fams"] and c["lon"][0] == "iv") else ["zero"]
            for pl in plons:
                it = dict(c)
                it["fx"] = [scale_map(v, pq, n) for v in c["f"]]
                it.update(cw=cw, plon=pl, turned=pq != (1, 0), fam="polar")
                it["id"] = "P:%s:N%d:pq%d,%d:%s%s" % (c["key"], n, pq[0], pq[1], "cw" if cw else "ccw", ":pw" if pl == "west" else "")
                items.append(it)
    return items


# ----------------------------------------------------------------------------- faces of the repository's sample grids (float oracle)
GRID_FILES = [
    ("outCSne8", "exodus/outCSne8/outCSne8.g", {}),
    ("quad-hexagon", "ugrid/quad-hexagon/grid.nc", {}),
    ("mpas-QU-1920km", "mpas/QU/mesh.QU.1920km.151026.nc", {}),
    ("mpas-QU-1920km-dual", "mpas/QU/mesh.QU.1920km.151026.nc", {"use_dual": True}),
    ("geoflow-small", "ugrid/geoflow-small/grid.nc", {}),
]


def float_oracle(v):
    """Bounds of a convex face from float unit vectors (counter-clockwise).  NO exact oracle here: plain
    floating point, independent of uxarray's helpers.  Returns None when the face is not judged (not convex,
    an edge through a pole, a corner inside the pole snap cap, longitude extent >= 180 degrees)."""
    n = len(v)

    def det(a, b, c):
        return a[0] * (b[1] * c[2] - b[2] * c[1]) - a[1] * (b[0] * c[2] - b[2] * c[0]) + a[2] * (b[0] * c[1] - b[1] * c[0])

    for i in range(n):
        for w in range(n):
            if w != i and w != (i + 1) % n and det(v[i], v[(i + 1) % n], v[w]) < 1e-13:
                return None
    if any(math.hypot(p[0], p[1]) < 2 * SNAP_CAP for p in v):
        return None
    nz = [v[i][0] * v[(i + 1) % n][1] - v[i][1] * v[(i + 1) % n][0] for i in range(n)]
    for i in range(n):
        a, b = v[i], v[(i + 1) % n]
        if abs(nz[i]) < 1e-9 and a[0] * b[0] + a[1] * b[1] < 0:
            return None  # an edge in a meridian plane whose ends lie on opposite meridians: it passes through a pole
    north, south = all(x > 1e-9 for x in nz), all(x < -1e-9 for x in nz)
    lats = [math.atan2(p[2], math.hypot(p[0], p[1])) for p in v]
    hi, lo = max(lats), min(lats)
    for i in range(n):
        a, b = v[i], v[(i + 1) % n]
        nx, ny, nzz = a[1] * b[2] - a[2] * b[1], a[2] * b[0] - a[0] * b[2], a[0] * b[1] - a[1] * b[0]
        top = math.atan2(math.hypot(nx, ny), abs(nzz))
        if a[1] * nx - a[0] * ny > 0 and b[0] * ny - b[1] * nx > 0:
            hi = max(hi, top)
        if a[1] * nx - a[0] * ny < 0 and b[0] * ny - b[1] * nx < 0:
            lo = min(lo, -top)
    if north:
        return lo, math.pi / 2, 0.0, TWO_PI
    if south:
        return -math.pi / 2, hi, 0.0, TWO_PI
    lons = sorted(math.atan2(p[1], p[0]) % TWO_PI for p in v)
    gaps = [(lons[(i + 1) % n] - lons[i]) % TWO_PI for i in range(n)]
    k = max(range(n), key=lambda i: gaps[i])
    if TWO_PI - gaps[k] >= math.pi - 1e-6:
        return None
    return lo, hi, lons[(k + 1) % n], lons[k]


def gridfile_check(spec):
    import numpy as np

    name, path, kw, m = spec
    ux = hux.import_ux()
    out = {"name": name, "failures": [], "judged": 0, "skipped": 0, "n_face": 0}
    try:
        g = ux.open_grid(os.path.join(hux.REPO, "test", "meshfiles", path), **kw)
        conn = np.asarray(g.face_node_connectivity.values)
        npf = np.asarray(g.n_nodes_per_face.values)
        lon = np.deg2rad(np.asarray(g.node_lon.values, dtype=float))
        lat = np.deg2rad(np.asarray(g.node_lat.values, dtype=float))
    except Exception as e:  # noqa - reading the sample file is not what C13 is about
        out["unreadable"] = "%s: %s" % (type(e).__name__, str(e)[:160])
        return out
    out["n_face"] = int(conn.shape[0])
    try:
        b = np.asarray(g.bounds.values, dtype=float)
    except Exception as e:  # noqa - the property promises a value
        out["failures"].append({"face": -1, "clause": "FileValue", "detail": "%s: %s" % (type(e).__name__, str(e)[:160])})
        return out
    for k in range(conn.shape[0]):
        ids = [int(x) for x in conn[k, : int(npf[k])]]
        v = [(math.cos(lat[i]) * math.cos(lon[i]), math.cos(lat[i]) * math.sin(lon[i]), math.sin(lat[i])) for i in ids]
        if det3(v[0], v[1], v[2]) < 0:
            v = v[::-1]
        e = float_oracle(v)
        if e is None:
            out["skipped"] += 1
            continue
        out["judged"] += 1
        (lat_lo, lat_hi), (lon_lo, lon_hi) = b[k].tolist()
        bad = []
        if not lat_match(e[0], lat_lo):
            bad.append("FileLatMin")
        if not lat_match(e[1], lat_hi):
            bad.append("FileLatMax")
        if e[3] - e[2] >= TWO_PI - TOL:
            if not lon_hi - lon_lo >= TWO_PI - TOL:
                bad.append("FileLon")
        elif circ_diff(e[2], lon_lo) > TOL or circ_diff(e[3], lon_hi) > TOL or (lon_hi - lon_lo >= TWO_PI - TOL):
            bad.append("FileLon")
        if outside(v, m, lat_lo, lat_hi, lon_lo, lon_hi):
            bad.append("FileEnclosure")
        seam = any(float(np.mod(lon[i], 2 * np.pi)) == 2 * np.pi for i in ids)
        for clause in bad:
            if len(out["failures"]) < 50:
                out["failures"].append({"face": k, "clause": clause, "corner_lon_rounds_to_2pi": seam, "reported": b[k].tolist(), "float_oracle": list(e), "corners_lonlat_deg": [[math.degrees(lon[i]), math.degrees(lat[i])] for i in ids]})
    return out


def det3(a, b, c):
    return a[0] * (b[1] * c[2] - b[2] * c[1]) - a[1] * (b[0] * c[2] - b[2] * c[0]) + a[2] * (b[0] * c[1] - b[1] * c[0])


# ----------------------------------------------------------------------------- run
def expand(cases, rng, both_dirs=True):
    """Cases -> replay items: both traversal directions; a corner at a pole with longitude 0 and with
    the west-most corner's longitude (a pole's longitude is arbitrary)."""
    items = []
    for c in cases:
        dirs = [False, True] if both_dirs else [rng.random() < 0.5]
        plons = ["zero", "west"] if ("cornerpole" in c["fams"] and c["lon"][0] == "iv") else ["zero"]
        for cw in dirs:
            for pl in plons:
                it = dict(c)
                it["cw"] = cw
                it["plon"] = pl
                it["id"] = "%s%s%s" % (c["key"], ":cw" if cw else ":ccw", ":pw" if pl == "west" else "")
                items.append(it)
    return items


GROUP = {
    "Value": "value",
    "LatMaxTight": "lat_max",
    "EnclLatHi": "lat_max",
    "LatMinTight": "lat_min",
    "EnclLatLo": "lat_min",
    "LonFull": "lon",
    "LonWest": "lon",
    "LonEast": "lon",
    "Wrap": "lon",
    "EnclLon": "lon",
}


def violation_sig(clause, sig, rec, item):
    """Projection of the signature decided by TLC (JudgeBounds!Sig) onto the failed clause: which bound the clause is
    about and that bound's TLC-decided flags; plus two numeric fields evaluated by the harness on the face as handed
    over, which only narrow known findings (they never decide a verdict)."""
    s = dict(sig)
    g = GROUP[clause]
    s["bound"] = g
    s["bound_only_at_bulge_starters"] = bool(
        (g == "lat_min" and sig["min_only_at_bulge_starters"]) or (g == "lat_max" and sig["max_only_at_bulge_starters"])
    )
    s["bound_only_at_edge_interior"] = bool(
        (g == "lat_min" and sig["min_only_at_edge_interior"]) or (g == "lat_max" and sig["max_only_at_edge_interior"])
    )
    f = real_face(item)
    n = len(f)
    # the interior extreme that attains the bound lies within isclose(rtol=1e-5, atol=1e-8) of an end point of its edge
    within = False
    if g in ("lat_min", "lat_max"):
        sign = 1 if g == "lat_max" else -1
        for ft in item["amax" if g == "lat_max" else "amin"]:
            if ft[0] == "e":
                ext = edge_extreme(f, ft[1], sign)
                ends = (corner_lat(f[ft[1] - 1]), corner_lat(f[ft[1] % n]))
                within = within or any(abs(e - ext) <= 1e-8 + 1e-5 * abs(ext) for e in ends)
    s["bulge_within_rtol"] = within
    # some edge's plane passes within 1e-8 (unnormalised, unit end points) of the polar axis
    def nz(a, b):
        la = math.sqrt(a[0] * a[0] + a[1] * a[1] + a[2] * a[2])
        lb = math.sqrt(b[0] * b[0] + b[1] * b[1] + b[2] * b[2])
        return abs(a[0] * b[1] - a[1] * b[0]) / (la * lb)

    s["edge_plane_within_tol_of_axis"] = any(nz(f[i], f[(i + 1) % n]) <= 1e-8 for i in range(n))
    if clause == "Value":
        s["error"] = rec["error"].split(":")[0]
    return s


def run(ctx):
    rng = random.Random(ctx.seed)
    thorough = ctx.tier == "thorough"
    m_samples = 64 if thorough else 32

    # 1. model of the periodic interval growth
    lonbox_model(ctx, thorough)
    lonbox_traces(ctx, rng, 2000 if thorough else 300)

    # 2. generation (TLC)
    if thorough:
        tri, _ = generate_lattice(ctx, "1/4 of the convex lattice triangles |c|<=2 (every start corner and rotation class occurs)", K=2, maxn=3, pre=4)
        big, _ = generate_lattice(ctx, "convex lattice 4..8-gons |c|<=2 grown corner by corner from 1/120 of the triangles (1/3 of the extensions)", K=2, maxn=8, pre=120, grow=3)
        k3, _ = generate_lattice(
            ctx, "convex lattice 3..8-gons |c|<=3: 1/4000 of the triangles and 1/8 of their extensions; one-hemisphere faces all, others 1/8", K=3, maxn=8, pair=20, pre=200, grow=8, plain=8
        )
    else:
        tri, _ = generate_lattice(ctx, "1/100 of the convex lattice triangles |c|<=2; one-hemisphere faces all, others 1/2", K=2, maxn=3, pre=100, plain=2)
        big, _ = generate_lattice(ctx, "convex lattice 4..8-gons |c|<=2 grown from 1/1500 of the triangles", K=2, maxn=8, pre=1500, grow=3, plain=2)
        k3, _ = generate_lattice(
            ctx, "convex lattice 3..8-gons |c|<=3: 1/40000 of the triangles, one-hemisphere faces all, others 1/16", K=3, maxn=8, pair=40, pre=400, grow=12, plain=8
        )
    big = [c for c in big if len(c["f"]) > 3]
    cat_faces = catalogue_faces()
    cat, skipped = generate_file(ctx, cat_faces, "catalogue faces (3..8-gons) under Rot24 x start corner: quantifier membership and expected bounds")
    ctx.note("catalogue_faces_outside_quantifier", len(skipped))
    # small faces: planar bases under the scale laws, and one-hemisphere |c|<=2 lattice faces shrunk towards their pole
    small = generate_small(
        ctx,
        "scale law on planar bases (|y|,|z|<=2, 3..6 corners) x centre latitudes tan = -2..2: features of (M, y, sM+z) equal for M = 18, 19, 21, 24 "
        "and equal to the closed form; emitted with exact bounds at M = 18",
        pre=6 if thorough else 40,
        grow=6 if thorough else 8,
    )
    polar_bases = [c for c in tri + big if "one_hemisphere" in c["fams"]]
    if not thorough:
        polar_bases = rng.sample(polar_bases, min(len(polar_bases), 700))
    elif len(polar_bases) > 12000:
        polar_bases = rng.sample(polar_bases, 12000)
    prove_lattice_scale_laws(ctx, polar_bases)
    ctx.note(
        "generated_cases",
        {"triangles_c2": len(tri), "grown_4_to_8_gons_c2": len(big), "faces_c3": len(k3), "catalogue": len(cat), "small_face_bases": len(small), "polar_bases": len(polar_bases)},
    )

    # 3. replay
    items = expand(tri, rng, both_dirs=not thorough) + expand(big, rng) + expand(k3, rng) + expand(cat, rng)
    items += expand_small(small, rng, 3 if thorough else 2) + expand_polar(polar_bases, rng, 2 if thorough else 1)
    seen = set()
    uniq = []
    for it in items:
        if it["id"] not in seen:
            seen.add(it["id"])
            uniq.append(it)
    items = uniq
    bsize = 256
    batches = [(items[k : k + bsize], m_samples) for k in range(0, len(items), bsize)]
    grid_specs = [("grid", (name, path, kw, m_samples)) for name, path, kw in GRID_FILES]
    done = pmap(work_item, grid_specs + batches, chunk=1)
    grid_results, recs = done[: len(grid_specs)], [r for b in done[len(grid_specs) :] for r in b]
    bad = [r for r in recs if "oracle_bad" in r]
    if bad:
        raise Machinery("the specification's own box does not enclose the sampled boundary of %s: %s" % (bad[0]["id"], bad[0]["oracle_bad"]))

    # 4. judge (TLC)
    verdicts = judge(ctx, recs)
    by_id = {it["id"]: it for it in items}
    rec_by_id = {r["id"]: r for r in recs}
    fam_count = {}
    hemi = {"one_hemisphere": 0, "touching_or_crossing_equator": 0}
    for it in items:
        targeted = [x for x in it["fams"] if x != "one_hemisphere"]
        ctx.count(1, (it["id"] if "fx" in it else it["key"], it["cw"]) if targeted else None)
        for fam in targeted or ["plain"]:
            fam_count[fam] = fam_count.get(fam, 0) + 1
        z = [v[2] for v in it["f"]]
        hemi["one_hemisphere" if (all(x > 0 for x in z) or all(x < 0 for x in z)) else "touching_or_crossing_equator"] += 1
    ctx.note("faces_by_family", fam_count)
    ctx.note("faces_by_hemisphere", hemi)
    ctx.note("faces_by_size", {str(n): sum(1 for it in items if len(it["f"]) == n) for n in range(3, 9)})
    n_fail = {}
    for rid in sorted(verdicts):
        failed, sig = verdicts[rid]
        it, r = by_id[rid], rec_by_id[rid]
        replay = {
            "face_ccw": real_face(it),
            "judged_as": it["f"],
            "handed_over_clockwise": it["cw"],
            "pole_corner_lon": it["plon"],
            "reported": r.get("box", r.get("error")),
            "expected": {"lat_min": it["latmin"], "lat_max": it["latmax"], "lon": it["lon"], "wrap": it["wrap"], "attain_max": it["amax"], "attain_min": it["amin"]},
        }
        for clause in failed:
            n_fail[clause] = n_fail.get(clause, 0) + 1
            ctx.violation(rid, clause, detail={"failed": failed, "encl": r.get("encl")}, sig=violation_sig(clause, sig, r, it), replay=replay)
    ctx.note("failed_clause_counts", n_fail)
    # 5. faces of the repository's sample grids: float oracle only (no exact oracle for arbitrary float corners)
    gsum = {}
    for g in grid_results:
        gsum[g["name"]] = {k: g[k] for k in ("n_face", "judged", "skipped") if k in g}
        if "unreadable" in g:
            gsum[g["name"]]["unreadable"] = g["unreadable"]
            print("INFO: sample grid %s could not be read (%s): not judged" % (g["name"], g["unreadable"]))
            continue
        ctx.traces += g["judged"]
        ctx.count(g["judged"])
        for fl in g["failures"]:
            ctx.violation("grid:%s:face%d" % (g["name"], fl["face"]), fl["clause"], detail=fl, sig={"source": "sample_grid", "grid": g["name"], "oracle": "float", "corner_lon_rounds_to_2pi": fl.get("corner_lon_rounds_to_2pi", False)}, replay=fl)
    ctx.note("sample_grids_float_oracle", gsum)
    ctx.note("faces_with_a_failed_clause", len(verdicts))
    for it in items[:1] + items[len(items) // 2 : len(items) // 2 + 1] + items[-1:]:
        r = rec_by_id[it["id"]]
        ctx.sample({"id": it["id"], "face": it["f"], "expected": {"lat_max": it["latmax"], "lat_min": it["latmin"], "lon": it["lon"], "wrap": it["wrap"]}, "reported": r.get("box", r.get("error"))})
    ctx.exhaustive = False  # the LonBox model is exhaustive within its bounds; the faces are a deterministic sample of the lattice scope
    ctx.rule = (
        "TLC enumerates convex CCW faces on the primitive directions of the lattice |c|<=2 (thorough: 1/4 of all 416 064 triangles and 4..8-gons "
        "grown corner by corner from 1/120 of them; quick: 1/100 and 1/1500), a sample of 3..8-gons on |c|<=3, plus every catalogue face under the "
        "24 rotations and every start corner; it keeps those inside the quantifier and emits the exact expected bounds (BoundsSpec.tla). "
        "Each is handed to Grid.bounds in batches, in both traversal directions, a corner at a pole with longitude 0 and with the west-most "
        "corner's longitude; TLC judges the records (JudgeBounds.tla). Non-trivial = distinct (face, direction) in at least one targeted family "
        "(bulging edge, lowest corner starts a bulging edge, prime-meridian / antimeridian crosser, corner at a pole, pole inside)."
    )
    ctx.assumptions += [
        "TLC's evaluator, the CommunityModules Json reader",
        "float evaluation of exact descriptors (atan2 / sqrt) and the tolerance (latitudes 1e-8 = the library's documented ERROR_TOLERANCE, longitudes 1e-9) are applied by the harness",
        "enclosure is sampled at %d exact-parameter points per edge; the tightness clauses against the exact extremes make it complete for lattice faces" % (m_samples + 1),
        "lattice faces (|c| <= 3) are 10..170 degrees wide; small faces (down to ~1e-5 rad, generic positions, across both meridians, next to / around / at a pole) "
        "are images of TLC-judged faces under integer maps whose feature-inheritance laws TLC proves for small scale factors (BoundsScale.tla) and that hold for all by the stated polynomial argument",
        "latitudes inside the library's documented pole snap (|z| > 1 - 1e-8, 1.4e-4 rad) are identified with the pole; scale factors keep every non-pole corner outside it",
        "faces of the sample grids (outCSne8, quad-hexagon, MPAS QU 1920 km primal and dual, geoflow-small) are judged against a plain floating-point oracle and sampled enclosure: no exact oracle there",
    ]


def replay(path):
    """./check C13 --replay replays/C13_<clause>_<tier>.json : re-run the recorded cases against the implementation."""
    with open(path) as fh:
        data = json.load(fh)
    for v in data["cases"][:25]:
        rp = v["replay"]
        if "face_ccw" not in rp:  # a face of a sample grid file: recorded detail only
            print("%s clause=%s %s" % (v["key"], v["clause"], json.dumps(rp)[:600]))
            continue
        it = {"id": v["key"], "f": rp["face_ccw"], "cw": rp["handed_over_clockwise"], "plon": rp["pole_corner_lon"], "lon": rp["expected"]["lon"]}
        out = {}
        bounds_of([it], out)
        print("%s clause=%s" % (v["key"], v["clause"]))
        print("   expected lat_min=%s lat_max=%s (s*asin sqrt(N/D)) lon=%s wrap=%s" % (rp["expected"]["lat_min"], rp["expected"]["lat_max"], rp["expected"]["lon"], rp["expected"]["wrap"]))
        print("   reported now: %s   recorded: %s" % (out[it["id"]], rp["reported"]))
    return 0

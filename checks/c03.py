"""C03 - incidence tables are exact transposes of one another."""

from __future__ import annotations

import random

from checks import mesh_common as mc
from harness import meshgen
from harness.pool import pmap

PROP = "C03"


def run(ctx):
    rng = random.Random(ctx.seed)
    thorough = ctx.tier == "thorough"
    cases = []
    meshes4, n4 = mc.gen_scope(ctx, 4, 2, [3, 4], only_manifold=True)
    cases += [{"prop": PROP, "id": "s4f2:%d" % k, "mesh": m, "n_node": 4, "order": k, "l2": True} for k, m in enumerate(meshes4)]
    invs_light = ["TypeOK"]
    if thorough:
        m5, _ = mc.gen_scope(ctx, 5, 2, [3, 4, 5], only_manifold=True)
        cases += [{"prop": PROP, "id": "s5f2:%d" % k, "mesh": m, "n_node": 5, "order": k, "l2": True} for k, m in enumerate(m5)]
        m43, _ = mc.gen_scope(ctx, 4, 3, [3, 4], only_manifold=True, invs=["TypeOK", "L2_NodeFaces", "L2_EdgeFaces", "L2_FaceFaces"])
        cases += [{"prop": PROP, "id": "s4f3:%d" % k, "mesh": m, "n_node": 4, "order": k} for k, m in enumerate(m43)]
    else:
        m5, _ = mc.gen_scope(ctx, 5, 2, [3, 4, 5], only_manifold=True, invs=invs_light)
        for k in sorted(rng.sample(range(len(m5)), 3000)):
            cases.append({"prop": PROP, "id": "s5f2:%d" % k, "mesh": m5[k], "n_node": 5, "order": k, "l2": True})
        m43, _ = mc.gen_scope(ctx, 4, 3, [3, 4], only_manifold=True, invs=invs_light)
        for k in sorted(rng.sample(range(len(m43)), min(2000, len(m43)))):
            cases.append({"prop": PROP, "id": "s4f3:%d" % k, "mesh": m43[k], "n_node": 4, "order": k})
    ctx.exhaustive = True
    for k in range(40 if thorough else 10):
        nx, ny = rng.randint(3, 12 if thorough else 7), rng.randint(3, 12 if thorough else 7)
        lon, lat, faces = meshgen.planar_mixed(nx, ny, rng, holes=rng.choice([0.0, 0.15, 0.4, 0.7]))
        cases.append({"prop": PROP, "id": "planar:%d:%dx%d" % (k, nx, ny), "mesh": faces, "n_node": len(lon), "lon": lon, "lat": lat, "order": k})
    ctx.rule = (
        "TLC enumerates every *manifold* face-node table of the scope (MeshScope.tla, OnlyManifold), checks the L2 "
        "transcriptions of the node_face / edge_face (two-slot loop) / face_face builders against the L1 relations, "
        "dumps the tables; each is built with Grid.from_topology in one of three access orders and node_face, edge_face, "
        "face_face, hole_edge_indices (and dtype/fill flags) are judged per row by TLC. Random planar meshes with holes "
        "and isolated faces are judged the same way. Non-trivial = distinct table with >= 2 faces."
    )
    recs = pmap(mc.record_case, cases)
    failed, drift, errs = mc.judge(ctx, recs)
    by_id = {c["id"]: c for c in cases}
    for c in cases:
        ctx.count(1, (tuple(map(tuple, c["mesh"])), c["n_node"]) if len(c["mesh"]) >= 2 else None)
    for rid, msg in errs.items():
        ctx.violation(rid, "Raises", detail=msg, replay=by_id[rid], sig={"site": "incidence tables"})
    for rid, cl in failed.items():
        for clause in sorted(cl):
            ctx.violation(rid, clause, detail={"failed": sorted(cl)}, replay=by_id[rid], sig={"scope": rid.split(":")[0]})
    drift = {k: v for k, v in drift.items() if k not in failed}
    if drift:
        print("MODEL-DRIFT: %d records satisfy the relations but differ from the L2 transcription, e.g. %s" % (len(drift), sorted(drift.items())[:2]))
    ctx.note("model_drift_records", len(drift))
    for r in recs[:1] + recs[len(recs) // 2 : len(recs) // 2 + 1] + recs[-1:]:
        ctx.sample({k: r[k] for k in r if k in ("id", "mesh", "node_faces", "edge_faces", "face_faces", "holes")} if len(r.get("mesh", [])) < 12 else {"id": r["id"], "n_face": len(r["mesh"])})
    # 2. observation order, supplied tables, selected / dual grids, MPAS-shaped sources
    from checks import mesh_hist as mh

    mh.model_check(ctx)
    scope = mh.scope_pool(meshes4, 4, "s4f2", rng, 40) + mh.scope_pool(m5, 5, "s5f2", rng, 40) + mh.scope_pool(m43, 4, "s4f3", rng, 30)
    hcases, reqs = mh.assemble(ctx, PROP, rng, thorough, scope)
    hrecs, _, _ = mh.run_histories(ctx, PROP, hcases, reqs)
    mh.count_cases(ctx, hcases)
    for r in hrecs[:1] + hrecs[-1:]:
        ctx.sample({k: r[k] for k in r if k in ("id", "order", "derived_by")})
    ctx.rule += (
        " Histories: MeshOrder.tla (lazy grid by value; order independence, dims = shapes, joint coherence, supplied "
        "tables kept: proved for the intended mechanism, four variants refuted) generates every permutation of the core "
        "observables (en nf ef ff holes n_max_node_faces n_max_face_faces) and simulated orders over all 15 with isel / "
        "get_dual steps; MeshSrcGen.tla writes the supplied tables, MPAS encodings (padding: zero / last / size+1 / one; "
        "absent cells in any slot) and selections; every history is replayed on a real grid and judged by JudgeMeshHist.tla."
    )
    ctx.assumptions += [
        "TLC's evaluator and the CommunityModules Json reader",
        "projection of integer tables (fill value -> -1 after dtype/fill flags are recorded)",
        "only manifold tables are judged for edge_face / face_face (the property's quantifier)",
    ]


def replay(path):
    """./check C03 --replay replays/C03_<clause>_<tier>.json"""
    from checks import mesh_hist as mh

    return mh.replay_file(PROP, path)

"""C17 - topological aggregations reduce over exactly each element's nodes.

spec -> code: TLC enumerates small face-node tables with data rows (AggScope.tla), proves the
transcribed partition-and-gather equal to the declarative reductions, dumps the states; each is
replayed into UxDataArray.topological_<op>(destination) and TLC judges the recorded results
(JudgeAgg.tla).  code -> spec: catalogue polyhedra with mixed 3..8-gons (shuffled face order) and
random planar mixed meshes with random integer data, judged by the same relations.
"""

from __future__ import annotations

import json
import math
import os
import random
from fractions import Fraction

from checks import mesh_common as mc
from harness import catalog, lattice, meshgen, tlaval
from harness import ux as hux
from harness.core import Machinery
from harness.pool import pmap

PROP = "C17"
OPS = ["mean", "min", "max", "median", "std", "var", "sum", "prod", "all", "any"]
DESTS = ["face", "edge"]
INVS = ["TypeOK", "L2_Partition", "L2_FaceAgg", "PaddingIrrelevant", "WholeTableIsWrong", "L2_EdgeAgg", "Laws", "NonFinite", "TracerReadable"]
NANV, PINFV, NINFV = 1000001, 1000002, 1000003  # sentinels of Aggregate.tla for NaN, +inf, -inf in data rows and results
PADS = [0, 1, 2]  # extra width of the stored face-node table beyond its widest face (AggScope.Pads)
LEAD_NAMES = ["time", "lev", "ens"]
TOL = 1e-12


# ----------------------------------------------------------------------------- generation
def scope_cfg(nnode, maxfaces, sizes, canon, npat, salt, invs):
    return (
        "INIT Init\nNEXT Next\nCONSTANTS\n NNode = %d\n MaxFaces = %d\n Sizes = {%s}\n Canon = %s\n NPat = %d\n Salt = %d\n Pads = {%s}\n"
        % (nnode, maxfaces, ",".join(map(str, sizes)), "TRUE" if canon else "FALSE", npat, salt, ",".join(map(str, PADS)))
        + "".join("INVARIANT %s\n" % i for i in invs)
        + "CHECK_DEADLOCK FALSE\n"
    )


def gen_scope(ctx, tag, nnode, maxfaces, sizes, canon=False, npat=1, invs=INVS):
    dump = os.path.join(ctx.work, "agg_" + tag)
    r = ctx.tlc_ok(
        "AggScope",
        scope_cfg(nnode, maxfaces, sizes, canon, npat, ctx.seed % 8, invs),
        what="%s: L2 partition/gather = L1 reductions on all tables NNode=%d MaxFaces=%d Sizes=%s canon=%s NPat=%d invariants=%s"
        % (tag, nnode, maxfaces, sizes, canon, npat, ",".join(invs)),
        dump=dump,
        timeout=3000,
    )
    with open(dump + ".dump") as fh:
        states = tlaval.parse_dump(fh.read())
    os.remove(dump + ".dump")
    if len(states) != r.distinct:
        raise Machinery("dump has %d states, TLC reports %d" % (len(states), r.distinct))
    out = [([list(f) for f in s["mesh"]], [list(x) for x in s["rows"]]) for s in states]
    out.sort()
    return out


LAYOUTS = []  # filled by gen_layouts(): the layouts TLC enumerated (AggLayout.tla)


def gen_layouts(ctx):
    """Model-check the layout laws and return the layouts (dump) = the generated dimension arrangements."""
    dump = os.path.join(ctx.work, "agg_layouts")
    r = ctx.tlc_ok(
        "AggLayout",
        "INIT Init\nNEXT Next\nCONSTANTS\n MaxRank = 4\n SizePool = {1,2,3,4}\n MaxRows = 12\n"
        "INVARIANT L2_Layout\nINVARIANT OffsetLaw\nINVARIANT SwapDiffers\nCHECK_DEADLOCK FALSE\n",
        what="every position of the node dimension in rank 1..4 data with pairwise different other sizes: moveaxis/gather/moveaxis-back = fold per index tuple; flat-offset law; swapaxes variant differs iff node axis >= 2 from the end",
        dump=dump,
        timeout=1200,
    )
    with open(dump + ".dump") as fh:
        states = tlaval.parse_dump(fh.read())
    os.remove(dump + ".dump")
    if len(states) != r.distinct:
        raise Machinery("layout dump has %d states, TLC reports %d" % (len(states), r.distinct))
    out = [{"pos": s["layout"]["pos"], "lead": list(s["layout"]["lead"])} for s in states]
    out.sort(key=lambda l: (len(l["lead"]), l["pos"], l["lead"]))
    return out


def inject_nonfinite(rows, k):
    """Replace entries of the canonical rows by the sentinels of Aggregate.tla (materialised as NaN / inf)."""
    n = len(rows[0])
    for j, row in enumerate(rows):
        mode = (k + j) % 5
        a, b = (k + 2 * j) % n, (k + 3 * j + 1) % n
        if mode == 0:
            row[a] = NANV
        elif mode == 1:
            row[a] = PINFV
            if b != a:
                row[b] = NINFV
        elif mode == 2:
            row[a] = NINFV
        elif mode == 3:
            for i in range(n):
                row[i] = [NANV, PINFV, NINFV][(k + j) % 3]  # every corner of every element
        else:
            row[a] = PINFV
            if b != a:
                row[b] = NANV


def shape_case(cid, k, mesh, n_node, rows4, layout=None, backing=None, **extra):
    """Pick layout / dtype / denominator / backing by the case counter so all combinations occur."""
    lay = layout if layout is not None else LAYOUTS[k % len(LAYOUTS)]
    dtype = ["int", "float", "bool"][(k // 3) % 3]
    den = 2 if (dtype == "float" and (k // 9) % 2 == 1) else 1
    lead = list(lay["lead"])
    nrow = 1
    for x in lead:
        nrow *= x
    src = [list(r) for r in rows4]
    if dtype == "bool":
        src = [[1 if v > 0 else 0 for v in r] for r in src]
    # canonical rows: one node row per C-order index of the other dimensions; the four patterns, rotated further on
    rows = [src[j % 4][(j // 4) % n_node :] + src[j % 4][: (j // 4) % n_node] for j in range(nrow)]
    c = {"prop": PROP, "id": cid, "mesh": mesh, "n_node": n_node, "rows": rows, "den": den, "dtype": dtype, "lead": lead, "pos": lay["pos"], "k": k}
    # one block of 18 in six: the data as a chunked dask array
    c["backing"] = backing or ("dask" if (k // 18) % 6 == 1 else "numpy")
    # table layout: the stored face-node table as wide as its widest face, or 1 / 2 columns wider (every row padded)
    c["pad"] = PADS[(k // 2) % len(PADS)]
    # float data: one case in three carries non-finite values (NaN / +inf / -inf at one, two or all nodes of a row)
    if dtype == "float" and (k // 27) % 3 == 1:
        inject_nonfinite(c["rows"], k)
    c.update(extra)
    return c


# ----------------------------------------------------------------------------- replay
_MEMO = {}


def proj(x, squared=False):
    """float -> [p, q, flags]: nearest rational with q <= 4096 (of x*x if squared);
    flags bit0 exact, bit1 within 1e-12, bit2 x >= 0.  q = 0: not finite / absurd."""
    key = (x, squared)
    r = _MEMO.get(key)
    if r is not None:
        return r
    x = float(x)
    if x != x:
        r = [NANV, 0, 0]
    elif x == math.inf or x == -math.inf:
        r = [PINFV if (x > 0 or squared) else NINFV, 0, 0]
    elif abs(x) > 1e6:
        r = [0, 0, 0]
    else:
        y = x * x if squared else x
        fr = Fraction(y).limit_denominator(4096)
        if abs(fr.numerator) > 10**6:
            r = [0, 0, 0]
        else:
            val = math.sqrt(fr) if squared else float(fr)
            exact = (Fraction(y) == fr) if not squared else (x >= 0 and Fraction(x) ** 2 == fr)
            ok = abs(x - val) <= TOL if (not squared or x >= 0) else False
            r = [fr.numerator, fr.denominator, (1 if exact else 0) + (2 if ok else 0) + (4 if x >= 0 else 0)]
    if len(_MEMO) < 200000:
        _MEMO[key] = r
    return r


def build_grid(case):
    """Grid.from_topology of the case's mesh, the face-node table case['pad'] columns wider than its widest face."""
    import numpy as np

    ux = hux.import_ux()
    if "lon" in case:
        lon, lat = case["lon"], case["lat"]
    else:
        lon, lat = meshgen.arbitrary_coords(case["n_node"])
    INT_DTYPE, FILL = hux.consts()
    conn = hux.pad_table(case["mesh"], width=max(len(f) for f in case["mesh"]) + case.get("pad", 0))
    return ux.Grid.from_topology(np.array(lon, dtype=float), np.array(lat, dtype=float), conn, fill_value=FILL)


def run_ops(uxda, g, dests):
    """All ten reductions to each destination: projected result in its own C order, dims, shape, class, grid."""
    import numpy as np

    res = {}
    for dest in dests:
        res[dest] = {}
        for op in OPS:
            try:
                out = getattr(uxda, "topological_" + op)(destination=dest)
                vals = np.asarray(out.values)
                sq = op == "std"
                flat = [proj(x, sq) for x in vals.astype(float).ravel().tolist()]  # the result in its own C order
                same = (out.uxgrid is g) or bool(out.uxgrid == g)
                res[dest][op] = {
                    "flat": flat,
                    "dims": [str(d) for d in out.dims],
                    "shape": [int(s) for s in vals.shape],
                    "cls": type(out).__name__,
                    "same": bool(same),
                }
            except Exception as e:  # noqa - a supported combination must return numbers: recorded, judged
                res[dest][op] = {"err": "%s: %s" % (type(e).__name__, str(e)[:160])}
    return res


def record_case(case):
    import numpy as np

    ux = hux.import_ux()
    rec = {k: case[k] for k in ("id", "n_node", "mesh", "den", "dtype", "lead", "pos", "rows")}
    lead = case["lead"]
    pos = case["pos"]
    rec["lead_dims"] = LEAD_NAMES[: len(lead)]

    def ins(seq, x):
        return list(seq[:pos]) + [x] + list(seq[pos:])

    try:
        g = build_grid(case)
        rec["width"] = int(g.n_max_face_nodes)
        npdt = {"int": np.int64, "float": np.float64, "bool": np.bool_}[case["dtype"]]
        arr = np.array(case["rows"], dtype=np.int64).reshape(lead + [case["n_node"]])
        arr = np.ascontiguousarray(np.moveaxis(arr, -1, pos))  # the node axis at its position in this layout
        data = (arr / case["den"]).astype(npdt) if case["den"] != 1 else arr.astype(npdt)
        if (arr >= NANV).any():  # sentinels -> NaN, +inf, -inf (float data only)
            data = np.where(arr == NANV, np.nan, np.where(arr == PINFV, np.inf, np.where(arr == NINFV, -np.inf, data)))
        dims = ins(rec["lead_dims"], "n_node")
        rec["backing"] = case.get("backing", "numpy")
        if rec["backing"] == "dask":
            import dask.array as da

            data = da.from_array(data, chunks=tuple(ins([1] * len(lead), max(1, case["n_node"] // 2))))
        uxda = ux.UxDataArray(data, dims=dims, uxgrid=g, name="v")
        rows, dt_ok, fill_ok = hux.table(g.edge_node_connectivity)
        rec["edges"] = rows
        n_edge = len(rows)
    except Exception as e:  # noqa - building the grid is C01/C02's business: machinery here
        rec["error"] = "%s: %s" % (type(e).__name__, str(e)[:200])
        return rec
    res = run_ops(uxda, g, DESTS)
    rec["res"] = res
    # unsupported combinations: face- or edge-centred source (any destination), unknown destination
    unsup = []
    k = case.get("k", 0)
    n_face = len(case["mesh"])
    ops2 = [OPS[k % 10], OPS[(k + 3) % 10]]
    for src, n in (("face", n_face), ("edge", n_edge)):
        sdata = np.arange(int(np.prod(lead + [n]))).reshape(ins(lead, n)).astype(npdt)
        sda = ux.UxDataArray(sdata, dims=ins(rec["lead_dims"], "n_" + src), uxgrid=g, name="s")
        for j, dst in enumerate(["face", "edge", "node", "cell"]):
            op = ops2[j % 2]
            try:
                getattr(sda, "topological_" + op)(destination=dst)
                raised = False
            except Exception:  # noqa
                raised = True
            unsup.append({"src": src, "dst": dst, "op": op, "raised": raised})
    for j, dst in enumerate(["node", "cell", "faces"]):
        op = ops2[j % 2]
        try:
            getattr(uxda, "topological_" + op)(destination=dst)
            raised = False
        except Exception:  # noqa
            raised = True
        unsup.append({"src": "node", "dst": dst, "op": op, "raised": raised})
    rec["unsup"] = unsup
    rec["sizes"] = {"n_node": case["n_node"], "n_face": n_face, "n_edge": n_edge}
    return rec


# ----------------------------------------------------------------------------- histories (AggHist.tla)
COVER = {}
AGG_HIST_CFG = "SPECIFICATION Spec\nCONSTANTS\n SliceKeepsAggCache = %s\n MaxLen = %d\n MaxHandles = 2\nINVARIANT TypeOK\nINVARIANT AggOwn\nCHECK_DEADLOCK FALSE\n"


def gen_agg_histories(ctx, maxlen):
    """Model-check the intended machine, dump = all histories; refute the knob, return its counterexample history."""
    import re

    dump = os.path.join(ctx.work, "agg_hist")
    r = ctx.tlc_ok(
        "AggHist",
        AGG_HIST_CFG % ("FALSE", maxlen),
        what="history machine around the aggregations (Agg / Slice / Copy / Dual), intended mechanism: no handle aggregates with another handle's stored state; all histories of <= %d steps" % maxlen,
        dump=dump,
        timeout=1200,
    )
    with open(dump + ".dump") as fh:
        states = tlaval.parse_dump(fh.read())
    os.remove(dump + ".dump")
    hists = sorted({tuple(tuple(st) for st in s["hist"]) for s in states if len(s["hist"]) > 0})
    if len(hists) != r.distinct - 1:
        raise Machinery("history dump: %d histories for %d states" % (len(hists), r.distinct))
    rr = ctx.tlc("AggHist", AGG_HIST_CFG % ("TRUE", maxlen), what="mechanism sliceKeepsAggCache = TRUE must be refuted (AggOwn)", workers=1, timeout=600)
    if rr.violated != "AggOwn":
        raise Machinery("TLC did not refute mechanism sliceKeepsAggCache: violated=%s" % rr.violated)
    m = re.findall(r"/\\ hist = (<<.*>>)", rr.trace_text or rr.out)
    if not m:
        raise Machinery("no counterexample history for sliceKeepsAggCache")
    cex = tuple(tuple(st) for st in tlaval.parse(m[-1]))
    # the refuting history ends when the subset is cut: the aggregation on the subset is what exposes it
    directed = [cex + (("agg", 2, "face"),), cex + (("agg", 2, "edge"), ("agg", 2, "face"))]
    ctx.note("mechanism_refuted_by_tlc", {"sliceKeepsAggCache": [list(st) for st in cex]})
    return hists, directed


def hist_sel(sel, mesh):
    nf = len(mesh)
    k = max(1, nf // 2)
    if sel == "low":
        return list(range(0, k))
    if sel == "high":
        return list(range(nf - k, nf))
    if sel == "onesize":
        small = min(len(f) for f in mesh)
        return [i for i, f in enumerate(mesh) if len(f) == small]  # one size class only: uniform, in the parent's wider table
    return list(range(0, nf, 2))


def _own_mesh(g):
    rows, _, _ = hux.table(g.face_node_connectivity)
    return [[n for n in row if n >= 0] for row in rows]


def _handle_record(ux, g, rid, k, dests, kind):
    """Aggregate a node row on handle g to the given destinations; record against the handle's OWN tables."""
    import numpy as np

    n = int(g.n_node)
    dtype = ["int", "float", "bool"][k % 3]
    row = [((j * 7 + k) % 9) - 4 for j in range(n)]
    if dtype == "bool":
        row = [1 if v > 0 else 0 for v in row]
    npdt = {"int": np.int64, "float": np.float64, "bool": np.bool_}[dtype]
    uxda = ux.UxDataArray(np.array(row, dtype=np.int64).astype(npdt), dims=["n_node"], uxgrid=g, name="v")
    res = run_ops(uxda, g, dests)  # first: the aggregation itself, before anything else is read from the handle
    rec = {"id": rid, "n_node": n, "mesh": _own_mesh(g), "den": 1, "dtype": dtype, "lead": [], "pos": 0, "lead_dims": [], "rows": [row],
           "dests": list(dests), "res": res, "unsup": [], "handle": kind, "width": int(g.n_max_face_nodes), "backing": "numpy"}  # fmt: skip
    rec["edges"] = hux.table(g.edge_node_connectivity)[0]
    return rec


def record_agg_hist(case):
    """Replay one history; every Agg step and, afterwards, both destinations on every handle are recorded."""
    ux = hux.import_ux()
    recs = []
    try:
        g0 = build_grid(case["root"])
        handles, kinds = [g0], ["root"]
        for si, st in enumerate(case["hist"]):
            kind = st[0]
            if st[1] - 1 >= len(handles):
                break  # a step on a handle that could not be built (dual of this mesh refused)
            h = handles[st[1] - 1]
            if kind == "agg":
                recs.append(_handle_record(ux, h, "%s@%d" % (case["id"], si), case["k"] + si, [st[2]], kinds[st[1] - 1]))
            elif kind == "slice":
                handles.append(h.isel(n_face=hist_sel(st[2], _own_mesh(h))))
                kinds.append("slice")
            elif kind == "copy":
                handles.append(h.copy())
                kinds.append("copy")
            elif kind == "dual":
                try:
                    handles.append(h.get_dual())
                    kinds.append("dual")
                except Exception:  # noqa - whether this mesh has a dual is C18's subject
                    break
        for hi, g in enumerate(handles):
            recs.append(_handle_record(ux, g, "%s#%d" % (case["id"], hi), case["k"] + 5 + hi, DESTS, kinds[hi]))
    except Exception as e:  # noqa
        return [{"id": case["id"] + "#0", "error": "%s: %s" % (type(e).__name__, str(e)[:200])}]
    return recs


def agg_hist_cases(rng, hists, directed):
    roots = []
    for name, cut, pad in (("cuboctahedron", 3, 0), ("truncated_octahedron_split", 2, 1), ("truncated_cube_split", 3, 0), ("cuboctahedron", 0, 0), ("rhombicuboctahedron", 5, 2)):
        e = catalog.entries(name=name, rot=0, cut=cut)[0]
        faces = [list(f) for f in e["faces"]]
        rng.shuffle(faces)  # any face ordering: sizes interleaved
        lonlat = [lattice.lonlat_deg(v) for v in e["nodes"]]
        roots.append({"id": "%s/c%d/pad%d" % (name, cut, pad), "mesh": faces, "n_node": len(e["nodes"]), "lon": [p[0] for p in lonlat], "lat": [p[1] for p in lonlat], "pad": pad})
    cases = []
    for k, h in enumerate(list(dict.fromkeys(directed + hists))):
        root = roots[k % len(roots)]
        cases.append({"id": "hist:%d:%s" % (k, root["id"]), "root": root, "hist": [list(st) for st in h], "k": k, "prop": PROP})
    for j, root in enumerate(roots):  # the directed histories on every root
        for d, h in enumerate(directed):
            cases.append({"id": "hist:cex%d:%s" % (d, root["id"]), "root": root, "hist": [list(st) for st in h], "k": j + d, "prop": PROP})
    return cases


# ----------------------------------------------------------------------------- code -> spec inputs
MIXED = [
    "cuboctahedron",
    "rhombicuboctahedron",
    "truncated_cube",
    "truncated_cube_split",
    "truncated_octahedron",
    "truncated_octahedron_split",
    "tetrahedron",
    "octahedron",
    "cube",
]


def catalogue_cases(rng, thorough):
    rots = [0] + (sorted(rng.sample(range(1, 25), 4)) if thorough else [rng.randrange(1, 25)])
    cuts = [0, 2, 3, 5] if thorough else [0, 3]
    out = []
    k = rng.randrange(18)
    for e in catalog.entries(name=MIXED, rot=rots, cut=cuts):
        faces = [list(f) for f in e["faces"]]
        for rep in range(2 if thorough else 1):
            fs = [f[j:] + f[:j] for f in faces for j in [rng.randrange(len(f))]]
            rng.shuffle(fs)  # any face ordering
            n = len(e["nodes"])
            lonlat = [lattice.lonlat_deg(v) for v in e["nodes"]]
            rows4 = [[rng.randint(-4, 4) for _ in range(n)] for _ in range(4)]
            out.append(
                shape_case(
                    "cat:%s:%d" % (catalog.eid(e), rep), k, fs, n, rows4, lon=[p[0] for p in lonlat], lat=[p[1] for p in lonlat]
                )
            )
            k += 1
    return out


def planar_cases(rng, n, size):
    out = []
    k = rng.randrange(18)
    for i in range(n):
        nx, ny = rng.randint(3, size), rng.randint(3, size)
        lon, lat, faces = meshgen.planar_mixed(nx, ny, rng, holes=rng.choice([0.0, 0.1, 0.3]))
        rows4 = [[rng.randint(-4, 4) for _ in range(len(lon))] for _ in range(4)]
        out.append(shape_case("planar:%d:%dx%d" % (i, nx, ny), k, faces, len(lon), rows4, lon=lon, lat=lat))
        k += 1
    return out


# ----------------------------------------------------------------------------- the check
def judge_records(ctx, recs, by_id):
    """TLC judges the records (JudgeAgg.tla); returns {id: set(failed clause names)}."""
    for r in recs:
        if "error" in r:
            raise Machinery("could not build the grid / data array of case %s: %s" % (r["id"], r["error"]))
    if not recs:
        return {}
    path = os.path.join(ctx.work, "agg_%d.ndjson" % len(ctx.tlc_runs))
    with open(path, "w") as fh:
        for r in recs:
            fh.write(json.dumps(r) + "\n")
    res = ctx.tlc_ok(
        "JudgeAgg",
        "INIT Init\nNEXT Next\nINVARIANT Judge\nCHECK_DEADLOCK FALSE\n",
        what="judge %d implementation records" % len(recs),
        env={"REC_FILE": path},
        count=False,
        timeout=3000,
    )
    if res.distinct < len(recs):
        raise Machinery("judge visited %d states for %d records" % (res.distinct, len(recs)))
    os.remove(path)
    ctx.traces += len(recs)
    failed, shapes = {}, {}
    for v in res.prints:
        if isinstance(v, tuple) and len(v) == 3 and v[0] == "V":
            failed.setdefault(recs[v[1] - 1]["id"], set()).add(v[2])
        elif isinstance(v, tuple) and len(v) == 3 and v[0] == "C":
            COVER[v[2]] = COVER.get(v[2], 0) + 1
    if res.out.count('"V"') != sum(len(x) for x in failed.values()):
        raise Machinery("judge output not fully parsed: %d verdict lines, %d parsed" % (res.out.count('"V"'), sum(len(x) for x in failed.values())))
    for rid, cl in failed.items():
        c = by_id[rid]
        for clause in sorted(cl):
            sig = {"scope": rid.split(":")[0], "dtype": c.get("dtype"), "rank": len(c.get("lead", [])) + 1, "pos": c.get("pos", 0), "backing": c.get("backing", "numpy")}
            if "hist" in c:
                sig["handle"] = c.get("handle")
            ctx.violation(rid, clause, detail={"failed": sorted(cl)}, replay=c, sig=sig)
    return failed


def run(ctx):
    rng = random.Random(ctx.seed)
    thorough = ctx.tier == "thorough"

    # 1. the partition on every size vector and every argsort outcome
    for maxf, sizes in [(5, [3, 4, 5, 6, 7, 8]), (6, [3, 4, 5])] if thorough else [(4, [3, 4, 5, 6, 7, 8])]:
        ctx.tlc_ok(
            "AggPart",
            "INIT Init\nNEXT Next\nCONSTANTS\n MaxF = %d\n Sizes = {%s}\nINVARIANT PartitionOK\nINVARIANT ShiftedIsWrong\nCHECK_DEADLOCK FALSE\n"
            % (maxf, ",".join(map(str, sizes))),
            what="size partition sound for every vector of <=%d face sizes from %s and every argsort outcome" % (maxf, sizes),
        )

    # 2. the position of the node dimension: layouts enumerated (and their laws proved) by TLC
    LAYOUTS[:] = gen_layouts(ctx)
    # 3. exhaustive small scopes: model-check L2 = L1, dump = generated cases
    cases = []

    def add(tag, states, n_node, pick=None):
        idx = range(len(states)) if pick is None or pick >= len(states) else sorted(rng.sample(range(len(states)), pick))
        for k in idx:
            mesh, rows4 = states[k]
            cases.append(shape_case("%s:%d" % (tag, k), k, mesh, n_node, rows4))

    add("s3f3", gen_scope(ctx, "s3f3", 3, 3, [3]), 3)  # n_node = n_face = n_edge = 3 occurs here
    add("s4f2", gen_scope(ctx, "s4f2", 4, 2, [3, 4], npat=2), 4, pick=None if thorough else 1200)
    if thorough:
        add("s5f2", gen_scope(ctx, "s5f2", 5, 2, [3, 4, 5], invs=["TypeOK", "L2_Partition", "L2_FaceAgg", "PaddingIrrelevant", "L2_EdgeAgg", "TracerReadable"]), 5, pick=5000)  # Laws / NonFinite / WholeTableIsWrong are proved on the other scopes
        add("c5f3", gen_scope(ctx, "c5f3", 5, 3, [3, 4, 5], canon=True, npat=2), 5, pick=4000)
        add("s4f3", gen_scope(ctx, "s4f3", 4, 3, [3, 4], invs=["TypeOK", "L2_Partition"]), 4, pick=3000)
    else:
        add("s5f2", gen_scope(ctx, "s5f2", 5, 2, [3, 5], invs=["TypeOK", "L2_Partition"]), 5, pick=500)
        add("c5f3", gen_scope(ctx, "c5f3", 5, 3, [3, 4, 5], canon=True, invs=["TypeOK", "L2_Partition", "L2_FaceAgg"]), 5, pick=500)
    # face sizes with gaps (triangles + pentagons, quads + hexagons), all face orderings
    add("g5f3", gen_scope(ctx, "g5f3", 5, 3, [3, 5], canon=True), 5, pick=None if thorough else 400)
    add("g6f3", gen_scope(ctx, "g6f3", 6, 3, [4, 6], canon=True, invs=INVS if thorough else ["TypeOK", "L2_Partition", "L2_FaceAgg"]), 6, pick=2000 if thorough else 300)
    # every layout x numpy / dask on one fixed mixed mesh (triangle + pentagon + quad), all reductions, both destinations
    lay_mesh = [[0, 1, 2], [2, 1, 3, 4, 5], [0, 2, 5, 4]]
    lay_rows = [[1, 2, 4, 8, 16, 32], [3, -1, 0, 2, -3, 4], [0, 0, 1, -2, 2, 1], [-4, 3, 3, 0, 1, -1]]
    for i, lay in enumerate(LAYOUTS):
        for backing in ("numpy", "dask"):
            cases.append(shape_case("lay:%d:%s" % (i, backing), i + (0 if backing == "numpy" else 5), lay_mesh, 6, lay_rows, layout=lay, backing=backing))
    # table layouts: uniform and mixed sizes in tables 1 / 2 columns wider than the widest face, numpy and dask
    wide = {"tri": [[0, 1, 2], [2, 1, 3], [3, 1, 4]], "quad": [[0, 1, 2, 3], [3, 2, 4, 5]], "mixed": [[0, 1, 2], [2, 1, 3, 4, 5], [0, 2, 5, 4]]}
    for nm, m in wide.items():
        for pad in PADS[1:]:
            for j, backing in enumerate(("numpy", "dask")):
                cases.append(shape_case("wide:%s:pad%d:%s" % (nm, pad, backing), 3 * pad + j, m, 6, lay_rows, backing=backing, pad=pad))
    # non-finite data, exhaustively on the fixed mixed mesh: each sentinel at each single node, the two infinities at
    # every ordered pair of nodes, NaN next to an infinity, and rows that are non-finite everywhere; numpy and dask
    base = lay_rows[1]
    nf_rows = []
    for sv in (NANV, PINFV, NINFV):
        nf_rows += [[sv if i == j else v for i, v in enumerate(base)] for j in range(6)]
        nf_rows.append([sv] * 6)
    nf_rows += [[PINFV if i == a else NINFV if i == b else v for i, v in enumerate(base)] for a in range(6) for b in range(6) if a != b]
    nf_rows += [[NANV if i == a else PINFV if i == (a + 1) % 6 else v for i, v in enumerate(base)] for a in range(6)]
    nf_rows.append([PINFV, NINFV] * 3)
    for j, row in enumerate(nf_rows):
        for backing in ("numpy", "dask"):
            c = shape_case("nonfinite:%d:%s" % (j, backing), 3, lay_mesh, 6, lay_rows, layout={"pos": 0, "lead": []}, backing=backing, pad=j % 3)
            c.update({"rows": [list(row)], "dtype": "float", "den": 1})
            cases.append(c)
    ctx.exhaustive = True
    n_small = len(cases)

    # 3. code -> spec: catalogue polyhedra (mixed 3..8-gons, coincident sizes) and random planar meshes
    cases += catalogue_cases(rng, thorough)
    cases += planar_cases(rng, 30 if thorough else 8, 12 if thorough else 7)

    by_id = {c["id"]: c for c in cases}
    recs = pmap(record_case, cases)
    # judge in slices so a TLC run stays small
    failed = {}
    small = recs[:n_small]
    big = recs[n_small:]
    step = 2000
    for a in range(0, len(small), step):
        failed.update(judge_records(ctx, small[a : a + step], by_id))
    failed.update(judge_records(ctx, big, by_id))

    # 4. histories around the aggregations (AggHist.tla): every aggregation on any handle (grid, subset, copy, dual)
    #    is the fold over that handle's own tables, whatever was aggregated on the parent before
    COVER.clear()
    hists, directed = gen_agg_histories(ctx, 4 if thorough else 3)
    hcases = agg_hist_cases(rng, hists, directed)
    nested = pmap(record_agg_hist, hcases)
    hrecs, hby = [], {}
    for c, rs in zip(hcases, nested):
        for r in rs:
            hrecs.append(r)
            hby[r["id"]] = {"id": r["id"], "hist_id": c["id"], "hist": c["hist"], "root": c["root"], "k": c["k"], "handle": r.get("handle"), "dtype": r.get("dtype"), "prop": PROP}
    for a in range(0, len(hrecs), step):
        failed.update(judge_records(ctx, hrecs[a : a + step], hby))
    for need in ("UniformInWiderTable", "MixedSubset"):
        if not COVER.get(need):
            raise Machinery("aggregation histories / table layouts are vacuous: no record with %s" % need)
    ctx.note("histories_generated_by_tlc", len(hists))
    ctx.note("histories_replayed", len(hcases))
    ctx.note("history_records_judged", len(hrecs))
    ctx.note("coverage_decided_by_tlc", dict(COVER))
    ctx.note("table_pads_replayed", sorted({c.get("pad", 0) for c in cases}))
    for hc in hcases:
        ctx.count(1, ("hist", tuple(map(tuple, hc["hist"])), hc["root"]["id"]))

    combos = set()
    laycov = set()
    coincident = 0
    for c, r in zip(cases, recs):
        m = c["mesh"]
        sizes = {len(f) for f in m}
        nontrivial = len(m) >= 2
        ctx.count(20, (tuple(map(tuple, m)), tuple(map(tuple, c["rows"])), c["dtype"], c["den"]) if nontrivial else None)
        combos.add((c["dtype"], len(c["lead"]) + 1, len(sizes) > 1))
        laycov.add((c["pos"], tuple(c["lead"]), c["backing"]))
        s = r.get("sizes", {})
        if s and (s["n_node"] == s["n_face"] or s["n_node"] == s["n_edge"]):
            coincident += 1
    ctx.note("dtype_rank_mixed_combinations", sorted(combos))
    ctx.note("layouts_enumerated_by_tlc", len(LAYOUTS))
    ctx.note("layout_x_backing_combinations_replayed", len(laycov))
    ctx.note("cases_node_axis_two_or_more_from_last", sum(1 for c in cases if len(c["lead"]) - c["pos"] >= 2))
    ctx.note("coincident_size_grids", coincident)
    ctx.note("unsupported_calls_judged", sum(len(r.get("unsup", [])) for r in recs))
    ctx.rule = (
        "TLC enumerates every face-node table of the scope with data rows (AggScope.tla; AggPart.tla for the size partition "
        "on all size vectors and all argsort outcomes), proves the transcribed partition/gather equal to the declarative "
        "reductions, dumps the states; each state is replayed through UxDataArray.topological_<op>(destination) for all ten "
        "reductions and both destinations, with the node dimension at every position of rank 1..4 data (layouts enumerated by TLC, "
        "AggLayout.tla; other dims of pairwise different sizes), dtype int/float/bool and numpy/dask backing chosen cyclically and "
        "every layout x backing on a fixed mixed mesh, plus 11 unsupported "
        "source/destination calls; JudgeAgg.tla decides every value by integer cross-multiplication against the spec's "
        "rational at the C-order offset the layout demands, dims labels, shape, class, grid, raises. An evaluation = one (case, reduction, destination). Non-trivial = "
        "distinct (table, data, dtype) with >= 2 faces."
    )
    for r in recs[:1] + recs[n_small - 1 : n_small] + recs[-1:]:
        if "res" in r:
            ctx.sample(
                {
                    "id": r["id"],
                    "mesh": r["mesh"] if len(r["mesh"]) < 6 else "%d faces" % len(r["mesh"]),
                    "rows": r["rows"] if r["n_node"] < 8 else "...",
                    "dtype": r["dtype"],
                    "den": r["den"],
                    "pos": r["pos"],
                    "lead": r["lead"],
                    "face.mean dims/shape": [r["res"]["face"]["mean"].get("dims"), r["res"]["face"]["mean"].get("shape")],
                    "face.mean flat[p,q,flags]": (r["res"]["face"]["mean"].get("flat") or [None])[:4],
                    "edge.sum flat": (r["res"]["edge"]["sum"].get("flat") or [None])[:4],
                    "unsup": r["unsup"][:3],
                }
            )
    ctx.assumptions += [
        "TLC's evaluator and the CommunityModules Json reader",
        "projection of a float result to the nearest rational with denominator <= 4096 plus exact / 1e-12 flags (Python fractions); the equality with the expected rational is decided by TLC",
        "the edge destination is judged against the grid's own edge_node_connectivity (its correctness is C02)",
        "data are small integers or halves, so sums / products / extrema are exact in binary floating point",
        "'node-centred arrays of any rank' is read as: the node dimension may sit at any position (as the fix ba0bc77d established); the destination dimension must take that position",
        "table layouts: face-node tables 0 / 1 / 2 columns wider than their widest face (AggScope.Pads); histories: subset / copy / dual handles are judged on their OWN face_node and edge_node tables (their faithfulness to the parent is C09 / C18)",
        "non-finite float data: the expected value is the IEEE result of the reduction over the element's own corners as numpy computes it (NaN propagates through all but all/any, where it is true; var/std are NaN as soon as a value is not finite), compared by kind and sign exactly",
        "dask-backed (chunked) node data exercised on one block of cases in six; results are computed eagerly by the library",
    ]


def replay(path):
    """./check C17 --replay <file>: re-run and re-judge the cases of a replay file."""
    from harness.core import Ctx

    with open(path) as fh:
        data = json.load(fh)
    cases = [v["replay"] for v in data["cases"] if v.get("replay")]
    ctx = Ctx(PROP, "replay", 0)
    plain = [c for c in cases if "hist" not in c]
    recs = [record_case(c) for c in plain]
    by = {c["id"]: c for c in plain}
    done = set()
    for c in cases:
        if "hist" in c and c["hist_id"] not in done:
            done.add(c["hist_id"])
            for r in record_agg_hist({"id": c["hist_id"], "root": c["root"], "hist": c["hist"], "k": c["k"]}):
                recs.append(r)
                by[r["id"]] = dict(c, id=r["id"])
    failed = judge_records(ctx, recs, by)
    for rid, cl in failed.items():
        print("REPLAY %s: failed %s" % (rid, sorted(cl)))
    import shutil

    shutil.rmtree(ctx.work, ignore_errors=True)
    return 1 if ctx.violations else 0

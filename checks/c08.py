"""C08 - reading from a grid never changes what any grid reports.

Specification: tla/GridLazy.tla (the Grid as a lazy, caching, aliasing state machine with its
mechanism choices as data), GridLazyGen.tla (history generator), TraceGridLazy.tla (trace
validation).  See DESIGN.md 6/C08."""

from __future__ import annotations

import random

from harness import gridcheck as gc
from harness.core import Machinery

PROP = "C08"

READ_FAMS = ["access", "areas", "trees", "plot", "data", "export", "derive", "chunk"]
# actions on the *other* grid that can only matter through process-global state
OTHER_FAMS = ["Access", "ToXarray", "ComputeAreas", "ToGdf", "ToLine", "GetBallTree", "Chunk", "Derive", "DataToGdf", "ToPoly", "GetKdTree"]

SOURCE_PAIRS = [
    {"1": "cubo", "2": "ugrid_edges"},
    {"1": "ugrid_edges", "2": "trocto_cut"},
    {"1": "trocto_cut", "2": "cube_xyz"},
    {"1": "cube_xyz", "2": "quadhex"},
    {"1": "quadhex", "2": "tetrakis"},
    {"1": "tetrakis", "2": "cubo"},
]

MODEL_RUNS = [
    # (focus, handles, base, constraint)  exhaustive unless a constraint is given
    (["trees", "metrics"], (1,), (1,), None),
    (["plot", "data", "flags"], (1,), (1,), None),
    (["access", "areas"], (1,), (1,), None),
    (["export", "data"], (1, 2), (1, 2), None),
]


def model_phase(ctx):
    """The intended mechanism satisfies every invariant; the pinned (pre-fix) mechanism violates
    them (the model can tell the difference: guards against a vacuous specification)."""
    for focus, handles, base, constraint in MODEL_RUNS:
        c = gc.cfg("MechIntended", focus, handles, base, 2, gc.INVARIANTS, constraint=constraint)
        r = ctx.tlc_ok("GridLazy", c, what="GridLazy(MechIntended) invariants, focus=%s handles=%s" % (focus, handles), workers=8, coverage=False, timeout=1500)
    found = {}
    for focus, inv in (
        (["trees"], "Refines"),
        (["plot"], "CacheKeysComplete"),
        (["plot"], "Refines"),
        (["export"], "TemplatesConstant"),
        (["access", "areas"], "Refines"),
    ):
        c = gc.cfg("MechPinned", focus, (1, 2), (1, 2), 2, [inv])
        r = ctx.tlc("GridLazy", c, what="GridLazy(MechPinned) must violate %s, focus=%s" % (inv, focus), workers=4, count=False, timeout=600)
        if r.violated != inv:
            raise Machinery("the pinned mechanism does not violate %s under focus %s (vacuous model?): %r" % (inv, focus, r))
        found["%s/%s" % ("+".join(focus), inv)] = r.depth
    ctx.note("pinned_mechanism_counterexamples", found)


def run(ctx):
    import time

    rng = random.Random(ctx.seed)
    thorough = ctx.tier == "thorough"
    t0 = time.time()
    model_phase(ctx)
    t1 = time.time()

    # ---- generation: all pairs of read-only operations (TLC), plus simulated long histories
    focus = READ_FAMS + (["flags", "metrics"] if thorough else [])
    hs = gc.generate(ctx, focus, 2, OTHER_FAMS if thorough else ["ToXarray", "Access", "DataToGdf", "ToLine"], "all histories of two read-only operations (focus=%s)" % focus, workers=8)
    if not thorough:
        # quick: every pair on one grid; cross-grid pairs only where the first operation is of a family
        # that touches process-global state; a third of the same-grid pairs per run (rotating by seed)
        same = [h for h in hs if all(st[1] == 1 for st in h)]
        cross = [h for h in hs if h[0][1] != h[1][1]]
        # always: pairs that start with one of the few operations that restructure the grid's dataset
        # (chunking, deriving a grid, exporting, an explicit area computation); the rest rotates with the seed
        always = [h for h in same if h[0][0] in ("Chunk", "Derive", "ToXarray", "ComputeAreas")]
        same = [h for h in same if h[0][0] not in ("Chunk", "Derive", "ToXarray", "ComputeAreas")]
        rng.shuffle(same)
        rng.shuffle(cross)
        hs = always + same[: max(0, 4200 - len(always))] + cross[: 1400]
        ctx.note("pairs_always_replayed", len(always))
    else:
        # thorough: every pair on one grid; the cross-grid pairs are a seeded sample (all of them took the tier
        # beyond half an hour)
        same = [h for h in hs if all(st[1] == 1 for st in h)]
        cross = [h for h in hs if not all(st[1] == 1 for st in h)]
        rng.shuffle(cross)
        hs = same + cross[: max(0, 90000 - len(same))]
        ctx.note("pairs_thorough", {"same_grid": len(same), "cross_grid_sampled": len(hs) - len(same), "cross_grid_all": len(cross)})
    # three-step histories within one cache family (a wrapper switched away and back, a cache hit
    # after an uncached call with other arguments): all of them for the trees, a sample for plotting
    tree3 = gc.generate(ctx, ["trees", "norec"], 3, [], "all histories of three tree requests on one grid", handles=(1, 2), base=(1, 2), workers=8)
    tree3 = [h for h in tree3 if all(st[1] == 1 for st in h)]
    plot3 = gc.generate(ctx, ["plot", "data"], 3, [], "all histories of three plotting conversions on one grid", handles=(1,), base=(1,), workers=8)
    rng.shuffle(plot3)
    # (thorough: a seeded third of them; replaying all 46 656 took the tier beyond half an hour)
    plot3 = plot3[: (16000 if thorough else 1200)]
    # ... and with the cache / override flags on one representative conversion per kind plus the data conversions
    flag3 = gc.generate(ctx, ["plot1", "data", "flags"], 3, [], "all histories of three flagged conversions on one grid", handles=(1,), base=(1,), workers=8)
    rng.shuffle(flag3)
    flag3 = flag3[: (8000 if thorough else 1200)]
    ctx.note("three_step_histories", {"trees": len(tree3), "plot": len(plot3), "flags": len(flag3)})
    hs = hs + tree3 + plot3 + flag3
    long_hs = gc.generate(
        ctx,
        READ_FAMS + ["flags", "metrics"],
        12 if thorough else 8,
        OTHER_FAMS,
        "simulated long read-only histories",
        workers=1,
        simulate="num=%d" % (200 if thorough else 40),
        depth=12 if thorough else 8,
        seed=ctx.seed + 11,
    )
    # (TLC evaluates the emitting invariant on every successor of a simulated prefix, so each
    # simulated prefix arrives with every possible last step: sample from that pool)
    rng.shuffle(long_hs)
    long_hs = long_hs[: (3000 if thorough else 300)]
    ctx.note("long_histories", len(long_hs))
    hs = hs + long_hs
    jobs = []
    for k, h in enumerate(hs):
        pairs = [SOURCE_PAIRS[k % len(SOURCE_PAIRS)]]
        for sp in pairs:
            jobs.append((len(jobs) + 1, h, sp))
    t2 = time.time()
    traces = gc.replay_all(jobs)
    t3 = time.time()
    viol, drift = gc.validate(ctx, traces, "validate %d recorded traces against GridLazy" % len(traces))
    ctx.note("phase_seconds", {"model": round(t1 - t0, 1), "generate": round(t2 - t1, 1), "replay": round(t3 - t2, 1), "validate": round(time.time() - t3, 1)})
    gc.report(ctx, traces, viol, drift)
    gc.binding_selftest(ctx, [t for t in traces if t["tid"] not in viol])
    if thorough:
        # code -> specification on the histories the repository's own tests perform
        gc.recorder_run(ctx)
        # the same machine with numba's JIT off: a sample of the histories, judged by TLC as well, and a panel of
        # fresh values compared across the two configurations
        from harness import gridops as G

        sample = [j for k, j in enumerate(jobs) if k % max(1, len(jobs) // 600) == 0][:600]
        off = gc.jit_off_run(ctx, [(900000 + k, j[1], j[2]) for k, j in enumerate(sample)], ["cubo", "trocto_cut", "cube_xyz", "ugrid_edges", "quadhex"], G.QUICK_OPS)
        v2, d2 = gc.validate(ctx, off, "validate %d traces recorded with JIT off against GridLazy" % len(off))
        gc.report(ctx, off, v2, d2)
    ctx.exhaustive = True
    ctx.rule = (
        "TLC proves the invariants of GridLazy under the intended mechanism (exhaustive per action family) and that the "
        "pre-fix mechanism violates them; TLC enumerates every history of two read-only operations over the machine's "
        "alphabet (quick: all same-grid pairs sampled to 4200 plus 1400 cross-grid pairs; thorough: all same-grid pairs and a seeded sample of the cross-grid pairs up to 90 000, incl. "
        "cache/override flags and metrics); every history is replayed on real grids of two "
        "different sources, each step's result, every stored variable and the module-level constants are compared with "
        "a freshly opened grid, and TLC validates the recorded trace against the machine, naming failing clauses. "
        "Non-trivial = distinct (history, sources) whose last step follows a step that changed the abstract state."
    )
    ctx.assumptions += [
        "a fresh grid is a new object built from the same source in the same process with module templates restored",
        "floats are compared with rtol=atol=1e-12 (different but equivalent code paths may differ in the last bits)",
        "JIT-off configuration is not exercised in this tier" if not thorough else "JIT off = NUMBA_DISABLE_JIT=1 with the package's own re-enabling at import neutralised (harness/x_c18.freeze_jit_off)",
    ]


def replay(path):
    return gc.replay_file(path)

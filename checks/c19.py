"""C19 - a grid shares no mutable state with its inputs, copies or exports.

Specification: tla/GridLazy.tla restricted to the aliasing alphabet (copy, public mutators,
caller edits of exports and of returned frames/collections, a few lazy derivations);
invariants NoSharedDatasets, ExportsDetached, HandleSeesOwnVersion, Refines.  Histories come
from GridLazyGen.tla; traces are validated by TraceGridLazy.tla, whose clause InputsKept
covers the constructor inputs.  See DESIGN.md 6/C19."""

from __future__ import annotations

import random

from harness import gridcheck as gc
from harness.core import Machinery

PROP = "C19"

ALIAS_FAMS = ["access1", "plot1", "export", "mutate", "edit", "copy", "chunk"]
ALL_ACTS = ["Access", "ToXarray", "ToGdf", "ToPoly", "ToLine", "Mutate", "EditExport", "EditReturned", "EditInput", "Copy", "Chunk"]

# handle 1 is built from each of these in turn: every constructor and input container kind
SOURCES1 = ["t_nd_std1", "t_nd_m1_0", "t_nd_std0", "t_list_m1_1", "t_nd_none1", "v_nd_ll", "v_list_xyz", "d_ugrid", "quadhex", "cube_xyz", "ugrid_edges"]


def model_phase(ctx):
    c = gc.cfg("MechIntended", ALIAS_FAMS, (1, 2), (1,), 2, gc.INVARIANTS, constraint="Depth5")
    ctx.tlc_ok("GridLazy", c, what="GridLazy(MechIntended) invariants on the aliasing alphabet, one grid + one copy slot, all histories of <= 4 steps", workers=8, timeout=1500)
    found = {}
    for inv in ("NoSharedDatasets", "ExportsDetached", "HandleSeesOwnVersion", "Refines"):
        c = gc.cfg("MechPinned", ALIAS_FAMS, (1, 2), (1,), 2, [inv])
        r = ctx.tlc("GridLazy", c, what="GridLazy(MechPinned) must violate %s" % inv, workers=4, count=False, timeout=600)
        if r.violated != inv:
            raise Machinery("the pinned mechanism does not violate %s on the aliasing alphabet (vacuous model?): %r" % (inv, r))
        found[inv] = r.depth
    c = gc.cfg("MechCopyDataShares", ALIAS_FAMS, (1, 2), (1,), 2, ["NoSharedDatasets"])
    r = ctx.tlc("GridLazy", c, what="GridLazy(MechCopyDataShares) must violate NoSharedDatasets", workers=4, count=False, timeout=600)
    if r.violated != "NoSharedDatasets":
        raise Machinery("a copy route that keeps the original's grid does not violate NoSharedDatasets in the model: %r" % r)
    found["copy_route_shares"] = r.depth
    c = gc.cfg("MechInputShares", ALIAS_FAMS, (1, 2), (1,), 2, ["HandleSeesOwnVersion"])
    r = ctx.tlc("GridLazy", c, what="GridLazy(MechInputShares) must violate HandleSeesOwnVersion", workers=4, count=False, timeout=600)
    if r.violated != "HandleSeesOwnVersion":
        raise Machinery("a grid that keeps the caller's buffers does not violate HandleSeesOwnVersion in the model: %r" % r)
    found["input_buffers_kept"] = r.depth
    ctx.note("pinned_mechanism_counterexamples", found)


# meshes of the readers' dialect lattice (Dialects.tla) used for the input-container sweep: a mixed-size
# mesh and a uniform one are enough, the sweep is about container kinds (dtype, start index, fill value,
# padding convention, coordinate kind) and not about geometry
INPUT_MESHES_QUICK = [2, 5]
INPUT_MESHES_THOROUGH = [2, 3, 5, 8]


def reader_inputs_phase(ctx, thorough):
    """Every in-memory source the readers' dialect lattice contains (Dialects.tla: route x dtype x start index x
    fill value x padding x coordinate kind ...) is handed to the public constructor twice; the input object is
    deep-fingerprinted before and after each construction and JudgeReaders.tla decides InputKept (nothing the
    caller handed over has changed) and DecodeRepeatable (the second grid equals the first)."""
    from checks import c01 as C01
    from harness import x_c01 as X
    from harness.pool import pmap

    ms, cases = C01.generate(ctx, INPUT_MESHES_THOROUGH if thorough else INPUT_MESHES_QUICK, C01.ROUTES)
    C01.mechanism_demo(ctx)
    work = []
    for k, c in enumerate(cases):
        c["k"] = k
        work.append((c, ms[c["mi"]], ctx.work, False))
    recs = [r for r in pmap(X.run_case, work) if "skip" not in r]
    good = [r for r in recs if "error" not in r]
    by_id = {w[0]["id"]: w[0] for w in work}
    failed, _ = C01.judge(ctx, good, "c19_inputs") if good else ({}, {})
    n_in = 0
    for r in good:
        if r.get("kept") is not None or r.get("changed") is not None:
            n_in += 1
        ctx.count(1, "input:" + r["id"])
    bad = 0
    for rid, cl in sorted(failed.items()):
        for clause in cl:
            if clause in ("InputKept", "DecodeRepeatable"):
                bad += 1
                c = by_id[rid]
                rec = next(r for r in good if r["id"] == rid)
                ctx.violation("input:" + rid, clause, detail={"changed": rec.get("changed"), "kept": rec.get("kept")}, sig=dict(C01.sig_of(c, clause), phase="reader_inputs"),
                              replay={"case": c, "mesh": ms[c["mi"]]})
    ctx.note("reader_inputs", {"sources": len(good), "with_input_fingerprint": n_in, "raised": len(recs) - len(good), "violations": bad})


def run(ctx):
    import time

    rng = random.Random(ctx.seed)
    thorough = ctx.tier == "thorough"
    t0 = time.time()
    model_phase(ctx)
    reader_inputs_phase(ctx, thorough)
    t1 = time.time()
    hs = gc.generate(ctx, ALIAS_FAMS, 3, ALL_ACTS, "all histories of three steps over the aliasing alphabet (grid 1 and its copy)", handles=(1, 2), base=(1,), workers=8, max_mut=2)
    n_all = len(hs)
    # a history without a mutator, edit or copy says nothing about aliasing
    hs = [h for h in hs if any(st[0] in ("Mutate", "EditExport", "EditReturned", "EditInput", "Copy") for st in h)]
    if not thorough:
        # stratified sample: histories are grouped by their pattern (the action names, with what is edited / exported /
        # how the grid is mutated) and drawn round-robin, so that every kind of alias is replayed in every run however
        # large the alphabet grows
        rng.shuffle(hs)
        buckets = {}
        for h in hs:
            pat = tuple(st[0] + (":" + str(st[2][0]) if st[0] in ("EditReturned", "Mutate", "ToXarray") and st[2] else "") for st in h)
            buckets.setdefault(pat, []).append(h)
        order = sorted(buckets)
        rng.shuffle(order)
        picked = []
        while len(picked) < 4200 and order:
            for pat in list(order):
                if buckets[pat]:
                    picked.append(buckets[pat].pop())
                else:
                    order.remove(pat)
                if len(picked) >= 4200:
                    break
        hs = picked
        ctx.note("history_patterns", len(buckets))
    jobs = []
    for k, h in enumerate(hs):
        # the copy slot is handle 2 in this configuration
        jobs.append((len(jobs) + 1, h, {"1": SOURCES1[k % len(SOURCES1)]}, "twin"))
    # directed: the shortest histories on which the mechanism AS OBSERVED violates the model's invariants
    # (today only the cached GeoDataFrame handed out itself) are replayed in every run
    directed = []
    for inv in ("Refines", "HandleSeesOwnVersion", "NoSharedDatasets", "ExportsDetached"):
        h = gc.counterexample_history(ctx, "MechObserved", ALIAS_FAMS, inv)
        if h is not None:
            directed.append((inv, h))
            for src in SOURCES1[:3]:
                jobs.append((len(jobs) + 1, h, {"1": src}, "twin"))
    ctx.note("observed_mechanism_counterexamples", [{"invariant": i, "history": gc.compact(h)} for i, h in directed])
    t2 = time.time()
    traces = gc.replay_all(jobs)
    t3 = time.time()
    viol, drift = gc.validate(ctx, traces, "validate %d recorded traces against GridLazy" % len(traces), handles=(1, 2), base=(1,))
    ctx.note("phase_seconds", {"model": round(t1 - t0, 1), "generate": round(t2 - t1, 1), "replay": round(t3 - t2, 1), "validate": round(time.time() - t3, 1)})
    ctx.note("histories_generated", n_all)
    gc.report(ctx, traces, viol, drift)
    ctx.exhaustive = thorough
    ctx.rule = (
        "TLC proves NoSharedDatasets, ExportsDetached, HandleSeesOwnVersion and Refines for GridLazy under the intended "
        "mechanism on the aliasing alphabet and shows the pre-fix mechanism violates each; TLC enumerates every history of "
        "three steps over {copy, normalize / construct_face_centers / setter, caller edits of exports and returned frames / "
        "collections, a few lazy reads, chunk} on a grid and its copy; each is replayed on a grid built by every constructor "
        "and input container kind in turn; after every step the constructor inputs are compared with their pre-construction "
        "snapshot and every handle's values with a fresh grid that underwent exactly that handle's own mutators; TLC validates "
        "the traces. Input containers: every in-memory source of the readers' dialect lattice (Dialects.tla) is passed to the "
        "public constructor twice and fingerprinted before and after; JudgeReaders.tla decides InputKept and DecodeRepeatable. "
        "Non-trivial = distinct history containing a mutator, edit or copy, or distinct reader source."
    )
    ctx.assumptions += [
        "a caller edit is an in-place change of values, attributes and columns of the returned object",
        "reference for a handle = fresh grid of the same source with that handle's own mutator sequence applied",
    ]


def replay(path):
    import json

    data = json.load(open(path))
    if any("case" in (v.get("replay") or {}) for v in data["cases"][:25]):
        from checks import c01 as C01  # a reader source: re-decode it twice and re-judge InputKept / DecodeRepeatable

        return C01.replay(path)
    return gc.replay_file(path)

"""Shared machinery of C02 / C03 / C17: generate face-node tables with TLC, replay them
into Grid.from_topology, record derived tables, have TLC judge the records."""

from __future__ import annotations

import json
import os
import random

from harness import tlaval
from harness import ux as hux
from harness.core import Machinery
from harness.pool import pmap

INVS = [
    "TypeOK",
    "StoreRoundTrip",
    "L2_NodesPerFace",
    "L2_Edges",
    "L2_FaceEdges",
    "L2_NodeFaces",
    "L2_EdgeFaces",
    "L2_FaceFaces",
    "EdgeCountLaw",
]


def scope_cfg(nnode, maxfaces, sizes, only_manifold, invs=INVS):
    return (
        "INIT Init\nNEXT Next\nCONSTANTS\n NNode = %d\n MaxFaces = %d\n Sizes = {%s}\n OnlyManifold = %s\n"
        % (nnode, maxfaces, ",".join(map(str, sizes)), "TRUE" if only_manifold else "FALSE")
        + "".join("INVARIANT %s\n" % i for i in invs)
        + "CHECK_DEADLOCK FALSE\n"
    )


def gen_scope(ctx, nnode, maxfaces, sizes, only_manifold=False, invs=INVS, workers=16):
    """Model-check L2 => L1 on the scope and return every table of it (from -dump)."""
    dump = os.path.join(ctx.work, "scope_%d_%d_%s" % (nnode, maxfaces, "".join(map(str, sizes))))
    r = ctx.tlc_ok(
        "MeshScope",
        scope_cfg(nnode, maxfaces, sizes, only_manifold, invs),
        what="L2=>L1 on all tables NNode=%d MaxFaces=%d Sizes=%s manifold=%s" % (nnode, maxfaces, sizes, only_manifold),
        workers=workers,
        dump=dump,
        timeout=3000,
    )
    with open(dump + ".dump") as fh:
        states = tlaval.parse_dump(fh.read())
    os.remove(dump + ".dump")
    meshes = [[list(f) for f in s["mesh"]] for s in states]
    if len(meshes) != r.distinct:
        raise Machinery("dump has %d states, TLC reports %d" % (len(meshes), r.distinct))
    meshes.sort()
    return meshes, nnode


# ----------------------------------------------------------------------------- replay
ORDERS = {
    "C02": [
        ["n_nodes_per_face", "edge_node_connectivity", "face_edge_connectivity", "n_edge", "n_max_face_edges"],
        ["face_edge_connectivity", "n_max_face_edges", "edge_node_connectivity", "n_edge", "n_nodes_per_face"],
        ["n_edge", "face_edge_connectivity", "n_nodes_per_face", "edge_node_connectivity", "n_max_face_edges"],
    ],
    "C03": [
        ["node_face_connectivity", "edge_face_connectivity", "face_face_connectivity", "hole_edge_indices", "edge_node_connectivity"],
        ["face_face_connectivity", "hole_edge_indices", "node_face_connectivity", "edge_face_connectivity", "edge_node_connectivity"],
        ["hole_edge_indices", "edge_node_connectivity", "edge_face_connectivity", "face_face_connectivity", "node_face_connectivity"],
    ],
}


def build_grid(case):
    """case: dict(mesh, n_node, lon?, lat?)"""
    import numpy as np

    ux = hux.import_ux()
    mesh = case["mesh"]
    n_node = case["n_node"]
    if "lon" in case:
        lon, lat = case["lon"], case["lat"]
    else:
        from harness.meshgen import arbitrary_coords

        lon, lat = arbitrary_coords(n_node)
    INT_DTYPE, FILL = hux.consts()
    # "extra_width": the table is wider than its largest face (every row ends in padding)
    conn = hux.pad_table(mesh, width=max(len(f) for f in mesh) + int(case.get("extra_width", 0)))
    return ux.Grid.from_topology(np.array(lon, dtype=float), np.array(lat, dtype=float), conn, fill_value=FILL)


def record_case(case):
    """Run one case against the implementation, return the projected record.

    An exception in the implementation is part of the record (`error`), never a crash of
    the harness: the property promises a value.
    """
    import numpy as np

    prop = case["prop"]
    rec = {"id": case["id"], "n_node": case["n_node"], "mesh": case["mesh"]}
    if case.get("l2") and not case.get("extra_width"):
        rec["l2"] = True
    if case.get("extra_width"):
        rec["width"] = max(len(f) for f in case["mesh"]) + int(case["extra_width"])
    try:
        g = build_grid(case) if "file" not in case else None
        order = ORDERS[prop][case.get("order", 0) % len(ORDERS[prop])]
        flags = {}
        for name in order:
            v = getattr(g, name)
            if name == "n_edge":
                rec["n_edge"] = int(v)
            elif name == "n_max_face_edges":
                rec["fe_width"] = int(v)
            elif name == "n_nodes_per_face":
                rec["npf"] = [int(x) for x in np.asarray(v.values)]
            elif name == "hole_edge_indices":
                rec["holes"] = [int(x) for x in np.asarray(v.values).ravel()]
            else:
                rows, dt, fl = hux.table(v)
                key = {
                    "edge_node_connectivity": "edges",
                    "face_edge_connectivity": "face_edges",
                    "node_face_connectivity": "node_faces",
                    "edge_face_connectivity": "edge_faces",
                    "face_face_connectivity": "face_faces",
                }[name]
                rec[key] = rows
                flags[key + "_dtype"] = dt
                flags[key + "_fill"] = fl
        if prop == "C03":
            rec["n_max_node_faces"] = int(g.n_max_node_faces)
        rec["flags"] = flags
        if case.get("closed_sphere"):
            rec["closed_sphere"] = True
            rec["n_edge"] = int(g.n_edge)
    except Exception as e:  # noqa
        rec["error"] = "%s: %s" % (type(e).__name__, str(e)[:200])
    return rec


def judge(ctx, records, module="JudgeMesh", workers=16, tag="rec"):
    """Have TLC judge the records; returns {id: set(failed clauses)} and {id: drift}."""
    errs = {r["id"]: r["error"] for r in records if "error" in r}
    good = [r for r in records if "error" not in r]
    failed, drift = {}, {}
    # TLC deserialises the whole record file in memory: judge in batches
    BATCH = 20000
    for b0 in range(0, len(good), BATCH):
        part = good[b0 : b0 + BATCH]
        path = os.path.join(ctx.work, "%s_%d_%d.ndjson" % (tag, len(ctx.tlc_runs), b0))
        with open(path, "w") as fh:
            for r in part:
                fh.write(json.dumps(r) + "\n")
        res = ctx.tlc_ok(
            module,
            "INIT Init\nNEXT Next\nINVARIANT Judge\nCHECK_DEADLOCK FALSE\n",
            what="judge %d implementation records" % len(part),
            env={"REC_FILE": path},
            workers=workers,
            count=False,
            timeout=3000,
        )
        if res.distinct < len(part):
            raise Machinery("judge visited %d states for %d records" % (res.distinct, len(part)))
        n_lines = res.out.count('"V"') + res.out.count('"D"')
        n_parsed = 0
        for v in res.prints:
            if isinstance(v, tuple) and len(v) == 3 and v[0] == "V":
                failed[v[1]] = set(v[2])
                n_parsed += 1
            elif isinstance(v, tuple) and len(v) == 3 and v[0] == "D":
                drift[v[1]] = set(v[2])
                n_parsed += 1
        if n_parsed != n_lines:
            raise Machinery("judge printed %d verdict lines, %d parsed" % (n_lines, n_parsed))
        ctx.traces += len(part)
        os.remove(path)
    return failed, drift, errs

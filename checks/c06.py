"""C06 - integration is the area-weighted sum over faces.

Specification: tla/Integrate.tla (the operation with its by-name precondition, its laws checked by
TLC over all small integer tables and weights, the case generator, and the judge).
"""

from __future__ import annotations

import json
import os
import random
import time

from harness import catalog
from harness import x_c05 as X
from harness import x_c06 as Y
from harness.core import Machinery
from harness.pool import pmap

PROP = "C06"

LAW_INVS = ["Linear", "OneGivesTotal", "ShapeEffect", "RejectsOthers", "SizeRuleDiffersOnlyOnCoincidence", "Positive", "EditIsolation", "SubsetLaws", "ScaleLaw", "OwnMeshesOK", "EmitOwnOnce"]


SCALES = [30, 1000, 30000, 300000]      # 6M lattice units to the axis: cells of 5.5e-3 ... 5.5e-7 rad


def _consts(maxf, vals, wts, quads, prevs, areas_return="fresh"):
    q = lambda xs: "{%s}" % ",".join('"%s"' % x for x in xs)
    return "CONSTANTS\n Scales = {%s}\n AreasReturn = \"%s\"\n MaxF = %d\n Vals = {%s}\n Wts = {%s}\n Quads = %s\n Prevs = %s\n" % (",".join(map(str, SCALES)), areas_return, maxf, ",".join(map(str, vals)), ",".join(map(str, wts)), q(quads), q(prevs))


def _nproc():
    return int(os.environ.get("VERIF_NPROC", "0")) or min(16, os.cpu_count() or 4)


def dims_stage(ctx, thorough, workers):
    """Two (three) grids opened one after the other in ONE process: DimsProcess.tla."""
    def cfg(scope, n, invs):
        return 'SPECIFICATION Spec\nCONSTANTS\n DictScope = "%s"\n MaxOpens = %d\n' % (scope, n) + "".join("INVARIANT %s\n" % i for i in invs) + "CHECK_DEADLOCK FALSE\n"

    n = 3 if thorough else 2
    r = ctx.tlc_ok("DimsProcess", cfg("per_grid", n, ["NodeDataRejected", "FaceDataIntegrated", "TemplatesConstant", "HistoryFree", "EmitFull"]), what="open_dataset histories over %d grids in one process, per-grid dimension dictionaries" % n, workers=2, timeout=600)
    hists = [v[1] for v in X.prints(r.out) if v[0] == "H"]
    if not hists:
        raise Machinery("DimsProcess emitted no history")
    for inv in ("NodeDataRejected", "TemplatesConstant"):
        rr = ctx.tlc("DimsProcess", cfg("module", 2, [inv]), what="a module-level dimension dictionary must violate %s" % inv, workers=2, count=False, timeout=600)
        if rr.violated != inv:
            raise Machinery("DimsProcess with DictScope = module: expected %s to be violated, got %r" % (inv, rr.violated))
    files = {}
    ddir = os.path.join(ctx.work, "dims")
    os.makedirs(ddir, exist_ok=True)
    items = []
    for k, h in enumerate(hists):
        opens = [[st["act"][0], sorted(st["act"][1])] for st in h]
        for fmt, kinds in opens:
            key = "%s|%s" % (fmt, "+".join(kinds))
            if key not in files:
                files[key] = os.path.join(ddir, key.replace("|", "_").replace("+", "_") + ".nc")
                Y.dims_write_data(files[key], fmt, kinds)
        items.append({"id": "dims:%d" % k, "opens": opens, "files": files})
    for it in items:
        it["files"] = dict(files)
    traces = pmap(Y.dims_case, items)
    for t in traces:
        if "machinery" in t:
            raise Machinery(t["machinery"])
    path = os.path.join(ctx.work, "dims.ndjson")
    with open(path, "w") as fh:
        for t in traces:
            fh.write(json.dumps({"id": t["id"], "steps": [{k: s[k] for k in ("fmt", "data", "obs", "templates_changed")} for s in t["steps"]]}) + "\n")
    res = ctx.tlc_ok("DimsProcess", 'INIT TrInit\nNEXT TrNext\nCONSTANTS\n DictScope = "per_grid"\n MaxOpens = 0\nINVARIANT TrJudge\nCHECK_DEADLOCK FALSE\n', what="judge %d recorded two-grid histories" % len(traces), env={"REC_FILE": path}, workers=2, count=False, timeout=600)
    if res.distinct < len(traces):
        raise Machinery("dims judge visited %d states for %d traces" % (res.distinct, len(traces)))
    os.remove(path)
    ctx.traces += len(traces)
    by = {t["id"]: t for t in traces}
    item_by = {it["id"]: it for it in items}
    for v in X.prints(res.out):
        if v[0] == "V":
            for step, clause in sorted(v[2]):
                st = by[v[1]]["steps"][step - 1]
                ctx.violation("%s@%d" % (v[1], step), clause, detail={"opens": item_by[v[1]]["opens"], "step": step, "observed": st},
                              sig={"fmt": st["fmt"], "after": [o[0] for o in item_by[v[1]]["opens"][: step - 1]]}, replay={"kind": "dims", "opens": item_by[v[1]]["opens"]})
    for t in traces:
        ctx.count(1, "dims:" + json.dumps(item_by[t["id"]]["opens"]))
    ctx.note("two_grid_histories", len(traces))
    return traces


def run(ctx):
    rng = random.Random(ctx.seed)
    thorough = ctx.tier == "thorough"
    workers = 4 if _nproc() < 8 else 8
    quads = ["t4", "g3", "g10", "t1"] if thorough else ["t4", "g3"]
    prevs = ["none", "face_areas", "compute_other"]
    ctx.rule = (
        "TLC checks the laws of Integrate (linearity, Integrate(1) = total area, exactly the face dimension removed, rejection by dimension NAME, and that "
        "size-based dispatch differs from it exactly on coincident sizes) over all small integer tables and weights, proves the coincident-size meshes "
        "(all 10 triangles on 5 nodes: n_face = n_edge; square pyramid and tetrahedron: n_face = n_node), and enumerates the cases grid x element kind x "
        "leading shape (rank 0..3) x dtype x quadrature x preceding operation x integer data pattern with expected outcome, dims and coefficient rows; "
        "each case is replayed into UxDataArray.integrate on a new Grid and the projected record (raise/return, dims, name, grid identity, shape, quantised "
        "deviation from SUM coeff*area of a fresh grid) is judged by TLC. Non-trivial = distinct case other than the all-ones face-centred rank-0 one."
    )
    # ---- 1. laws
    consts = _consts(3 if thorough else 2, [0, 3] if thorough else [0, 2, 3], [1, 3], quads, prevs)
    r = ctx.tlc_ok("Integrate", "INIT LawInit\nNEXT LawNext\n" + consts + "".join("INVARIANT %s\n" % i for i in LAW_INVS) + "CHECK_DEADLOCK FALSE\n", what="laws of Integrate over all small integer tables / weights; coincident-size meshes proved", workers=workers, timeout=3000)
    rr = ctx.tlc("Integrate", "INIT LawInit\nNEXT LawNext\n" + _consts(2, [0, 3], [1, 3], quads, prevs, "cached") + "INVARIANT EditIsolation\nCHECK_DEADLOCK FALSE\n", what="a grid that hands out its stored areas must violate EditIsolation", workers=2, count=False, timeout=600)
    if rr.violated != "EditIsolation":
        raise Machinery("Integrate with AreasReturn = cached: expected EditIsolation to be violated, got %r" % rr.violated)
    own, fans = None, None
    for v in X.prints(r.out):
        if v[0] == "M":
            own = [dict(m) for m in v[1]]
            fans = dict(v[2])
    if not own:
        raise Machinery("Integrate.tla did not emit its coincident-size meshes")
    meshes = []
    for m in own:
        fs = [list(f) for f in m["faces"]]
        meshes.append({"id": m["id"], "nodes": [list(n) for n in m["nodes"]], "faces": fs, "nf": m["nf"], "nn": m["nn"], "ne": m["ne"], "mixed": len(set(map(len, fs))) > 1, "scalable": m["id"] == "patch6_tri_quad"})
        if m["id"] == "patch6_tri_quad":
            # the harness's integer evaluation of the exact-area descriptor must reproduce TLC's at M = 1, 2, 5
            for M_, per_face in fans.items():
                for k_, f_ in enumerate(fs):
                    mine = X.fan_descr([X.shrink_x(int(M_), tuple(m["nodes"][v_])) for v_ in f_])
                    if mine != [list(t_) for t_ in per_face[k_]]:
                        raise Machinery("integer evaluation of the fan descriptor differs from TLC's (face %d, M = %s)" % (k_, M_))
    names = [("tetrahedron", 0, 0), ("cube", 0, 0), ("cuboctahedron", 0, 0), ("truncated_cube", 5, 3)]
    if thorough:
        names += [("tetrahedron", 9, 0), ("truncated_octahedron_split", 0, 0), ("rhombic_dodecahedron", 3, 2), ("cuboctahedron", 11, 5), ("octahedron", 0, 0), ("truncated_cube_split", 17, 0)]
    for name, rot, cut in names:
        es = catalog.entries(name=name, rot=rot, cut=cut)
        if len(es) != 1:
            raise Machinery("catalogue entry %s/r%d/c%d not found" % (name, rot, cut))
        e = es[0]
        nn_used = len(e["nodes"])
        meshes.append({"id": catalog.eid(e), "nodes": e["nodes"], "faces": e["faces"], "nf": len(e["faces"]), "nn": nn_used, "ne": e["n_edge"], "mixed": len(e["sizes"]) > 1, "scalable": False})
    if not any(m["nf"] == m["nn"] for m in meshes) or not any(m["nf"] == m["ne"] for m in meshes):
        raise Machinery("no coincident-size mesh in the case scope")
    # ---- 2. cases
    gpath = os.path.join(ctx.work, "grids.ndjson")
    with open(gpath, "w") as fh:
        for m in meshes:
            fh.write(json.dumps({"id": m["id"], "nf": m["nf"], "nn": m["nn"], "ne": m["ne"], "mixed": bool(m["mixed"]), "scalable": bool(m["scalable"])}) + "\n")
    r = ctx.tlc_ok("Integrate", "INIT CaseInit\nNEXT CaseNext\n" + consts + "INVARIANT CaseSound\nINVARIANT CaseEmit\nCHECK_DEADLOCK FALSE\n", what="integration cases on %d grids" % len(meshes), workers=workers, env={"GRID_FILE": gpath}, timeout=3000)
    by_mesh = {m["id"]: m for m in meshes}
    cases = []
    for v in X.prints(r.out):
        if v[0] != "K":
            continue
        k = v[1]
        e = dict(k["expected"])
        exp = {"outcome": e["outcome"]}
        if e["outcome"] != "Rejected":
            exp.update({"dims": list(e["dims"]), "name": e["name"], "shape": list(e["shape"]), "coeff": [list(row) for row in e["coeff"]]})
        parts = list(k["parts"])
        if parts:
            parts = [parts[0], parts[1], [list(row) for row in parts[2]], [list(row) for row in parts[3]]]
        cid = "%s|%s|%s|%s|%s|%s|%s" % (k["grid"], k["kind"], "x".join(map(str, k["lead"])) or "-", k["dtype"], k["quad"], k["prev"], k["pat"])
        if (k["layout"], k["storage"], k["api"]) != ("last", "numpy", "dataarray"):
            cid += "|%s|%s|%s" % (k["layout"], k["storage"], k["api"])
        if k["sel"]:
            cid += "|" + k["sel"]
        if k["mult"]:
            cid += "|M%d" % k["mult"]
        cases.append(
            {
                "id": cid,
                "grid": k["grid"],
                "kind": k["kind"],
                "lead": list(k["lead"]),
                "dtype": k["dtype"],
                "quad": k["quad"],
                "prev": k["prev"],
                "pat": k["pat"],
                "dims": list(k["dims"]),
                "name": k["name"],
                "table": [list(row) for row in k["table"]],
                "parts": parts,
                "coincident": bool(k["coincident"]),
                "layout": k["layout"],
                "storage": k["storage"],
                "api": k["api"],
                "square": bool(k["square"]),
                "sel": k["sel"],
                "mult": int(k["mult"]),
                "sel_faces": list(k["sel_faces"]),
                "comp_faces": list(k["comp_faces"]),
                "expected": exp,
                "mesh": by_mesh[k["grid"]],
            }
        )
    if len(cases) != r.distinct - 4 * len(meshes):
        raise Machinery("%d cases parsed, TLC enumerated %d" % (len(cases), r.distinct - 4 * len(meshes)))
    os.remove(gpath)
    ctx.exhaustive = True
    cases.sort(key=lambda c: c["id"])
    # ---- 2b. process-global state: several grids opened in one process
    X.warm_up()
    dims_stage(ctx, thorough, workers)
    # ---- 3. replay
    t0 = time.time()
    recs = pmap(Y.integrate_case, cases)
    ctx.note("replay_wall_s", round(time.time() - t0, 1))
    for x in recs:
        if "machinery" in x:
            raise Machinery(x["machinery"])
    # ---- 4. judge
    path = os.path.join(ctx.work, "integ.ndjson")
    keys = ("id", "coincident", "expected", "raised", "dims", "name", "same_grid", "is_uxda", "shape", "q", "qlin", "qone", "qpart", "qx", "mult", "api", "layout", "storage", "square", "prev")
    with open(path, "w") as fh:
        for x in recs:
            fh.write(json.dumps({k: x[k] for k in keys if k in x}) + "\n")
    res = ctx.tlc_ok("Integrate", "INIT JInit\nNEXT JNext\n" + consts + "INVARIANT Judge\nCHECK_DEADLOCK FALSE\n", what="judge %d integrate records" % len(recs), env={"REC_FILE": path}, workers=workers, count=False, timeout=3000)
    if res.distinct < len(recs):
        raise Machinery("judge visited %d states for %d records" % (res.distinct, len(recs)))
    os.remove(path)
    ctx.traces += len(recs)
    failed = {}
    for v in X.prints(res.out):
        if v[0] == "V":
            failed[v[1]] = (sorted(v[2]), v[3], dict(v[4]))
    by_case = {c["id"]: c for c in cases}
    by_rec = {x["id"]: x for x in recs}
    stats = {}
    for c in cases:
        trivial = c["kind"] == "n_face" and c["pat"] == "ones" and not c["lead"]
        ctx.count(1, None if trivial else c["id"])
        k = "%s/%s/%s/%s/%s" % (c["kind"], "coincident" if c["coincident"] else "distinct", c["layout"], c["storage"], c["api"])
        stats[k] = stats.get(k, 0) + 1
    for cid, (clauses, cls, ax) in sorted(failed.items()):
        c = by_case[cid]
        for clause in clauses:
            ctx.violation(
                cid,
                clause,
                detail={k: v for k, v in by_rec[cid].items() if k != "expected"},
                sig={"sizes": cls, "kind": c["kind"], "api": ax["api"], "layout": ax["layout"], "storage": ax["storage"], "square": bool(ax["square"]), "prev": ax["prev"], "sel": c["sel"], "scaled": bool(ax["mult"])},
                replay={k: c[k] for k in c},
            )
    ctx.note("cases_by_kind", stats)
    ctx.note("grids", {m["id"]: [m["nf"], m["nn"], m["ne"]] for m in meshes})
    for cid in [cases[0]["id"], cases[len(cases) // 2]["id"], cases[-1]["id"]]:
        ctx.sample({"case": {k: by_case[cid][k] for k in ("id", "dims", "dtype", "quad", "prev", "pat", "coincident")}, "expected_outcome": by_case[cid]["expected"]["outcome"], "record": by_rec[cid]})
    ctx.assumptions += [
        "TLC's evaluator and the CommunityModules Json reader",
        "expected numbers are fsum(coeff * area) with integer coefficients from TLC and areas from a fresh Grid's compute_face_areas(rule, order): C06 takes the areas as given (C05 judges them)",
        "quantisation of the deviation to ceil(x*1e13) before TLC compares it with 1e-12",
        "leading dimensions are flattened row-major between the specification's table and the array",
        "the face dimension is the last one, as in the property's 'leading dimensions'",
    ]


def replay(path):
    with open(path) as fh:
        data = json.load(fh)
    X.warm_up()
    for c in data["cases"][:20]:
        print("case", c["key"], "clause", c["clause"])
        if c["replay"].get("kind") == "dims":
            import tempfile

            d = tempfile.mkdtemp(dir=os.path.join(os.path.dirname(os.path.dirname(os.path.abspath(__file__))), ".work"))
            files = {}
            for fmt, kinds in c["replay"]["opens"]:
                key = "%s|%s" % (fmt, "+".join(kinds))
                files[key] = os.path.join(d, key.replace("|", "_").replace("+", "_") + ".nc")
                Y.dims_write_data(files[key], fmt, kinds)
            print(json.dumps(Y.dims_case({"id": c["key"], "opens": c["replay"]["opens"], "files": files}), default=str)[:1500])
            continue
        print(json.dumps(Y.integrate_case(c["replay"]), default=str)[:1500])
    return 0

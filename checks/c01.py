"""C01 - readers decode every supported format to the faces the source describes.

spec -> code: TLC (Dialects.tla) enumerates mesh x route x dialect, proves every source
decodes - by the format's own rules - to the expected standard form, and emits each source's
stored tables; harness/x_c01.py materialises them (in memory, and on disk for a rotating
subset / everything in the thorough tier) and opens them through the public API; TLC
(JudgeReaders.tla) judges the projected grids.
code -> spec: every non-empty sample file is opened and judged for standard form; outCSne8
exists as SCRIP and as Exodus and the two grids are judged to describe the same faces.
"""

from __future__ import annotations

import json
import os
import random

from harness import x_c01 as X
from harness.core import Machinery
from harness.pool import pmap

PROP = "C01"
ROUTES = ["ugrid", "topology", "mpas", "mpas_dual", "scrip", "exodus", "esmf", "geos", "icon", "geo", "verts"]
INVS = ["InputKept", "DecodeRepeatable", "MeshOK", "RoundTrip", "ExpectedStandard", "PermOK", "CarriedConsistent", "ExtrasRoundTrip", "EmitMesh", "EmitCase"]
QUICK_MESHES = [1, 2, 3, 4, 5, 6, 8, 14, 18, 19, 20]
ALL_MESHES = list(range(1, 22))
BIG_MESHES = [20, 21]  # a few hundred faces: generated alone (m.big: thin slice of the knobs)
# the thorough tier adds these rotated / cut / further meshes with one slice of the size-independent knobs
# (the full knob product is generated on the core meshes = the quick tier's)
THIN_IN_THOROUGH = [m for m in range(1, 22) if m not in QUICK_MESHES]
# the quick tier generates the full knob product on seven of its meshes (quads, mixed 3/4, 3/7/8, both meshes with
# node 0 unused, the regional one, and through m.big the thin slice on the 96-face sphere) and the thin slice on these
# four; the thorough tier has the full product on all eleven
QUICK_THIN = [3, 4, 8, 14]
MESHFILES = os.path.join(os.environ.get("VERIF_REPO", "/repo"), "test", "meshfiles")

# (id, relative path, kwargs, max tier): non-empty sample files
SAMPLES = [
    ("ugrid/quad-hexagon", "ugrid/quad-hexagon/grid.nc", {}, "quick"),
    ("ugrid/outCSne30", "ugrid/outCSne30/outCSne30.ug", {}, "quick"),
    ("ugrid/geoflow-small", "ugrid/geoflow-small/grid.nc", {}, "quick"),
    ("ugrid/ov_RLL10deg_CSne4", "ugrid/ov_RLL10deg_CSne4/ov_RLL10deg_CSne4.ug", {}, "quick"),
    ("ugrid/fesom", "ugrid/fesom/fesom.mesh.diag.nc", {}, "quick"),
    ("ugrid/outRLL1deg", "ugrid/outRLL1deg/outRLL1deg.ug", {}, "thorough"),
    ("mpas/QU1920", "mpas/QU/mesh.QU.1920km.151026.nc", {}, "quick"),
    ("mpas/QU1920-dual", "mpas/QU/mesh.QU.1920km.151026.nc", {"use_dual": True}, "quick"),
    ("esmf/ne30pg3", "esmf/ne30/ne30pg3.grid.nc", {}, "thorough"),
    ("geos-cs/c12", "geos-cs/c12/test-c12.native.nc4", {}, "quick"),
    ("exodus/mixed", "exodus/mixed/mixed.exo", {}, "quick"),
    ("exodus/outCSne8", "exodus/outCSne8/outCSne8.g", {"keep_pos": True}, "quick"),
    ("scrip/outCSne8", "scrip/outCSne8/outCSne8.nc", {"keep_pos": True}, "quick"),
    ("shp/5poly", "shp/5poly/5poly.shp", {"geo": True}, "quick"),
    ("shp/multipoly", "shp/multipoly/multipoly.shp", {"geo": True}, "quick"),
    ("shp/us_nation", "shp/cb_2018_us_nation_20m/cb_2018_us_nation_20m.shp", {"geo": True}, "quick"),
    ("geojson/chicago", "geojson/sample_chicago_buildings.geojson", {"geo": True}, "quick"),
]


def gen_cfg(meshes, routes, mech="copies", thin=()):
    return (
        "INIT Init\nNEXT Next\nCONSTANTS\n MeshSel = {%s}\n RouteSel = {%s}\n Mech = \"%s\"\n ThinMeshes = {%s}\n"
        % (",".join(map(str, meshes)), ",".join('"%s"' % r for r in routes), mech, ",".join(map(str, thin)))
        + "".join("INVARIANT %s\n" % i for i in INVS)
        + "CHECK_DEADLOCK FALSE\n"
    )


def _generate_group(ctx, meshes, routes, thin, workers):
    r = ctx.tlc_ok(
        "Dialects",
        gen_cfg(meshes, routes, thin=[m for m in meshes if m in thin]),
        what="Decode(StoredSrc(m,r,d)) = Expected(m,r,d), standard form, carried tables consistent, Decode;Decode; meshes %s%s"
        % (meshes, " (thin slice)" if all(m in thin for m in meshes) else ""),
        workers=workers,
        timeout=2400,
    )
    ms, cases = X.parse_prints(r.prints, r.out)
    roots = len({(c["mi"], c["route"]) for c in cases})
    steps = sum(len(c["plan"]) for c in cases)  # the Decode ; Decode ... states of every source
    if len(ms) != len(meshes) or len(ms) + roots + len(cases) + steps != r.distinct or not cases:
        raise Machinery("Dialects %s: %d meshes + %d roots + %d cases + %d decode steps parsed, TLC reports %d states" % (meshes, len(ms), roots, len(cases), steps, r.distinct))
    return ms, cases


def generate(ctx, meshes, routes=ROUTES, thin=()):
    """Several TLC runs (a few meshes each, two at a time) instead of one: bounded run times, and the big meshes do
    not hold the others up.  `thin`: meshes generated with one slice of the size-independent knobs only."""
    from concurrent.futures import ThreadPoolExecutor

    nproc = int(os.environ.get("VERIF_NPROC", "0")) or 8
    workers = max(2, min(8, nproc))
    heavy = [m for m in meshes if m in BIG_MESHES]
    rest = [m for m in meshes if m not in heavy]
    full = [m for m in rest if m not in thin]
    slim = [m for m in rest if m in thin]
    groups = [[m] for m in heavy] + [full[i : i + 3] for i in range(0, len(full), 3)] + [slim[i : i + 5] for i in range(0, len(slim), 5)]
    with ThreadPoolExecutor(max_workers=2) as ex:
        def one(ig):
            import time

            time.sleep(0.25 * (ig[0] % 2))  # the runner tags its files by the millisecond: never start two runs at once
            return _generate_group(ctx, ig[1], routes, set(thin), workers)

        parts = list(ex.map(one, list(enumerate(groups))))
    ms, cases = {}, []
    for m, c in parts:
        ms.update(m)
        cases += c
    cases.sort(key=lambda c: c["id"])
    return ms, cases


def mechanism_demo(ctx):
    """The specification distinguishes the two mechanisms: a decoder that converts platform-integer tables in
    place (Mech = "aliases") must violate InputKept / DecodeRepeatable in the model - otherwise the invariants
    that bind the code would be vacuous."""
    cfg = gen_cfg([2], ["mpas"], mech="aliases").replace("INVARIANT EmitMesh\n", "").replace("INVARIANT EmitCase\n", "")
    r = ctx.tlc("Dialects", cfg, what="Mech = aliases: in-place decoding of int64 tables must break InputKept", workers=2, timeout=600, count=False)
    if r.violated not in ("InputKept", "DecodeRepeatable"):
        raise Machinery("the aliasing mechanism does not violate InputKept in the model (violated=%s ok=%s)" % (r.violated, r.ok))
    ctx.note("aliasing_mechanism_refuted_by", r.violated)


def sig_of(case, clause):
    s = {"route": case["route"], "clause": clause}
    s.update(case["d"])
    s.update(case["tags"])
    s["first"] = case.get("first", "conn")
    s["between"] = "%s" % ((case.get("between") or {}).get("kind", "none"))
    return s


def judge(ctx, recs, tag):
    path = os.path.join(ctx.work, "%s.ndjson" % tag)
    with open(path, "w") as fh:
        for r in recs:
            fh.write(json.dumps({k: v for k, v in r.items() if not k.startswith("_")}) + "\n")
    res = ctx.tlc_ok(
        "JudgeReaders",
        "INIT Init\nNEXT Next\nINVARIANT Judge\nCHECK_DEADLOCK FALSE\n",
        what="judge %d %s records" % (len(recs), tag),
        env={"REC_FILE": path},
        workers=8,
        count=False,
        timeout=3000,
        heap="6g",
    )
    nblocks = (len(recs) + 31) // 32
    if res.distinct != len(recs) + nblocks:
        raise Machinery("judge visited %d states for %d records" % (res.distinct, len(recs)))
    failed, drift = {}, {}
    for v in list(res.prints) + list(X._pretty_prints(res.out, "V")) + list(X._pretty_prints(res.out, "D")):
        if isinstance(v, tuple) and len(v) == 3 and v[0] == "V":
            failed[v[1]] = sorted(v[2])
        elif isinstance(v, tuple) and len(v) == 3 and v[0] == "D":
            drift[v[1]] = sorted(v[2])
    ctx.traces += len(recs)
    os.remove(path)
    return failed, drift


def run(ctx):
    rng = random.Random(ctx.seed)
    thorough = ctx.tier == "thorough"
    meshes = ALL_MESHES if thorough else QUICK_MESHES
    only = os.environ.get("C01_ROUTES")
    routes = only.split(",") if only else ROUTES
    ms, cases = generate(ctx, meshes, routes, thin=THIN_IN_THOROUGH if thorough else QUICK_THIN)
    mechanism_demo(ctx)
    ctx.exhaustive = True
    ctx.rule = (
        "TLC enumerates mesh x route x dialect (Dialects.tla), proves Decode(StoredSrc) = Expected and standard form for "
        "each, and emits the stored tables; each is materialised and opened through ux.open_grid / Grid.from_dataset / "
        "from_file / from_topology / from_face_vertices; JudgeReaders.tla judges FaceCount, FacesMatch (corner positions, "
        "cyclic), StdDtype, StdFill, PadAtEnd, InRange, LonRange, LatRange, NodesKept, Carried*; every in-memory input "
        "is decoded again (and again with the other MPAS grid) as the Decode;Decode machine of Dialects.tla prescribes, "
        "fingerprinted before and after: InputKept, DecodeRepeatable. Non-trivial = distinct "
        "(mesh, route, dialect) whose mesh has >= 2 faces."
    )
    # a rotating tenth of the NetCDF routes goes through a file on disk (all of them in the thorough tier)
    off = rng.randrange(10)
    work = []
    FILE_ROUTES = ("ugrid", "mpas", "mpas_dual", "scrip", "exodus", "esmf", "geos", "icon")
    for k, c in enumerate(cases):
        c["k"] = k
        if thorough and c["route"] in FILE_ROUTES:
            # the in-memory object (input kept, decoded repeatedly) always, and for every second source (all of the
            # thin-slice meshes) also the file on disk
            work.append((c, ms[c["mi"]], ctx.work, False))
            if (k + off) % 2 == 0 or c["mi"] in THIN_IN_THOROUGH:
                work.append((dict(c, id=c["id"] + "@disk"), ms[c["mi"]], ctx.work, True))
        else:
            work.append((c, ms[c["mi"]], ctx.work, (k + off) % 10 == 0))
    import time

    t0 = time.time()
    recs = pmap(X.run_case, work)
    ctx.note("replay_wall_s", round(time.time() - t0, 1))
    by_id = {w[0]["id"]: w[0] for w in work}
    if len(by_id) != len(work):
        raise Machinery("case ids are not unique")
    skipped = [r for r in recs if "skip" in r]
    ctx.note("not_representable_by_writer", {"n": len(skipped), "e.g.": [r["id"] for r in skipped[:3]]})
    recs = [r for r in recs if "skip" not in r]
    errs = [r for r in recs if "error" in r]
    good = [r for r in recs if "error" not in r]
    failed, drift = judge(ctx, good, "cases") if good else ({}, {})
    for c in cases:
        ctx.count(1, c["id"] if len(c["exp"]) >= 2 else None)
    per_route = {}
    for r in recs:
        per_route[r["route"]] = per_route.get(r["route"], 0) + 1
    ctx.note("cases_per_route", per_route)
    ctx.note("on_disk", sum(1 for r in recs if r.get("how") in ("file", "from_file")))
    for r in errs:
        c = by_id[r["id"]]
        ctx.violation(r["id"], "Raises", detail=r["error"], sig=sig_of(c, "Raises"), replay={"case": c, "mesh": ms[c["mi"]]})
    rec_by_id = {r["id"]: r for r in recs}
    for r in good:
        if "error_later" in r:  # the first decoding gave a Grid, a later one of the same input raised
            c = by_id[r["id"]]
            failed.setdefault(r["id"], [])
            ctx.violation(r["id"], "RaisesOnRepeat", detail=r["error_later"], sig=sig_of(c, "RaisesOnRepeat"), replay={"case": c, "mesh": ms[c["mi"]]})
    for rid, cl in sorted(failed.items()):
        c = by_id[rid]
        for clause in cl:
            ctx.violation(rid, clause, detail={"failed": cl, "changed": rec_by_id[rid].get("changed"), "kept": rec_by_id[rid].get("kept")},
                          sig=sig_of(c, clause), replay={"case": c, "mesh": ms[c["mi"]]})
    summ = {}
    for rid, cl in failed.items():
        for clause in cl:
            k = "%s/%s" % (by_id[rid]["route"], clause)
            summ[k] = summ.get(k, 0) + 1
    for r in errs:
        k = "%s/Raises" % r["route"]
        summ[k] = summ.get(k, 0) + 1
    ctx.note("failed_clauses_per_route", summ)
    if os.environ.get("C01_DUMP"):
        with open(os.environ["C01_DUMP"], "w") as fh:
            json.dump({"failed": failed, "errors": {r["id"]: r["error"] for r in errs}, "later": {r["id"]: r["error_later"] for r in good if "error_later" in r},
                       "changed": {r["id"]: r.get("changed") for r in good if r.get("changed")}, "sigs": {i: sig_of(c, "") for i, c in by_id.items()}}, fh)
    if drift:
        print("MODEL-DRIFT: %d sources are presented with the corner cycle rotated (same cycle), e.g. %s" % (len(drift), sorted(drift)[:2]))
    ctx.note("corner_rotation_records", len(drift))
    for r in good[:1] + good[len(good) // 2 : len(good) // 2 + 1]:
        ctx.sample({"id": r["id"], "how": r.get("how"), "exp": r["exp"], "got_tbl": r["got"]["tbl"], "node_pos": r["got"]["node_pos"]})

    # ---- code -> spec: sample files
    items = []
    for fid, rel, kw, tier in SAMPLES:
        p = os.path.join(MESHFILES, rel)
        if tier == "thorough" and not thorough:
            continue
        if os.path.exists(p) and os.path.getsize(p) > 0:
            items.append((fid, p, kw))
    frecs = pmap(X.file_record, items, nproc=min(4, len(items)), chunk=1) if len(items) >= 8 else [X.file_record(i) for i in items]
    fgood = [r for r in frecs if "error" not in r]
    pairs = []
    fb = {r["id"]: r for r in fgood}
    if "exodus/outCSne8" in fb and "scrip/outCSne8" in fb:
        pairs.append(X.pair_record("pair/outCSne8:exodus~scrip", fb["exodus/outCSne8"], fb["scrip/outCSne8"]))
    ffailed, _ = judge(ctx, fgood + pairs, "files") if fgood else ({}, {})
    ctx.note("sample_files", [r["id"] for r in frecs])
    for r in frecs:
        ctx.count(1, "file:" + r["id"])
        if "error" in r:
            ctx.violation("file:" + r["id"], "Raises", detail=r["error"], sig={"route": "file", "file": r["id"]}, replay={"file": r["id"]})
    for rid, cl in sorted(ffailed.items()):
        for clause in cl:
            ctx.violation("file:" + rid, clause, detail={"failed": cl}, sig={"route": "file", "file": rid}, replay={"file": rid})
    ctx.assumptions += [
        "TLC's evaluator and the CommunityModules Json reader",
        "xarray/netCDF4 (NetCDF), json (GeoJSON) and geopandas/pyogrio (shapefile) writers used to materialise sources",
        "float atan2/sqrt turning lattice directions into degrees; grid nodes are matched to lattice points within 1e-9 rad",
        "projection of integer tables (harness/ux.py: fill value -> -1 after dtype/fill checks)",
        "the SCRIP and Exodus outCSne8 sample files are taken to describe one mesh in one face order",
    ]


def replay(path):
    """./check C01 --replay replays/C01_<clause>_<tier>.json : re-run the stored cases and re-judge them."""
    import shutil

    from harness.core import Ctx

    with open(path) as fh:
        data = json.load(fh)
    ctx = Ctx(PROP, "replay", 0)
    try:
        recs = []
        for v in data["cases"][:25]:
            rp = v.get("replay") or {}
            if "case" in rp:
                recs.append(X.run_case((rp["case"], rp["mesh"], ctx.work, False)))
        good = [r for r in recs if "error" not in r and "skip" not in r]
        failed, _ = judge(ctx, good, "replay") if good else ({}, {})
        for r in recs:
            print(r["id"], "->", r.get("error") or failed.get(r["id"], "ok"))
            if r["id"] in failed:
                print("   expected", r["exp"][:4], "\n   got     ", r["got"]["tbl"][:4], "node_pos", r["got"]["node_pos"][:12])
        return 1 if failed or any("error" in r for r in recs) else 0
    finally:
        shutil.rmtree(ctx.work, ignore_errors=True)

"""C12 - remapping picks true nearest sources and never invents values.

Specification: tla/Remap.tla (source kind by dimension NAME, output dims, the mechanism of kind
inference as data, generation of the call matrix), tla/Nearest.tla + tla/JudgeNearest.tla
(exact nearest source / identity / support of the IDW weights on lattice directions).
"""

from __future__ import annotations

import random

import numpy as np

from harness import catalog
from harness import ux as hux
from harness import x_c11 as X
from harness.core import Machinery
from harness.pool import pmap

PROP = "C12"

RM_CFG = """INIT Init
NEXT Next
CONSTANTS
 SizeSet = {%(sizes)s}
 GenMatrix = %(gen)s
 Ks = {%(ks)s}
 Powers = {%(powers)s}
 Mech <- %(mech)s
%(invs)s
CHECK_DEADLOCK FALSE
"""


def rm_cfg(sizes, gen, ks, powers, mech, invs):
    return RM_CFG % {
        "sizes": ", ".join(map(str, sizes)),
        "gen": "TRUE" if gen else "FALSE",
        "ks": ", ".join(map(str, ks)),
        "powers": ", ".join(map(str, powers)),
        "mech": mech,
        "invs": "".join("INVARIANT %s\n" % i for i in invs),
    }


def model(ctx):
    """Kind inference under both mechanisms; the call matrix."""
    thorough = ctx.tier == "thorough"
    sizes = [2, 3, 4, 5] if thorough else [2, 3, 4]
    ks = [2, 3, 4, 6, 8] if thorough else [2, 3, 5]
    p2 = [1, 2, 4, 6] if thorough else [2, 4]  # twice the power: 0.5, 1, 2, 3
    ctx.tlc_ok("Remap", rm_cfg(sizes, False, [2], [2], "MechIntended", ["KindRight", "DimsLaw"]), what="source kind by dimension name: KindRight for all size triples in %s" % sizes)
    r = ctx.tlc_ok("Remap", rm_cfg(sizes, False, [2], [2], "MechObserved", ["KindRightUnlessCoincident", "DimsLaw", "Predict"]), what="source kind by length, nodes first (as read): right unless sizes coincide; failing patterns printed")
    predicted = {}
    for v in r.prints:
        if isinstance(v, tuple) and len(v) == 4 and v[0] == "K":
            predicted[(v[1], frozenset(v[2]))] = v[3]
    r2 = ctx.tlc("Remap", rm_cfg(sizes, False, [2], [2], "MechObserved", ["KindRight"]), what="observed mechanism: KindRight (expected to be refuted)", count=False)
    if r2.violated != "KindRight":
        raise Machinery("TLC did not refute KindRight under MechObserved")
    r3 = ctx.tlc_ok("Remap", rm_cfg([2], True, ks, p2, "MechIntended", ["KindRight", "DimsLaw", "Emit", "EmitD"]), what="call matrix: data kind x leading dims x destination kind x coordinate type x method x k x power")
    matrix = []
    seen = set()
    for v in r3.prints:
        if isinstance(v, tuple) and len(v) == 2 and v[0] == "C":
            c = v[1]
            m = {"kind": c["kind"], "lead": list(c["lead"]), "remapTo": c["remapTo"], "coord": c["coord"], "method": c["method"], "k": c["k"], "power": c["power"] / 2.0, "srcKind": c["srcKind"], "outDims": list(c["outDims"])}
            key = repr(sorted(m.items()))
            if key not in seen:
                seen.add(key)
                matrix.append(m)
    if not matrix:
        raise Machinery("no call matrix generated")
    matrix.sort(key=lambda m: (m["kind"], m["remapTo"], m["coord"], m["method"], m["k"], m["power"], len(m["lead"])))
    global DCASES
    DCASES = []
    for v in r3.prints:
        if isinstance(v, tuple) and len(v) == 2 and v[0] == "D":
            DCASES = sorted((dict(x) for x in v[1]), key=lambda d: (d["dtype"], d["meth"], d["level"]))
    if not DCASES:
        raise Machinery("no dtype cases generated")
    return predicted, matrix


# =============================================================================== grids
def sub_entry(entry, face_ids, name):
    """Sub-mesh of a catalogue entry made of the given faces, unused nodes dropped (a single
    face has n_edge = n_node; two disjoint faces likewise)."""
    used = sorted({i for f in face_ids for i in entry["faces"][f]})
    ren = {o: n for n, o in enumerate(used)}
    return {
        "name": name,
        "rot": entry["rot"],
        "cut": -1,
        "nodes": [entry["nodes"][o] for o in used],
        "faces": [[ren[i] for i in entry["faces"][f]] for f in face_ids],
        "closed": False,
    }


def eid(e):
    return catalog.eid(e) if e["cut"] >= 0 else "%s/r%d/sub" % (e["name"], e["rot"])


def choose_pairs(rng, thorough):
    def one(name, rot=0, cut=0):
        return catalog.entries(name=name, rot=rot, cut=cut)[0]

    cube = one("cube")
    # two opposite faces of the cube: 8 nodes, 8 edges, 2 faces (n_edge = n_node)
    opp = None
    for a in range(len(cube["faces"])):
        for b in range(a + 1, len(cube["faces"])):
            if not set(cube["faces"][a]) & set(cube["faces"][b]):
                opp = (a, b)
                break
        if opp:
            break
    two_faces = sub_entry(cube, list(opp), "cube_two_opposite_faces")
    tc = one("truncated_cube")
    octagon = next(i for i, f in enumerate(tc["faces"]) if len(f) == 8)
    one_face = sub_entry(tc, [octagon], "truncated_cube_one_octagon")
    pairs = [
        # (source entry, source variant, destination entry)
        (one("tetrahedron"), "topology", one("cube")),  # n_face = n_node = 4
        (one("octahedron", cut=3), "topology", one("cuboctahedron")),  # n_face = n_node = 6
        (one("cuboctahedron", cut=5), "topology", one("octahedron")),  # n_face = n_node = 12
        (two_faces, "topology", one("octahedron")),  # n_edge = n_node = 8
        (one_face, "topology", one("cube")),  # n_edge = n_node = 8, one face
        (one("cube"), "ugrid_centres", one("cuboctahedron")),  # face centres from the file
        (one("cuboctahedron"), "topology", one("cuboctahedron")),  # onto itself: identity
        (one("tetrahedron"), "topology", one("tetrahedron")),  # onto itself, n_face = n_node
        (one("cube"), "topology", one("truncated_octahedron")),
        (one("truncated_octahedron_split"), "topology", one("cube", rot=rng.randint(1, 24))),
        (one("rhombic_dodecahedron"), "topology", one("octahedron")),  # unequal corner lengths: node data only
        # sources (and one destination) that SUPPLY face and edge centres which are not the nodal centroids / midpoints
        (one("cube"), "topology_offcentres", one("cuboctahedron")),  # from_topology keyword arguments
        (one("cuboctahedron"), "ugrid_offcentres", one("cube")),  # in-memory UGRID dataset
        (one("octahedron"), "topology_offcentres", one("octahedron")),  # onto itself: identity on supplied centres
        (one("cube"), "topology", one("truncated_octahedron"), "ugrid_offcentres"),  # destination with supplied centres
        # different Grid objects of the SAME mesh (they compare equal) that disagree on edge numbering and on centres
        (one("cube"), "topology_offcentres_rev", one("cube"), "topology"),
        (one("cuboctahedron"), "topology", one("cuboctahedron"), "topology_offcentres_rev"),
    ]
    if thorough:
        names = sorted({e["name"] for e in catalog.entries()})
        for nm in names:
            src = one(nm, rot=rng.randint(0, 24), cut=rng.choice([0, 0, 3]))
            dst = one(rng.choice(names), rot=rng.randint(0, 24), cut=rng.choice([0, 2]))
            pairs.append((src, "topology", dst))
            pairs.append((one(nm), "topology", one(nm)))
        for nm in ("cuboctahedron", "truncated_octahedron", "rhombicuboctahedron"):
            pairs.append((one(nm), "ugrid_centres", one("cube", rot=rng.randint(0, 24))))
        pairs.append((one("tetrahedron", rot=7), "topology", one("tetrahedron", rot=7)))
        pairs.append((one("rhombic_dodecahedron"), "topology_offcentres", one("cube", rot=rng.randint(1, 24))))  # unequal corner lengths, supplied centres
        pairs.append((one("truncated_octahedron_split", rot=rng.randint(1, 24)), "ugrid_offcentres", one("cuboctahedron"), "topology_offcentres"))
        pairs.append((one("tetrahedron"), "topology_offcentres", one("cube")))  # coincident sizes and supplied centres
    pairs = [p if len(p) == 4 else (p[0], p[1], p[2], "topology") for p in pairs]
    seen, out = set(), []
    for p in pairs:
        if pair_id(p) not in seen:
            seen.add(pair_id(p))
            out.append(p)
    return out


def pair_id(p):
    return "%s[%s]->%s%s" % (eid(p[0]), p[1], eid(p[2]), "" if p[3] == "topology" else "[%s]" % p[3])


def same_grid(p):
    return eid(p[0]) == eid(p[2]) and p[1] == p[3]


def pair_plan(p):
    """Phase A: element positions of source (every kind) and destination (every kind) as lattice
    directions, from the grids' own reported spherical coordinates."""
    src, variant, dst, dvariant = p
    out = {"pid": pair_id(p), "S": {}, "D": {}, "xyz_ok": {}, "dxyz_ok": {}, "sizes": {}}
    try:
        gs = X.build_grid(src, variant)
        gd = gs if same_grid(p) else X.build_grid(dst, dvariant)
        for kind in X.KINDS:
            s = X.project(src, gs, kind, "spherical", variant)
            out["S"][kind] = s
            out["xyz_ok"][kind] = s is not None and X.project(src, gs, kind, "cartesian", variant) == s
            # destination points are the destination grid's elements as it reports them in (lon, lat); whether
            # its x, y, z denote the same points travels in the signature
            out["D"][kind] = X.project(dst, gd, kind, "spherical", dvariant)
            out["dxyz_ok"][kind] = out["D"][kind] is not None and X.project(dst, gd, kind, "cartesian", dvariant) == out["D"][kind]
        out["sizes"] = {"nodes": int(gs.n_node), "face centers": int(gs.n_face), "edge centers": int(gs.n_edge)}
    except Exception as e:  # noqa
        out["error"] = "%s: %s" % (type(e).__name__, str(e)[:200])
    return out


# =============================================================================== replay
def tracer(lead_shape, n):
    """value = source index + 1000 * (first leading index) + 100000 * (second leading index)"""
    a = np.arange(n, dtype=float)
    if len(lead_shape) == 0:
        return a
    if len(lead_shape) == 1:
        return a[None, :] + 1000.0 * np.arange(lead_shape[0])[:, None]
    return a[None, None, :] + 1000.0 * np.arange(lead_shape[0])[:, None, None] + 100000.0 * np.arange(lead_shape[1])[None, :, None]


def run_pair(job):
    p, plan_a, matrix, plans, seed = job["pair"], job["a"], job["matrix"], job["plans"], job["seed"]
    src, variant, dst, dvariant = p
    pid = plan_a["pid"]
    ux = hux.import_ux()
    rng = np.random.default_rng(seed)
    ents, tags, num, errors = {}, {}, [], []
    counter = [0]
    ncalls = 0

    def add(cid, tag, e):
        j = counter[0]
        counter[0] += 1
        e["j"] = j
        ents.setdefault(cid, []).append(e)
        tags["%s#%d" % (cid, j)] = tag

    same = same_grid(p)
    Wcache = {}
    # identity-tracer configurations first: they yield the weights the other IDW cases are compared with
    order = sorted(range(len(matrix)), key=lambda i: (matrix[i]["method"] != "idw" or len(matrix[i]["lead"]) != 1, i))
    for mi in order:
        m = matrix[mi]
        kind, remap_to, coord = m["kind"], m["remapTo"], m["coord"]
        S, D = plan_a["S"].get(kind), plan_a["D"].get(remap_to)
        if S is None or D is None:
            continue
        n_src, n_dst = len(S), len(D)
        if n_dst < 2:
            continue  # a single destination point: shape conventions undocumented, not exercised
        call = "%s %s->%s %s lead=%s" % (m["method"], kind, remap_to, coord, "x".join(m["lead"]) or "-")
        if m["method"] == "idw":
            if m["k"] > min(n_src, plan_a["sizes"]["nodes"]):
                continue  # not admissible on this source
            call += " k=%d power=%g" % (m["k"], m["power"])
        sigbase = {"kind": kind, "remap_to": remap_to, "coord": coord, "method": m["method"], "variant": variant, "src_xyz_consistent": bool(plan_a["xyz_ok"][kind]) if coord == "cartesian" else True, "dst_xyz_consistent": bool(plan_a["dxyz_ok"][remap_to]) if coord == "cartesian" else True, "pattern": job["pattern"][kind], "predicted_kind": job["predicted"][kind]}
        try:
            gs = X.build_grid(src, variant)
            gd = gs if same else X.build_grid(dst, dvariant)
            lead_shape = {0: (), 1: (n_src,) if m["method"] == "idw" else (3,), 2: (2, 3)}[len(m["lead"])]
            if m["method"] == "nn":
                data = tracer(lead_shape, n_src)
            elif len(m["lead"]) == 0:
                data = np.full(n_src, 7.25)
            elif len(m["lead"]) == 1:
                data = np.eye(n_src)
            else:
                data = rng.uniform(-5.0, 5.0, size=lead_shape + (n_src,))
            uxda = ux.UxDataArray(data, dims=m["lead"] + [X.DIMS[kind]], uxgrid=gs, name="v")
            ncalls += 1
            keep = (mi % 7 == 0)  # every seventh call of the matrix: arguments finger-printed before and after
            if keep:
                data0 = np.array(data, copy=True)
                fp0 = {"src": X.grid_fingerprint(gs), "dst": X.grid_fingerprint(gd)}
            if m["method"] == "nn":
                out = uxda.remap.nearest_neighbor(gd, remap_to=remap_to, coord_type=coord)
            else:
                out = uxda.remap.inverse_distance_weighted(gd, remap_to=remap_to, coord_type=coord, power=m["power"], k=m["k"])
            vals = np.asarray(out.values, dtype=float)
            if keep:
                fp1 = {"src": X.grid_fingerprint(gs), "dst": X.grid_fingerprint(gd)}
                changed = [w + "." + v for w in fp0 for v in fp0[w] if fp0[w][v] != fp1[w][v]]
                if not np.array_equal(np.asarray(uxda.values), data0) or not np.array_equal(data, data0):
                    changed.append("source data")
                if changed:
                    num.append({"clause": "ArgsKept", "call": call, "sig": sigbase, "detail": {"changed": changed}})
        except Exception as e:  # noqa
            errors.append({"call": call, "error": "%s: %s" % (type(e).__name__, str(e)[:200]), "sig": sigbase})
            continue
        # ---- shape / dims / grid
        if list(out.dims) != m["outDims"]:
            num.append({"clause": "OutputDims", "call": call, "sig": sigbase, "detail": {"dims": list(out.dims), "expected": m["outDims"]}})
        if out.uxgrid is not gd:
            num.append({"clause": "GridIsDestination", "call": call, "sig": sigbase, "detail": "uxgrid is not the destination grid object"})
        if vals.shape != tuple(lead_shape) + (n_dst,):
            num.append({"clause": "OutputShape", "call": call, "sig": sigbase, "detail": {"shape": list(vals.shape), "expected": list(lead_shape) + [n_dst]}})
            continue
        cids = ["%s|%s|%s|%d" % (pid, kind, remap_to, i) for i in range(n_dst)]
        if m["method"] == "nn":
            base = vals[(0,) * len(lead_shape)]
            chosen = [int(round(x)) for x in base]
            if np.max(np.abs(base - np.round(base))) > 0 or np.max(np.abs(vals - tracer(lead_shape, n_src)[..., np.clip(chosen, 0, n_src - 1)])) > 0:
                num.append({"clause": "LeadingDims", "call": call, "sig": sigbase, "detail": "the value at a destination point is not one source element's value for every leading index"})
            for i, cid in enumerate(cids):
                add(cid, call, {"m": "pick", "res": [chosen[i]]})
                if same and remap_to == kind:
                    add(cid, call + " identity", {"m": "ident", "e": i, "res": [chosen[i]]})
            if same and remap_to == kind and not np.array_equal(vals, data):
                num.append({"clause": "IdentityValues", "call": call, "sig": sigbase, "detail": "remapping onto the source grid's own elements changed the data"})
        else:
            wkey = (kind, remap_to, coord, m["k"], m["power"])
            if len(m["lead"]) == 1:
                W = vals  # W[i, dest] = weight of source i at destination dest
                Wcache[wkey] = W
                if np.min(W) < -1e-12 or np.max(np.abs(W.sum(axis=0) - 1.0)) > 1e-9:
                    num.append({"clause": "ConvexCombination", "call": call, "sig": sigbase, "detail": {"min_weight": float(np.min(W)), "max_sum_error": float(np.max(np.abs(W.sum(axis=0) - 1.0)))}})
                for i, cid in enumerate(cids):
                    supp = [int(s) for s in np.nonzero(W[:, i] > 0)[0]]
                    add(cid, call + " support", {"m": "kset", "k": m["k"], "res": supp})
                    lt = plans[cid]["lt"]
                    w = W[:, i]
                    bad = None
                    for a in supp:
                        for b in supp:
                            if lt[a] < lt[b] and w[a] < w[b] * (1 - 1e-9):
                                bad = (a, b, float(w[a]), float(w[b]))
                            if lt[a] == lt[b] and abs(w[a] - w[b]) > 1e-6 * max(w[a], w[b]):
                                bad = (a, b, float(w[a]), float(w[b]))
                    if bad:
                        sg = dict(sigbase)
                        if cid + "|as" in plans:
                            # are the weights monotone along the exact ranks of the PREDICTED (wrong) kind's elements?
                            lt2 = plans[cid + "|as"]["lt"]
                            sg["monotone_for_predicted_kind"] = len(lt2) == len(w) and not any((lt2[a] < lt2[b] and w[a] < w[b] * (1 - 1e-9)) or (lt2[a] == lt2[b] and abs(w[a] - w[b]) > 1e-6 * max(w[a], w[b])) for a in supp for b in supp)
                        num.append({"clause": "WeightsMonotone", "call": call + " dest=%d" % i, "sig": sg, "detail": {"pair": bad, "exact_ranks": [lt[bad[0]], lt[bad[1]]]}})
            elif len(m["lead"]) == 0:
                if np.max(np.abs(vals - 7.25)) > 1e-9:
                    num.append({"clause": "ConstantReproduced", "call": call, "sig": sigbase, "detail": {"max_error": float(np.max(np.abs(vals - 7.25)))}})
            else:
                W = Wcache.get(wkey)
                if W is not None:
                    ref = np.einsum("tli,id->tld", data, W)
                    if np.max(np.abs(ref - vals)) > 1e-8:
                        num.append({"clause": "LeadingDims", "call": call, "sig": sigbase, "detail": {"max_diff_vs_weights_of_1d_case": float(np.max(np.abs(ref - vals)))}})
                    lo = np.where(W[None, None, :, :] > 0, data[:, :, :, None], np.inf).min(axis=2)
                    hi = np.where(W[None, None, :, :] > 0, data[:, :, :, None], -np.inf).max(axis=2)
                    if np.any(vals < lo - 1e-9) or np.any(vals > hi + 1e-9):
                        num.append({"clause": "BetweenMinMax", "call": call, "sig": sigbase, "detail": "a value lies outside [min, max] of the neighbours in the support"})
    return {"pid": pid, "ents": ents, "tags": tags, "num": num, "errors": errors, "ncalls": ncalls}


# =============================================================================== histories of remap calls
RH_CFG = """%(head)s
CONSTANTS
 Kinds <- KindsDefault
 Coords = {"spherical", "cartesian"}
 Meths = {%(meths)s}
 Levels = {"da", "ds"}
 Dests = {1, 2}
 MaxLen = %(maxlen)d
 MaxDiff = %(maxdiff)d
 Mech <- %(mech)s
 Shape = "%(shape)s"
%(invs)s
CHECK_DEADLOCK FALSE
"""


def rh_cfg(mech, maxlen, maxdiff, invs, meths=("nn", "idw2", "idw3"), judge=False, shape="calls"):
    return RH_CFG % {
        "head": "INIT JInit\nNEXT JNext" if judge else "SPECIFICATION Spec",
        "meths": ", ".join('"%s"' % m for m in meths),
        "maxlen": maxlen,
        "maxdiff": maxdiff,
        "mech": mech,
        "shape": shape,
        "invs": "".join("INVARIANT %s\n" % i for i in invs),
    }


def gen_remap_histories(ctx, maxlen, maxdiff, simulate=None, seed=None, shape="calls"):
    kw = {"simulate": simulate, "depth": maxlen + 1, "seed": seed, "workers": 1} if simulate else {"workers": 4}
    r = ctx.tlc_ok("RemapHist", rh_cfg("MechObserved", maxlen, maxdiff, ["Independent", "Emit"], shape=shape), what="generate histories of %d steps (%s) on one grid pair, consecutive calls differing in <= %d fields%s" % (maxlen, shape, maxdiff, " (simulation)" if simulate else " (all)"), timeout=1500, **kw)
    out = []
    for v in r.prints:
        if isinstance(v, tuple) and len(v) == 2 and v[0] == "H":
            out.append([({"op": "remap", "call": dict(s["call"]), "diff": sorted(s["diff"])} if s["op"] == "remap" else {"op": "recentre", "diff": []}) for s in v[1]])
    if not out:
        raise Machinery("no remap histories generated: %s" % r)
    return out


H_SRC = ("cuboctahedron", 0, 0)  # 12 nodes, 14 faces, 24 edges; face and edge centres SUPPLIED, off the centroids
H_SRC_VARIANT = "topology_offcentres"
H_DST = {1: ("cube", 0, 0), 2: ("octahedron", 0, 0)}
_HDATA = {}
_FRESH = {}


def h_entry(t):
    return catalog.entries(name=t[0], rot=t[1], cut=t[2])[0]


def h_data(kind, n):
    if kind not in _HDATA:
        _HDATA[kind] = np.random.default_rng(X.KINDS.index(kind) + 5).uniform(-3.0, 3.0, size=(2, n))
    return _HDATA[kind]


def do_call(c, gs, dests):
    """One remap call of the alphabet on the given grid objects -> {kind: values}."""
    import xarray as xr

    ux = hux.import_ux()
    sizes = {"nodes": int(gs.n_node), "face centers": int(gs.n_face), "edge centers": int(gs.n_edge)}
    gd = dests[c["dest"]]
    kw = {"remap_to": c["remapTo"], "coord_type": c["coord"]}
    if c["meth"] != "nn":
        kw.update(k=int(c["meth"][3:]), power=2)
    if c["level"] == "da":
        da = ux.UxDataArray(h_data(c["kind"], sizes[c["kind"]]), dims=["time", X.DIMS[c["kind"]]], uxgrid=gs, name="v")
        out = da.remap.nearest_neighbor(gd, **kw) if c["meth"] == "nn" else da.remap.inverse_distance_weighted(gd, **kw)
        return {c["kind"]: np.asarray(out.values)}
    ds = ux.UxDataset(xr.Dataset({"v_" + X.PREFIX[k]: (["time", X.DIMS[k]], h_data(k, sizes[k])) for k in X.KINDS}), uxgrid=gs)
    out = ds.remap.nearest_neighbor(gd, **kw) if c["meth"] == "nn" else ds.remap.inverse_distance_weighted(gd, **kw)
    return {k: np.asarray(out["v_" + X.PREFIX[k]].values) for k in X.KINDS}


def fresh_grids(cv=0):
    gs = X.build_grid(h_entry(H_SRC), H_SRC_VARIANT)
    if cv:
        gs.construct_face_centers(method="cartesian average")
    return gs, {d: X.build_grid(h_entry(t)) for d, t in H_DST.items()}


def fresh_result(c, cv):
    key = repr(sorted(c.items())) + "|cv%d" % cv
    if key not in _FRESH:
        gs, dests = fresh_grids(cv)
        _FRESH[key] = do_call(c, gs, dests)
    return _FRESH[key]


def fp_all(gs, dests):
    out = {"src": X.grid_fingerprint(gs)}
    for d, g in dests.items():
        out["dst%d" % d] = X.grid_fingerprint(g)
    out["data"] = {k: v.tobytes() for k, v in _HDATA.items()}
    return out


def fp_diff(a, b):
    bad = []
    for who in a:
        for var in a[who]:
            if var in b[who] and a[who][var] != b[who][var]:
                bad.append("%s.%s" % (who, var))
    return bad


def replay_remap_history(item):
    hid, hist = item
    gs, dests = fresh_grids()
    for k in X.KINDS:  # the data arrays exist before the first fingerprint
        h_data(k, {"nodes": int(gs.n_node), "face centers": int(gs.n_face), "edge centers": int(gs.n_edge)}[k])
    steps = []
    cv = 0
    for st in hist:
        if st["op"] == "recentre":
            try:
                gs.construct_face_centers(method="cartesian average")
                cv = 1
                steps.append({"same": True, "kept": True})
            except Exception as e:  # noqa
                steps.append({"err": "%s: %s" % (type(e).__name__, str(e)[:160])})
            continue
        c = st["call"]
        try:
            ref = fresh_result(c, cv)
        except Exception as e:  # noqa
            steps.append({"err": "the call raises on freshly built grids: %s: %s" % (type(e).__name__, str(e)[:120])})
            continue
        try:
            before = fp_all(gs, dests)
            got = do_call(c, gs, dests)
            changed = fp_diff(before, fp_all(gs, dests))
            bad = sorted(k for k in ref if k not in got or got[k].shape != ref[k].shape or not np.allclose(got[k], ref[k], rtol=0, atol=1e-12))
            steps.append({"same": not bad and set(got) == set(ref), "kept": not changed, "bad_kinds": bad, "changed": changed})
        except Exception as e:  # noqa
            steps.append({"err": "%s: %s" % (type(e).__name__, str(e)[:160])})
    return {"id": hid, "steps": steps}


def remap_histories(ctx, rng):
    thorough = ctx.tier == "thorough"
    # the model: no memo / a sound memo are history-independent; a memo that forgets a key field is not
    ctx.tlc_ok("RemapHist", rh_cfg("MechObserved", 2, 6, ["Independent"]), what="remap as read (no memo): Independent, all pairs of calls", workers=4)
    ctx.tlc_ok("RemapHist", rh_cfg("MechMemoFull", 2, 6, ["Independent"]), what="a memo keyed by (kind, dest, coord, remapTo, k): Independent, all pairs of calls", workers=4)
    ctx.tlc_ok("RemapHist", rh_cfg("MechObserved", 3, 1, ["Independent"], shape="any"), what="remap as read, with Recentre (construct_face_centers on the source) anywhere: Independent, depth 3", workers=4)
    ctx.tlc_ok("RemapHist", rh_cfg("MechMemoFull", 3, 1, ["Independent"], shape="any"), what="a memo keyed by all six fields incl. the centre version, with Recentre: Independent, depth 3", workers=4)
    for mech in ("MechMemoNoKind", "MechMemoNoDest", "MechMemoNoK", "MechMemoNoCv", "MechTreeReuse"):
        r = ctx.tlc("RemapHist", rh_cfg(mech, 3, 6 if mech.startswith("MechMemoNo") and mech != "MechMemoNoCv" else 1, ["Independent"], shape="calls" if mech in ("MechMemoNoKind", "MechMemoNoDest", "MechMemoNoK") else "recentre_mid"), what="in-model mutant %s: Independent must be refuted" % mech, count=False, workers=4)
        if r.violated != "Independent":
            raise Machinery("TLC did not refute Independent under %s: %s" % (mech, r))
    hs = gen_remap_histories(ctx, 2, 1)
    if thorough:
        h2 = gen_remap_histories(ctx, 2, 2)
        hs += rng.sample(h2, min(len(h2), 4000))
    # call, construct_face_centers on the source, call: the second search must see the new centres
    hs += gen_remap_histories(ctx, 3, 1 if thorough else 0, shape="recentre_mid")
    if thorough:
        h3 = gen_remap_histories(ctx, 3, 1)
        ctx.note("length3_remap_histories_generated", len(h3))
        hs += rng.sample(h3, min(len(h3), 5000))  # a seeded sample of them is replayed
    else:
        hs += gen_remap_histories(ctx, 3, 1, simulate="num=1200", seed=ctx.seed + 5)
    seen, uniq = set(), []
    for h in hs:
        key = repr([sorted(s["call"].items()) if s["op"] == "remap" else "recentre" for s in h])
        if key not in seen:
            seen.add(key)
            uniq.append(h)
    items = list(enumerate(uniq))
    res = pmap(replay_remap_history, items)
    hrecs = [{"id": r["id"], "steps": [({"err": s["err"]} if "err" in s else {"same": s["same"], "kept": s["kept"]}) for s in r["steps"]]} for r in res]
    failed = {}
    for jr in X.run_batches(ctx, "RemapHist", rh_cfg("MechIntended", 2, 1, ["Judge"], judge=True, shape="any"), X.chunks_by(hrecs, lambda r: 1), "judge replayed remap histories", False):
        for v in jr.prints:
            if isinstance(v, tuple) and len(v) == 3 and v[0] == "V":
                failed[v[1]] = {(int(x[0]), str(x[1])) for x in v[2]}
    nsteps = 0
    for (hid, hist), r in zip(items, res):
        ctx.traces += 1
        ctx.count(1, ("remap-history", hid) if any(s["diff"] or s["op"] == "recentre" for s in hist) else None)
        nsteps += len(hist)
        for i, clause in sorted(failed.get(hid, ())):
            st, obs = hist[i - 1], r["steps"][i - 1]
            # (a call of the alphabet that raises even on freshly built grids is a Raises verdict too: every
            # call of the alphabet is admissible on these grids - k <= 3 <= every element count)
            calls = [s.get("call", "construct_face_centers('cartesian average') on the source") for s in hist[:i]]
            key = "remap-hist:" + ";".join(("%s/%s/%s/%s/%s/d%d" % (c["level"], c["kind"], c["remapTo"], c["coord"], c["meth"], c["dest"])) if isinstance(c, dict) else "recentre" for c in calls)
            ctx.violation(key, clause, detail={"step": i, "differs_from_previous_call_in": st["diff"], "wrong_variables": obs.get("bad_kinds"), "changed": obs.get("changed"), "error": obs.get("err")}, replay={"source": "%s/r%d/c%d [topology_offcentres]" % H_SRC, "destinations": {str(d): "%s/r%d/c%d" % t for d, t in H_DST.items()}, "calls": calls, "data": "rng(kind index + 5).uniform(-3, 3, (2, n))"}, sig={"step": i, "diff": "+".join(st["diff"]) or "none", "level": st.get("call", {}).get("level", "-"), "after_recentre": any(x["op"] == "recentre" for x in hist[: i - 1])})
    ctx.note("remap_histories_replayed", len(items))
    ctx.note("remap_history_calls", nsteps)
    ctx.sample({"remap_history": [s.get("call", "recentre") for s in uniq[len(uniq) // 2]], "differs_from_previous": [s["diff"] for s in uniq[len(uniq) // 2]]})


# =============================================================================== dtype of the remapped variable
DCASES = []


def dtype_cases(ctx):
    """The dtype cases TLC enumerated (Remap!DTypeCases), face data of one source remapped to the nodes,
    edge centres and face centres of one destination."""
    import xarray as xr

    ux = hux.import_ux()
    src = catalog.entries(name="cuboctahedron", rot=0, cut=0)[0]
    dst = catalog.entries(name="rhombicuboctahedron", rot=0, cut=0)[0]
    n_done = 0
    for coord in ("spherical", "cartesian"):
        for rt in X.KINDS:
            gs, gd = X.build_grid(src), X.build_grid(dst)
            n = int(gs.n_face)
            # which sources a destination point uses, from float64 tracers of the same calls
            pick = [int(round(x)) for x in ux.UxDataArray(np.arange(float(n)), dims=["n_face"], uxgrid=gs, name="v").remap.nearest_neighbor(gd, remap_to=rt, coord_type=coord).values]
            supp = {}
            for k in (2, 3):
                W = np.asarray(ux.UxDataArray(np.eye(n), dims=["t", "n_face"], uxgrid=gs, name="w").remap.inverse_distance_weighted(gd, remap_to=rt, coord_type=coord, k=k, power=2).values)
                supp[k] = [[int(a) for a in np.nonzero(W[:, i] > 0)[0]] for i in range(W.shape[1])]
            for dc in DCASES:
                dt = np.dtype(dc["dtype"])
                if dc["dtype"] == "bool":
                    ramp = (np.arange(n) % 2).astype(dt)
                elif dc["dtype"] == "uint8":
                    ramp = (np.arange(n) * 3 + 1).astype(dt)
                else:
                    ramp = (np.arange(n) * 3 - 11).astype(dt)
                fields = [("ramp", ramp, None)] + [("const %d" % c, np.full(n, c).astype(dt), c) for c in sorted(dc["consts"])]
                key = "dtype:%s/%s/%s/%s->%s" % (dc["dtype"], dc["meth"], dc["level"], coord, rt)
                sig = {"class": "dtype", "dtype": dc["dtype"], "method": dc["meth"], "level": dc["level"], "coord": coord}
                for fname, field, cval in fields:
                    try:
                        kw = {"remap_to": rt, "coord_type": coord}
                        if dc["level"] == "da":
                            obj = ux.UxDataArray(field.copy(), dims=["n_face"], uxgrid=gs, name="v")
                        else:
                            obj = ux.UxDataset(xr.Dataset({"v": (["n_face"], field.copy())}), uxgrid=gs)
                        if dc["meth"] == "nn":
                            out = obj.remap.nearest_neighbor(gd, **kw)
                        else:
                            out = obj.remap.inverse_distance_weighted(gd, k=int(dc["meth"][3:]), power=2, **kw)
                        out = out if dc["level"] == "da" else out["v"]
                        vals = np.asarray(out.values)
                        n_done += 1
                    except Exception as e:  # noqa
                        ctx.violation(key + "/" + fname, "Raises", detail="%s: %s" % (type(e).__name__, str(e)[:160]), replay={"case": {k_: (sorted(v_) if isinstance(v_, (set, frozenset)) else v_) for k_, v_ in dc.items()}, "field": fname}, sig=sig)
                        continue
                    rp = {"source": "cuboctahedron/r0/c0 face data", "destination": "rhombicuboctahedron/r0/c0 " + rt, "dtype": dc["dtype"], "method": dc["meth"], "level": dc["level"], "coord": coord, "field": fname, "data": [x.item() for x in field], "result": [x.item() for x in vals], "result_dtype": str(vals.dtype)}
                    if dc["meth"] == "nn":
                        if vals.dtype != dt:
                            ctx.violation(key + "/" + fname, "DTypeKept", detail={"source": str(dt), "result": str(vals.dtype)}, replay=rp, sig=sig)
                        if [x.item() for x in vals] != [field[c].item() for c in pick]:
                            ctx.violation(key + "/" + fname, "NearestValue", detail="a destination value is not exactly the value of its nearest source", replay=rp, sig=sig)
                    else:
                        k = int(dc["meth"][3:])
                        integral = vals.dtype.kind in "iub"  # the result is read in ITS dtype
                        tol = 0 if integral else 1e-9 * max(1.0, float(np.max(np.abs(field.astype(float)))))
                        lo = np.array([min(field[a].item() for a in s_) for s_ in supp[k]], dtype=float)
                        hi = np.array([max(field[a].item() for a in s_) for s_ in supp[k]], dtype=float)
                        v = vals.astype(float)
                        bad = np.nonzero((v < lo - tol) | (v > hi + tol))[0]
                        if bad.size:
                            ctx.violation(key + "/" + fname, "BetweenMinMax", detail={"result_dtype": str(vals.dtype), "first": [(int(i), float(v[i]), float(lo[i]), float(hi[i])) for i in bad[:3]]}, replay=rp, sig=sig)
                        if cval is not None and np.any(np.abs(v - float(cval)) > tol):
                            ctx.violation(key + "/" + fname, "ConstantReproduced", detail={"result_dtype": str(vals.dtype), "constant": cval, "result": sorted(set(x.item() for x in vals))[:4]}, replay=rp, sig=sig)
    ctx.count(n_done, None)
    ctx.traces += n_done
    ctx.note("dtype_cases(TLC) x coord x remap_to x {ramp, constants} remap calls", n_done)


# =============================================================================== polar caps
CAP_MARGIN = 1e-9  # rad


def run_cap_pair(job):
    """Remap between two polar-cap meshes (elements 0.01 .. 1 degree from a pole, all centres derived by the
    library); the nearest source / the IDW support are judged by a float brute force on independently
    computed exact directions (tie margin 1e-9 rad); spherical and Cartesian remaps must agree."""
    pole, cap = job["pole"], job["cap"]
    ux = hux.import_ux()
    src = X.cap_mesh(pole, cap["places"], cap["unit_inv"])
    dst = X.cap_mesh(pole, cap["places"], cap["unit_inv"], shift=(1, 0))
    fails, n_ans = [], 0
    try:
        g0s, g0d = X.build_grid(src), X.build_grid(dst)
        sref = {k: X.cap_reference(src, g0s, k) for k in X.KINDS}
        dref = {k: X.cap_reference(dst, g0d, k) for k in X.KINDS}
    except Exception as e:  # noqa
        return {"pole": pole, "fails": [("Raises", "grids", "%s: %s" % (type(e).__name__, str(e)[:160]), {})], "n": 0}
    places = {"face centers": dst["face_place"]}
    for kind in X.KINDS:
        for rt in X.KINDS:
            S, D = sref[kind], dref[rt]
            ang = np.array([[lattice_ang(d, s_) for s_ in S] for d in D])  # (n_dst, n_src)
            chosen = {}
            for coord in ("spherical", "cartesian"):
                call = "%s->%s %s" % (kind, rt, coord)
                sig = {"class": "polar_cap", "pole": pole, "kind": kind, "remap_to": rt, "coord": coord}
                try:
                    gs, gd = X.build_grid(src), X.build_grid(dst)
                    n_src = S.shape[0]
                    da = ux.UxDataArray(np.arange(float(n_src)), dims=[X.DIMS[kind]], uxgrid=gs, name="v")
                    out = np.asarray(da.remap.nearest_neighbor(gd, remap_to=rt, coord_type=coord).values)
                    pick = [int(round(x)) for x in out]
                    chosen[coord] = pick
                    n_ans += len(pick)
                    bad = [i for i, c in enumerate(pick) if not (0 <= c < n_src) or ang[i, c] > ang[i].min() + CAP_MARGIN]
                    if bad or len(pick) != D.shape[0]:
                        fails.append(("NearestSource", "nn " + call, {"n_wrong": len(bad), "of": len(pick), "first": [(i, pick[i], int(np.argmin(ang[i])), float(np.degrees(ang[i].min()))) for i in bad[:3]]}, sig))
                    k = 3
                    idw = ux.UxDataArray(np.eye(n_src), dims=["t", X.DIMS[kind]], uxgrid=gs, name="w")
                    W = np.asarray(idw.remap.inverse_distance_weighted(gd, remap_to=rt, coord_type=coord, k=k, power=2).values)  # (n_src, n_dst)
                    n_ans += W.shape[1]
                    if np.min(W) < -1e-12 or np.max(np.abs(W.sum(axis=0) - 1.0)) > 1e-9:
                        fails.append(("ConvexCombination", "idw " + call, {"min": float(np.min(W))}, sig))
                    bs, bm = [], []
                    for i in range(W.shape[1]):
                        supp = [int(x) for x in np.nonzero(W[:, i] > 0)[0]]
                        kth = np.sort(ang[i])[k - 1]
                        if len(supp) != k or any(ang[i, a] > kth + CAP_MARGIN for a in supp):
                            bs.append(i)
                        if any(ang[i, a] < ang[i, b] - CAP_MARGIN and W[a, i] < W[b, i] * (1 - 1e-9) for a in supp for b in supp):
                            bm.append(i)
                    if bs:
                        fails.append(("SupportNotNearest", "idw " + call, {"n_wrong": len(bs), "of": W.shape[1], "first": bs[:3]}, sig))
                    if bm:
                        fails.append(("WeightsMonotone", "idw " + call, {"n_wrong": len(bm), "of": W.shape[1], "first": bm[:3]}, sig))
                except Exception as e:  # noqa
                    fails.append(("Raises", call, "%s: %s" % (type(e).__name__, str(e)[:160]), sig))
            if len(chosen) == 2:
                dis = [i for i, (a, b) in enumerate(zip(chosen["spherical"], chosen["cartesian"])) if a != b and 0 <= a < S.shape[0] and 0 <= b < S.shape[0] and abs(ang[i, a] - ang[i, b]) > CAP_MARGIN]
                if dis:
                    fails.append(("SystemsAgree", "nn %s->%s" % (kind, rt), {"n_disagree": len(dis), "first": [(i, chosen["spherical"][i], chosen["cartesian"][i]) for i in dis[:3]]}, {"class": "polar_cap", "pole": pole, "kind": kind, "remap_to": rt}))
    return {"pole": pole, "fails": fails, "n": n_ans}


def lattice_ang(u, v):
    from harness import lattice

    return lattice.ang_between(u, v)


def cap_plan(ctx):
    r = ctx.tlc_ok("NearestMC", "INIT Init\nNEXT Next\nCONSTANTS\n K = 1\n Extra <- ExtraPts\n NS = 3\n QSet <- QPole\nINVARIANT EmitCap\nCHECK_DEADLOCK FALSE\n", what="polar-cap plan (places, poles, unit) from Nearest!CapPlan", workers=1)
    for v in r.prints:
        if isinstance(v, tuple) and len(v) == 2 and v[0] == "CAP":
            return {"places": list(v[1]["places"]), "poles": list(v[1]["poles"]), "unit_inv": int(v[1]["unit_inv"])}
    raise Machinery("the polar-cap plan was not printed")


def polar_caps(ctx):
    cap = cap_plan(ctx)
    res = pmap(run_cap_pair, [{"pole": p, "cap": cap} for p in cap["poles"]], chunk=1, nproc=2)
    total = 0
    for r in res:
        total += r["n"]
        for clause, call, detail, sig in r["fails"]:
            ctx.violation("polar_cap_%s::%s" % ("N" if r["pole"] > 0 else "S", call), clause, detail=detail, replay={"source": "harness.x_c11.cap_mesh(%d, %s, %d)" % (r["pole"], cap["places"], cap["unit_inv"]), "destination": "the same shifted by (1, 0) units", "call": call}, sig=sig)
    ctx.count(total, None)
    ctx.traces += total
    ctx.note("polar_cap_destination_points(float brute force on exact directions, 1e-9 rad tie margin)", total)
    ctx.note("polar_cap_plan(from TLC)", cap)


# =============================================================================== run
def run(ctx):
    rng = random.Random(ctx.seed)
    thorough = ctx.tier == "thorough"
    ctx.rule = (
        "Remap.tla fixes the vocabulary (source kind = NAME of the element dimension; output dims) and carries the kind-inference mechanism as "
        "data: TLC proves the intended mechanism right for all size triples, proves the transcribed one (length, nodes first) right unless sizes "
        "coincide, prints the failing patterns, and generates the call matrix. Source/destination pairs from the catalogue (coincident-size meshes, "
        "a source with file-supplied face centres, a grid onto itself, sub-meshes with n_edge = n_node) are replayed through UxDataArray.remap with "
        "tracer data (value = source index + 1000 t + 100000 l; identity matrix for IDW, which makes the weights readable). TLC plans every "
        "(source kind, destination point) case and judges the chosen source (pick), the identity law (ident) and the support of the IDW weights (kset); "
        "Python checks dims/grid/shape against TLC's expected values, leading-dimension consistency, convexity, constants, min/max bounds and that "
        "weights do not increase along TLC's exact distance ranks. Non-trivial = judged destination point whose nearest source is not index-equal "
        "(or any IDW support). Histories: RemapHist.tla (the neighbour search a call needs vs the one its values come from; a memo as mechanism data) "
        "generates sequences of 2-3 remap calls on one source grid object and fixed destination objects (data kind, remap_to, coord_type, nn/idw k, "
        "DataArray vs Dataset level, destination), each result compared with the same call on freshly built grids and judged by TLC."
    )
    predicted, matrix = model(ctx)
    X.warm()
    remap_histories(ctx, rng)
    polar_caps(ctx)
    dtype_cases(ctx)
    ctx.note("predicted_wrong_kind_patterns(TLC, observed mechanism)", sorted("%s data, same length as %s -> treated as %s" % (k, "+".join(sorted(p)), v) for (k, p), v in predicted.items()))
    X.warm()
    pairs = choose_pairs(rng, thorough)
    plan_a = pmap(pair_plan, pairs)
    cases = []
    jobs = []
    for p, a in zip(pairs, plan_a):
        if "error" in a:
            ctx.violation("pair:" + a["pid"], "Raises", detail=a["error"], replay={"pair": a["pid"]}, sig={"site": "grid construction"})
            continue
        pattern, pk = {}, {}
        for kind in X.KINDS:
            pat = frozenset(k2 for k2 in X.KINDS if k2 != kind and a["sizes"][k2] == a["sizes"][kind])
            pattern[kind] = "+".join(sorted(pat)) or "none"
            pk[kind] = predicted.get((kind, pat), kind)
        for kind in X.KINDS:
            if a["S"][kind] is None:
                continue
            for rt in X.KINDS:
                if a["D"][rt] is None:
                    continue
                for i, q in enumerate(a["D"][rt]):
                    cases.append({"id": "%s|%s|%s|%d" % (a["pid"], kind, rt, i), "q": q, "S": a["S"][kind]})
                    # the same destination point against the elements of the kind the observed mechanism is predicted to use
                    if pk[kind] != kind and a["S"].get(pk[kind]) is not None:
                        cases.append({"id": "%s|%s|%s|%d|as" % (a["pid"], kind, rt, i), "q": q, "S": a["S"][pk[kind]]})
        jobs.append({"pair": p, "a": a, "matrix": matrix, "pattern": pattern, "predicted": pk, "seed": ctx.seed + len(jobs)})
    plans = X.plan(ctx, cases, workers=8)
    by_case = {c["id"]: c for c in cases}
    for j in jobs:
        pre = j["a"]["pid"] + "|"
        j["plans"] = {cid: pl for cid, pl in plans.items() if cid.startswith(pre)}
    res = pmap(run_pair, jobs, chunk=1)
    recs, tags = [], {}
    for r in res:
        for cid, es in r["ents"].items():
            c = by_case[cid]
            recs.append({"id": cid, "q": c["q"], "S": c["S"], "ents": es})
            if cid + "|as" in by_case:
                ca = by_case[cid + "|as"]
                recs.append({"id": cid + "|as", "q": ca["q"], "S": ca["S"], "ents": [e if e["m"] != "ident" else {"j": e["j"], "m": "pick", "res": e["res"]} for e in es if e["m"] in ("pick", "kset", "ident")]})
        tags.update(r["tags"])
    failed = X.judge(ctx, recs, workers=8)
    ent_index = {(rr["id"], e["j"]): e for rr in recs for e in rr["ents"]}
    job_by_pid = {j["a"]["pid"]: j for j in jobs}
    n_calls = sum(r["ncalls"] for r in res)
    for rr in recs:
        if rr["id"].endswith("|as"):
            continue
        di = int(rr["id"].split("|")[3])
        for e in rr["ents"]:
            nontrivial = e["m"] == "kset" or (e["m"] == "pick" and e["res"] != [di])
            ctx.count(1, (rr["id"], e["j"]) if nontrivial else None)
    for cid, fs in sorted(failed.items()):
        if cid.endswith("|as"):
            continue
        pid, kind, rt, i = cid.split("|")
        job = job_by_pid[pid]
        for jn, clause in sorted(fs):
            ent = ent_index[(cid, jn)]
            call = tags["%s#%d" % (cid, jn)]
            coord = "cartesian" if " cartesian " in call else "spherical"
            sig = {"kind": kind, "remap_to": rt, "coord": coord, "variant": job["pair"][1], "pattern": job["pattern"][kind], "predicted_kind": job["predicted"][kind], "src_xyz_consistent": bool(job["a"]["xyz_ok"][kind]) if coord == "cartesian" else True, "dst_xyz_consistent": bool(job["a"]["dxyz_ok"][rt]) if coord == "cartesian" else True}
            if cid + "|as" in by_case and ent["m"] in ("pick", "kset", "ident"):
                # does the exact oracle accept the answer as the nearest element(s) of the PREDICTED (wrong) kind?
                sig["answer_is_nearest_of_predicted_kind"] = not any(x[0] == jn for x in failed.get(cid + "|as", set()))
            ctx.violation("%s::%s" % (cid, call), clause, detail={"answer": ent, "exact_ranks": plans[cid]["lt"]}, replay={"pair": pid, "data_kind": kind, "remap_to": rt, "dest_index": int(i), "q": by_case[cid]["q"], "S": by_case[cid]["S"], "call": call, "answer": ent}, sig=sig)
    for r in res:
        for nf in r["num"]:
            ctx.violation("%s::%s" % (r["pid"], nf["call"]), nf["clause"], detail=nf["detail"], replay={"pair": r["pid"], "call": nf["call"]}, sig=nf["sig"])
        for er in r["errors"]:
            ctx.violation("%s::%s" % (r["pid"], er["call"]), "Raises", detail=er["error"], replay={"pair": r["pid"], "call": er["call"]}, sig=er["sig"])
    ctx.note("pairs", [j["a"]["pid"] for j in jobs])
    ctx.note("call_matrix_size", len(matrix))
    ctx.note("remap_calls", n_calls)
    ctx.note("cases(source kind x destination point)", len([c for c in cases if not c["id"].endswith("|as")]))
    ctx.note("answers_judged_by_tlc", sum(len(r["ents"]) for r in recs))
    if recs:
        r0 = recs[len(recs) // 2]
        ctx.sample({"case": r0["id"], "q": r0["q"], "S": r0["S"][:6], "answers": [dict(e, call=tags.get("%s#%d" % (r0["id"], e["j"]), "")) for e in r0["ents"][:3]]})
    ctx.sample({"matrix_case": matrix[len(matrix) // 2]})
    ctx.assumptions += [
        "TLC's evaluator and the CommunityModules Json reader",
        "source and destination points are the grids' own reported spherical coordinates matched to lattice directions within 1e-9; kinds whose positions are not lattice directions (centres of meshes with unequal corner lengths) are not exercised",
        "the exact IDW weight formula is not judged; only sign, normalisation and monotonicity along the exact distance order",
        "k is exercised up to min(n of the data's kind, n_node): the library itself refuses k > n_node",
        "destinations with a single point are not exercised",
        "sub-meshes (two opposite cube faces, one octagon) are cut from proved catalogue entries by the harness",
        "polar caps (elements 0.01 .. 1 degree from a pole, derived centres): beyond 32-bit exact comparison; judged by a float brute force on independently computed exact directions with a 1e-9 rad tie margin; places and poles from Nearest!CapPlan",
        "history clause: 'what the same call gives on freshly built grids' is computed by the same code on new Grid objects and compared to 1e-12",
    ]

"""X01 (extension) - Intersections: arc/arc, arc/parallel, mesh/parallel agree with exact geometry.

Spec    tla/Intersect.tla (extends ArcZ.tla / SphereZ.tla): exact intersection set and configuration of two
        closed minor arcs; exact intersection count of an arc with a parallel z = c (c = s sqrt(num/den));
        straddling edges and the faces owning one.
Model   tla/IntersectScope.tla: every arc pair, (arc, parallel) and (arc, interior point) of the lattice; laws
        as invariants; emits the cases with the exact answers.
Replay  gca_gca_intersection (touching / near-miss / coplanar configurations), gca_const_lat_intersection
        (lattice arcs and arcs shrunk to ~1e-6 rad), fast_constant_lat_intersections (tables of arcs),
        Grid.get_edges_at_constant_latitude / get_faces_at_constant_latitude / cross_section.constant_latitude
        (catalogue meshes), as generated and under exact and perturbed metamorphic replays.
Judge   tla/JudgeIntersect.tla decides every record.
"""

from __future__ import annotations

import math
import os

# fast_constant_lat_intersections is a numba prange kernel: with the default 16 threads per replay process a call on a
# 50-edge grid costs ~0.1 s of thread wake-ups on a shared machine; two threads keep the parallel code path and cost ~1 ms
os.environ.setdefault("NUMBA_NUM_THREADS", "2")
import random
import zlib
from collections import Counter

from harness import catalog
from harness import x_c14 as XC
from harness import x_x01 as X
from harness.core import Machinery
from harness.pool import pmap

PROP = "X01"
FN = {"P": "gca_gca_intersection", "Z": "gca_const_lat_intersection", "SZ": "gca_const_lat_intersection",
      "F": "fast_constant_lat_intersections", "G": "Grid.get_edges/faces_at_constant_latitude"}
NAMES = {"P": X.P_VARIANTS, "Z": X.Z_VARIANTS, "SZ": X.SZ_VARIANTS, "F": ["base"], "G": ["base"]}


def _jseed(seed, rid):
    return (int(seed) * 1000003 + zlib.crc32(rid.encode())) % (2 ** 31)


def _kz(a, b):
    return 1 + (sum(a) * 7 + sum(b) * 3 + a[0] + 2 * b[1]) % 3


def _group(items, key):
    by = {}
    for q in items:
        by.setdefault(key(q), []).append(q)
    return sorted(by.items())


def build_cases(ctx, rng, K, pairs, lats, shr, n_pairs, n_lat_arcs, n_shr):
    cases = []
    th = lambda: rng.uniform(0.05, 2 * math.pi - 0.05)  # noqa
    # arc pairs, grouped by first arc; a stratified sample over the configurations
    if len(pairs) > n_pairs:
        by = {}
        for q in pairs:
            by.setdefault(q["config"], []).append(q)
        share = max(1, n_pairs // len(by))
        pairs = [q for k in sorted(by) for q in (by[k] if len(by[k]) <= share else rng.sample(by[k], share))]
    for (a, b), qs in _group(pairs, lambda q: (tuple(q["a"]), tuple(q["b"]))):
        cases.append({"kind": "P", "id": "P:K%d:%s|%s" % (K, XC.vkey(a), XC.vkey(b)), "K": K, "a": list(a), "b": list(b),
                      "o": [[q["c"], q["d"]] for q in qs], "config": [q["config"] for q in qs], "theta": th()})
    g = _group(lats, lambda q: (tuple(q["a"]), tuple(q["b"])))
    if len(g) > n_lat_arcs:
        g = rng.sample(g, n_lat_arcs)
    for (a, b), qs in g:
        cases.append({"kind": "Z", "id": "Z:K%d:%s|%s" % (K, XC.vkey(a), XC.vkey(b)), "K": K, "a": list(a), "b": list(b),
                      "cs": [q["cz"] for q in qs], "count": [q["count"] for q in qs], "kz": _kz(a, b), "theta": th()})
    if len(shr) > n_shr:
        shr = rng.sample(shr, n_shr)
    for q in shr:
        cases.append({"kind": "SZ", "id": "SZ:K%d:%s|%s|%s" % (K, XC.vkey(q["a"]), XC.vkey(q["b"]), XC.vkey(q["p"])), "K": K,
                      "a": q["a"], "b": q["b"], "p": q["p"], "ks": X.S_KS})
    return cases


def table_cases(K, lats):
    """fast_constant_lat_intersections on the table of all emitted arcs, one record per parallel"""
    arcs = sorted({(tuple(q["a"]), tuple(q["b"])) for q in lats})
    arcs = [[list(a), list(b)] for a, b in arcs]
    cs = sorted({tuple(q["cz"]) for q in lats})
    return [{"kind": "F", "id": "F:K%d:%d,%d,%d" % ((K,) + c), "K": K, "cz": list(c), "arcs": arcs} for c in cs], [list(c) for c in cs]


def mesh_cases(rng, cs, thorough):
    rots = list(range(25)) if thorough else [0, 5, 13, 22]
    cuts = [0, 2, 3, 5] if thorough else [0, 3]
    out = []
    for e in catalog.entries(rot=rots, cut=cuts):
        sel = cs if thorough else rng.sample(cs, min(len(cs), 16))
        out.append({"kind": "G", "id": "G:" + catalog.eid(e), "nodes": [list(v) for v in e["nodes"]],
                    "faces": [list(f) for f in e["faces"]], "cs": sorted(sel)})
    return out


REPLAY = {"P": X.replay_p, "Z": X.replay_z, "SZ": X.replay_sz, "F": X.replay_f, "G": X.replay_g}


def _replay_any(c):
    return REPLAY[c["kind"]](c)


def _groups(fails, names):
    nv = len(names)
    jv = names.index("jitter") + 1 if "jitter" in names else -1
    gv = nv if names[-1] == "rotG" else -1
    exact = sorted((c, v) for c, v in fails if v not in (jv, gv))
    out = []
    for suffix, name, vv in (("#j", "jitter", jv), ("#g", "rotG", gv)):
        g = sorted((c, v) for c, v in fails if v == vv)
        if exact and g and all(c in ("Invariance", "JitterStable") for c, _ in g):
            exact, g = sorted(exact + g), []
        out.append((suffix, name, g))
    return [("", "exact", exact)] + out


def report(ctx, V, cases):
    by = {c["id"]: c for c in cases}
    for v in V:
        _, rid, kind, j, cls, kinds, fails = v
        c = by[rid]
        for suffix, gname, grp in _groups(fails, NAMES[kind]):
            if not grp:
                continue
            rep = {"kind": kind, "id": rid, "j": j}
            if kind == "P":
                cd = c["o"][j - 1]
                key = "P/K%d/%s/%s/%s/%s%s" % (c["K"], XC.vkey(c["a"]), XC.vkey(c["b"]), XC.vkey(cd[0]), XC.vkey(cd[1]), suffix)
                rep.update(a=c["a"], b=c["b"], c=cd[0], d=cd[1], theta=c["theta"], jseed=c["jseed"])
            elif kind == "Z":
                key = "Z/K%d/%s/%s/c=%s%s" % (c["K"], XC.vkey(c["a"]), XC.vkey(c["b"]), XC.vkey(c["cs"][j - 1]), suffix)
                rep.update(a=c["a"], b=c["b"], cz=c["cs"][j - 1], kz=c["kz"], theta=c["theta"], jseed=c["jseed"])
            elif kind == "SZ":
                key = "SZ/K%d/%s/%s/%s/k%d%s" % (c["K"], XC.vkey(c["a"]), XC.vkey(c["b"]), XC.vkey(c["p"]), j, suffix)
                rep.update(a=c["a"], b=c["b"], p=c["p"], k=j, jseed=c["jseed"])
            elif kind == "F":
                key = "F/K%d/c=%s" % (c["K"], XC.vkey(c["cz"]))
                rep.update(cz=c["cz"], n_arcs=len(c["arcs"]))
            else:
                key = "%s/c=%s" % (rid, XC.vkey(c["cs"][j - 1]))
                rep.update(mesh=rid[2:], cz=c["cs"][j - 1])
            sig = {"fn": FN[kind], "kind": kind, "class": str(cls), "replay_group": gname, "arc_kind": "+".join(sorted(set(kinds))),
                   "short_arc": kind == "SZ"}
            for clause in sorted({cl for cl, _ in grp}):
                ctx.violation(key, clause, detail={"failed": grp, "variants": NAMES[kind], "exact": cls, "arc_kinds": list(kinds)}, sig=sig, replay=rep)


def run(ctx):
    rng = random.Random(ctx.seed)
    thorough = ctx.tier == "thorough"

    # ---- 1. model: laws on the exhaustive scope; the same run emits the cases with the exact answers
    _, pairs1, lats1, shr1 = X.scope(ctx, 1, ("P", "Z", "T"),
                                     what="intersection laws on every canonical arc pair, (arc, parallel) and (arc, point) of |c|<=1; emit cases")
    if thorough:
        _, pairs2, lats2, shr2 = X.scope(ctx, 2, ("P", "Z", "T"), stride=64, first_canon=True,
                                         what="intersection laws on |c|<=2: (arc, parallel), (arc, point), 1/64 of the arc pairs; emit cases")
    else:
        pairs2, lats2, shr2 = [], [], []
    cases = build_cases(ctx, rng, 1, pairs1, lats1, shr1, 10 ** 9 if thorough else 9000, 10 ** 9, 10 ** 9)
    if thorough:
        cases += build_cases(ctx, rng, 2, pairs2, lats2, shr2, 40000, 1500, 1500)
    f_cases, cs = table_cases(1, lats1)
    cases += f_cases
    if thorough:
        cases += table_cases(2, lats2)[0]
    cases += mesh_cases(rng, cs, thorough)
    for c in cases:
        c["jseed"] = _jseed(ctx.seed, c["id"])

    # ---- 2. replay
    X.warm_up()
    if X.fns()["needs_pyfma"]:
        ctx.violation("default-path/gca_const_lat_intersection", "Raises/pyfma",
                      detail={"error": X.fns()["needs_pyfma"], "call": "uxarray.utils.computing._fmms(3., 2., 1., 1.) / gca_const_lat_intersection(gca, 0.5) with fma_disabled=True (default)",
                              "note": "pyfma is only in the optional extra 'math'; an exact stand-in is installed for the rest of this run"},
                      sig={"fn": "gca_const_lat_intersection", "kind": "env", "class": "pyfma", "replay_group": "exact", "arc_kind": "-", "short_arc": False},
                      replay={"kind": "env", "a": [1, 0, 0], "b": [0, 1, 1], "c": 0.5})
    recs = pmap(_replay_any, cases)
    broken = [r for r in recs if r["kind"] == "G" and "error" in r]
    if broken:
        raise Machinery("catalogue mesh could not be built: %s %s" % (broken[0]["id"], broken[0]["error"]))

    # ---- 3. judge
    V, S = [], []
    chunk = 8000
    for k in range(0, len(recs), chunk):
        v, s = X.judge(ctx, recs[k:k + chunk], "judge %d implementation records" % len(recs[k:k + chunk]))
        V += v
        S += s
    stat = {k: Counter() for k in ("P", "Z", "SZ", "F", "G")}
    for _, rid, kind, akind, judged, boundary, pos in S:
        stat[kind]["judged"] += judged
        stat[kind]["not_judged_for_count"] += boundary
        stat[kind]["special"] += pos
    for kind in stat:
        if stat[kind]["judged"] == 0:
            raise Machinery("vacuous: nothing judged for kind %s" % kind)
    if stat["Z"]["special"] == 0:
        raise Machinery("vacuous: no arc bulging over a parallel (count 2) judged")
    report(ctx, V, cases)

    calls = (stat["P"]["judged"] * len(X.P_VARIANTS) + (stat["Z"]["judged"] + stat["Z"]["not_judged_for_count"]) * len(X.Z_VARIANTS)
             + stat["SZ"]["judged"] * len(X.SZ_VARIANTS) + len([c for c in cases if c["kind"] == "F"]) + 3 * stat["G"]["judged"])
    ctx.traces += sum(stat[k]["judged"] for k in stat)
    ctx.evaluations += calls
    for c in cases:
        n = len(c.get("o", c.get("cs", c.get("ks", [0]))))
        for j in range(n):
            ctx.nontrivial.add((c["id"], j))
    cfg = Counter(q["config"] for q in pairs1)
    ctx.exhaustive = True
    ctx.rule = (
        "TLC enumerates on the primitive lattice |c|<=1 every canonical arc pair (every configuration: proper crossing, T-junction, "
        "shared endpoint, disjoint incl. an endpoint on the other circle, and on one great circle overlap / touch / disjoint), every "
        "(arc, parallel) with 45 parallels (rationals p/q, q<=10, and the z of every lattice point: exact ties with endpoints and with "
        "the circle's top) and every (arc, interior point) for the shrunk family; thorough adds |c|<=2. Non-trivial = distinct "
        "(function, input) case. Counts are judged only where TLC's exact margins fix them (see notes); soundness of returned points "
        "is judged everywhere."
    )
    ctx.note("judged", {k: dict(v) for k, v in stat.items()})
    ctx.note("pair_configurations_emitted_K1", dict(cfg))
    ctx.note("parallels", len(cs))
    ctx.note("faces_met_only_by_a_bulging_side (documented inaccuracy of method='fast', information)", stat["G"]["special"])
    ctx.note("not_judged", "counts at exact ties: endpoint on the parallel, parallel tangent to the arc, arc of the equator with c = 0, "
             "touching arc pairs (shared endpoint, T-junction, coplanar touch): a perturbation of 1e-16 changes the exact answer there; "
             "edges with a node exactly on the parallel are don't-care for the straddle sets")
    ctx.note("tolerances", {"const_lat_points": X.TOL, "gca_gca_points_touching": X.TOL_TOUCH, "z_margin": X.Z_MARGIN})
    for kind in ("P", "Z", "SZ", "F", "G"):
        r = next(r for r in recs if r["kind"] == kind)
        s = {k: (v[:2] if isinstance(v, list) and k in ("o", "r", "cs", "arcs", "nodes", "faces", "ret") else v) for k, v in r.items()}
        ctx.sample(s)
    ctx.assumptions += [
        "TLC's evaluator, its 32-bit overflow trap, the CommunityModules Json reader",
        "float normalisation of integer directions within 1 ulp; c = s sqrt(num/den) evaluated with one sqrt; latitude in degrees = degrees(asin(c))",
        "returned points are tested against the float inputs that were passed (plane, unit length, z, not behind an endpoint) with the stated tolerances",
        "the class of shrunk arcs is inherited from the lattice case by LawParShrunk (model-checked for M = 1..3); their z-margin is evaluated in floats from the exact integers",
        "catalogue meshes are proved well-formed by TLC (Catalog.tla)",
    ]


def replay(path):
    """./check X01 --replay <file>: re-run the arc-level cases of a replay file and have TLC judge them again."""
    import json
    import shutil

    from harness import core

    with open(path) as fh:
        data = json.load(fh)
    ctx = core.Ctx(PROP, "replay", 0)
    try:
        cases = []
        for n, v in enumerate(data.get("cases", [])):
            r = v["replay"]
            if r.get("kind") == "P":
                cases.append({"kind": "P", "id": "P:%d" % n, "K": 1, "a": r["a"], "b": r["b"], "o": [[r["c"], r["d"]]], "theta": r["theta"],
                              "jseed": r["jseed"], "j0": r["j"] - 1, "key": v["key"]})
            elif r.get("kind") == "Z":
                cases.append({"kind": "Z", "id": "Z:%d" % n, "K": 1, "a": r["a"], "b": r["b"], "cs": [r["cz"]], "kz": r["kz"], "theta": r["theta"],
                              "jseed": r["jseed"], "j0": r["j"] - 1, "key": v["key"]})
            elif r.get("kind") == "SZ":
                cases.append({"kind": "SZ", "id": "SZ:%d" % n, "K": 1, "a": r["a"], "b": r["b"], "p": r["p"], "ks": X.S_KS, "jseed": r["jseed"], "key": v["key"]})
            else:
                print("not replayed individually (re-run the tier): %s" % v["key"])
        X.warm_up()
        recs = [_replay_any(c) for c in cases]
        V, _ = X.judge(ctx, recs, "re-judge %d replayed cases" % len(recs))
        bad = {}
        for v in V:
            bad.setdefault(v[1], []).append(sorted(v[6]))
        for c, rec in zip(cases, recs):
            print("%s  %s  impl(per variant)=%s" % ("FAILS" if c["id"] in bad else "holds", c["key"], json.dumps(rec["r"])[:200]))
            if c["id"] in bad:
                print("    failed (clause, variant): %s" % bad[c["id"]])
        return 1 if bad else 0
    finally:
        shutil.rmtree(ctx.work, ignore_errors=True)

"""C11 - neighbour queries agree with brute-force search under the tree's metric, and the
tree handed back always reflects the element kind, coordinate system and metric requested.

Specification: tla/Nearest.tla (exact order of lattice directions, tie groups, radius classes;
laws model-checked in NearestMC.tla), tla/TreeCache.tla (state machine of one grid's tree
caches with the mechanism as data), tla/JudgeNearest.tla (plans and judges recorded answers).
"""

from __future__ import annotations

import math
import random

import numpy as np

from harness import catalog
from harness import ux as hux
from harness import x_c11 as X
from harness.core import Machinery
from harness.pool import pmap

PROP = "C11"

EXACT = [("ball", "spherical", "haversine"), ("ball", "cartesian", "minkowski"), ("kd", "cartesian", "minkowski")]
FLOAT_QUICK = [("kd", "spherical", "minkowski"), ("ball", "cartesian", "manhattan")]
FLOAT_ALL = FLOAT_QUICK + [("kd", "cartesian", "manhattan"), ("kd", "spherical", "manhattan")]


def is_exact(tree, system, metric):
    return (tree, system, metric) in EXACT


# =============================================================================== 1. laws
LAWS_CFG = """INIT Init
NEXT Next
CONSTANTS
 K = 1
 Extra <- ExtraPts
 NS = 3
 QSet <- %s
INVARIANT OrderLaws
INVARIANT RankForm
INVARIANT Prefix
INVARIANT Exists
INVARIANT Symmetric
INVARIANT RadiusLaws
INVARIANT EmitCap
CHECK_DEADLOCK FALSE
"""


def laws(ctx):
    q = "QMid" if ctx.tier == "thorough" else "QFew"
    r = ctx.tlc_ok("NearestMC", LAWS_CFG % q, what="laws of the exact nearest order on the |c|<=1 lattice + 4 longer vectors, all 3-element sets, queries %s" % q, workers=8, timeout=1500)
    for v in r.prints:
        if isinstance(v, tuple) and len(v) == 2 and v[0] == "CAP":
            return {"places": list(v[1]["places"]), "poles": list(v[1]["poles"]), "unit_inv": int(v[1]["unit_inv"])}
    raise Machinery("the polar-cap plan was not printed")


# =============================================================================== 2. tree cache machine
TC_CFG = """SPECIFICATION Spec
CONSTANTS
 Kinds <- KindsDefault
 BallCombos <- BallCombosDefault
 KdCombos <- KdCombosDefault
 Trees = {%(trees)s}
 Recs = {%(recs)s}
 Mech <- %(mech)s
 MaxLen = %(maxlen)d
 Record = %(record)s
 WithSet = %(withset)s
 WithRemap = %(withremap)s
 WithRecentre = TRUE
 Shape = "%(shape)s"
%(invs)s
CHECK_DEADLOCK FALSE
"""


def tc_cfg(trees, mech, maxlen, record, invs, recs="TRUE, FALSE", withset=True, withremap=True, shape="any"):
    return TC_CFG % {
        "trees": ", ".join('"%s"' % t for t in trees),
        "recs": recs,
        "mech": mech,
        "maxlen": maxlen,
        "record": "TRUE" if record else "FALSE",
        "withset": "TRUE" if withset else "FALSE",
        "withremap": "TRUE" if withremap else "FALSE",
        "shape": shape,
        "invs": "".join("INVARIANT %s\n" % i for i in invs),
    }


def tree_model(ctx):
    both = ["ball", "kd"]
    scopes = [(both, 3)]
    if ctx.tier == "thorough":
        scopes += [(["ball"], 4), (["kd"], 4)]
    for trees, depth in scopes:
        if depth <= 3:
            ctx.tlc_ok("TreeCache", tc_cfg(trees, "MechIntended", depth, False, ["TypeOK", "HandBack", "Coherent", "Rebuilt", "StableHandle"]), what="intended mechanism: HandBack, Coherent, Rebuilt, StableHandle; %s, depth %d" % ("+".join(trees), depth))
        ctx.tlc_ok("TreeCache", tc_cfg(trees, "MechObserved", depth, False, ["TypeOK", "HandBack", "Coherent", "Rebuilt"]), what="mechanism as transcribed from the code: HandBack, Coherent, Rebuilt; %s, depth %d" % ("+".join(trees), depth))
    # the two ways the mechanism is expected to fall short / did fall short: TLC must find them
    r = ctx.tlc("TreeCache", tc_cfg(both, "MechObserved", 3, False, ["StableHandle"]), what="observed mechanism: StableHandle (expected to be refuted: the handle is the cached object)", count=False)
    if r.violated != "StableHandle":
        raise Machinery("TLC did not refute StableHandle under MechObserved: %s" % r)
    ctx.note("stable_handle_under_observed_mechanism", "refuted by TLC (get nodes; get face centers: the first handle now answers for face centers)")
    r = ctx.tlc("TreeCache", tc_cfg(both, "MechRecFlagOnly", 3, False, ["Rebuilt"]), what="in-model mutant MechRecFlagOnly (reconstruct only sets a flag): Rebuilt must be refuted", count=False)
    if r.violated != "Rebuilt":
        raise Machinery("TLC did not refute Rebuilt under MechRecFlagOnly: %s" % r)
    for mech in ("MechKindOnly", "MechNoMetric"):
        r = ctx.tlc("TreeCache", tc_cfg(both, mech, 3, False, ["HandBack"]), what="in-model mutant %s: HandBack must be refuted" % mech, count=False)
        if r.violated != "HandBack":
            raise Machinery("TLC did not refute HandBack under %s: %s" % (mech, r))


# =============================================================================== 3. histories
HIST_ENTRY = None
PANEL_Q = [[1, 2, 3], [-3, 1, 2], [2, -3, -1]]
PANEL_K = 4


def hist_entry():
    global HIST_ENTRY
    if HIST_ENTRY is None:
        HIST_ENTRY = catalog.entries(name="cuboctahedron", rot=0, cut=0)[0]
    return HIST_ENTRY


def gen_histories(ctx, trees, maxlen, simulate=None, depth=None, recs="TRUE, FALSE", seed=None, shape="any"):
    kw = {}
    if simulate:
        kw = {"simulate": simulate, "depth": depth, "seed": seed}
    r = ctx.tlc_ok("TreeCache", tc_cfg(trees, "MechObserved", maxlen, True, ["HandBack", "Emit"], recs=recs, shape=shape), what="generate request histories of length %d over %s%s%s" % (maxlen, "+".join(trees), " (simulation)" if simulate else " (all)", ", construct_face_centers as the second step" if shape != "any" else ""), workers=8 if not simulate else 1, timeout=1500, **kw)
    out = []
    for v in r.prints:
        if isinstance(v, tuple) and len(v) == 2 and v[0] == "H":
            out.append([{"act": list(s["act"]), "ret": s["ret"], "pred": [list(p) for p in s["pred"]]} for s in v[1]])
    if not out:
        raise Machinery("no histories generated: %s\n%s" % (r, r.out[-1500:]))
    if not simulate and any(len(h) != maxlen for h in out):
        raise Machinery("a generated history does not have length %d" % maxlen)
    return out


def panel_coords(tree, system):
    order = "lonlat" if tree == "ball" else "latlon"
    return [X.present(q, system, order, "deg") for q in PANEL_Q]


def run_panel(h, tree, expect):
    """Query handle h the way a caller who asked for `expect` = (kind, system, metric) would."""
    try:
        d, ind = h.query(panel_coords(tree, expect[1]), k=PANEL_K)
        ind = np.asarray(ind)
        d = np.asarray(d, dtype=float)
        if ind.shape != (len(PANEL_Q), PANEL_K):
            return ("shape", tuple(ind.shape))
        return ("ok", tuple(tuple(int(x) for x in row) for row in ind), tuple(tuple(float(x) for x in row) for row in d))
    except Exception as e:  # noqa
        return ("error", type(e).__name__)


def combo_ok(tree, triple):
    return (tree, triple[1], triple[2]) in EXACT + FLOAT_ALL


def attr_of(h):
    return [str(h.coordinates), str(h.coordinate_system), str(h.distance_metric)]


_G0 = None


def hist_grid():
    """A fresh Grid per history.  The element coordinates (both systems, all three kinds) are
    derived once per process by the library itself on a first grid; a fresh grid is then made
    with the public constructor Grid(dataset, source_grid_spec) from a deep copy of a dataset
    holding those values under the library's own variable and dimension names (~0.3 ms
    instead of ~12 ms per history)."""
    global _G0
    import xarray as xr

    from harness import ux as hux

    ux = hux.import_ux()
    if _G0 is None:
        g0 = X.build_grid(hist_entry())
        ds = xr.Dataset()
        for p in ("node", "face", "edge"):
            for c in ("lon", "lat", "x", "y", "z"):
                ds["%s_%s" % (p, c)] = xr.DataArray(np.array(getattr(g0, "%s_%s" % (p, c)).values, dtype=float), dims=["n_" + p])
        # the face centres of the history grid are SUPPLIED and are not the nodal centroids, so that
        # Grid.construct_face_centers changes what the grid reports
        from harness import lattice

        off = X.off_face_dirs(hist_entry())
        ll = [lattice.lonlat_deg(d) for d in off]
        uu = [lattice.unit(d) for d in off]
        ds["face_lon"] = xr.DataArray(np.array([a for a, _ in ll]), dims=["n_face"])
        ds["face_lat"] = xr.DataArray(np.array([b for _, b in ll]), dims=["n_face"])
        for ci, c in enumerate("xyz"):
            ds["face_" + c] = xr.DataArray(np.array([u[ci] for u in uu]), dims=["n_face"])
        ds["face_node_connectivity"] = xr.DataArray(np.array(g0.face_node_connectivity.values), dims=["n_face", "n_max_face_nodes"], attrs=dict(g0.face_node_connectivity.attrs))
        ds["edge_node_connectivity"] = xr.DataArray(np.array(g0.edge_node_connectivity.values), dims=["n_edge", "two"])
        _G0 = ds
    return ux.Grid(_G0.copy(deep=True), source_grid_spec="User Defined Topology")


_RD = None


def remap_dest():
    global _RD
    if _RD is None:
        _RD = X.build_grid(catalog.entries(name="octahedron", rot=0, cut=0)[0])
    return _RD


def replay_history(item):
    hid, hist = item
    g = hist_grid()
    handles = []
    trees = []
    steps = []
    cvnow = 0
    for st in hist:
        act = st["act"]
        rec = {"act": act, "cvnow": cvnow}
        try:
            if act[0] == "get":
                _, t, kind, system, metric, rcn = act
                fn = g.get_ball_tree if t == "ball" else g.get_kd_tree
                h = fn(coordinates=kind, coordinate_system=system, distance_metric=metric, reconstruct=bool(rcn))
                idx = next((i for i, x in enumerate(handles) if x is h), None)
                if idx is None:
                    slot = st["ret"] - 1
                    if 0 <= slot < len(handles) and handles[slot] is None and trees[slot] == t:
                        handles[slot] = h  # the wrapper an earlier remap call left in the cache
                        idx = slot
                    else:
                        handles.append(h)
                        trees.append(t)
                        idx = len(handles) - 1
                rec["ret"] = idx + 1
                rec["want"] = [kind, system, metric]
                rec["cached"] = bool((g._ball_tree if t == "ball" else g._kd_tree) is h)
            elif act[0] == "recentre":
                g.construct_face_centers(method="cartesian average")
                cvnow = 1
                rec["cvnow"] = 1
                rec["ret"] = 0
                rec["want"] = None
            elif act[0] == "remap":
                # a remap call from this grid with data on act[1]; its internal wrapper is not handed out
                ux = hux.import_ux()
                nk = {"nodes": g.n_node, "face centers": g.n_face, "edge centers": g.n_edge}[act[1]]
                da = ux.UxDataArray(np.arange(float(nk)), dims=[X.DIMS[act[1]]], uxgrid=g, name="v")
                da.remap.nearest_neighbor(remap_dest(), remap_to="nodes", coord_type=act[2])
                handles.append(None)
                trees.append("ball")
                rec["ret"] = 0
                rec["want"] = None
            else:
                hidx = act[1] - 1
                if hidx >= len(handles) or handles[hidx] is None:
                    rec["skipped"] = True  # the model's handle does not exist here (drift)
                    steps.append(rec)
                    continue
                before = attr_of(handles[hidx])
                handles[hidx].coordinates = act[2]
                rec["ret"] = act[1]
                # the setter switches the element kind only
                rec["want"] = [act[2], before[1], before[2]]
        except Exception as e:  # noqa
            rec["error"] = "%s: %s" % (type(e).__name__, str(e)[:160])
            steps.append(rec)
            break
        obs = []
        for i, h in enumerate(handles):
            if h is None:
                obs.append(None)
                continue
            pcv = st["pred"][i][3] if i < len(st["pred"]) else cvnow
            if i == rec["ret"] - 1:
                expect = rec["want"]
                # reconstruct = TRUE must answer from the centres the grid reports now; otherwise the model's prediction
                ecv = cvnow if (act[0] == "get" and bool(act[5])) else pcv
            elif i < len(st["pred"]) and combo_ok(trees[i], st["pred"][i][:3]):
                expect = st["pred"][i][:3]
                ecv = pcv
            else:
                expect = attr_of(h)
                ecv = pcv
            if expect[0] != "face centers":
                ecv = 0
            obs.append({"attr": attr_of(h), "expect": list(expect), "cv": int(ecv), "tree": trees[i], "beh": run_panel(h, trees[i], expect)})
        rec["obs"] = obs
        steps.append(rec)
    return {"id": hid, "steps": steps}


def behaviour_verdicts(ctx, behs):
    """behs: set of (tree, kind, system, metric, beh). Returns {key: set(failed clause names)}.
    Exact orders are judged by TLC; planar / Manhattan orders by the float oracle."""
    e = hist_entry()
    gcv = {0: hist_grid(), 1: hist_grid()}
    gcv[1].construct_face_centers(method="cartesian average")
    out = {}
    S = {}
    for kind in X.KINDS:
        for system in ("spherical", "cartesian"):
            for cv in (0, 1):
                # version 0 of the face centres: the supplied off-centre directions; version 1: the nodal centroids
                S[(kind, system, cv)] = X.project(e, gcv[cv], kind, system, "topology_offcentres" if (kind == "face centers" and cv == 0) else "topology")
                if S[(kind, system, cv)] is None:
                    raise Machinery("history grid: %s (centre version %d) not on the lattice in %s coordinates" % (kind, cv, system))
    if S[("face centers", "spherical", 0)] == S[("face centers", "spherical", 1)]:
        raise Machinery("history grid: construct_face_centers does not change the face centres")
    cases = [{"id": "hp|%s|%s|%d|%d" % (kind, system, cv, qi), "q": q, "S": S[(kind, system, cv)]} for kind in X.KINDS for system in ("spherical", "cartesian") for cv in (0, 1) for qi, q in enumerate(PANEL_Q)]
    plans = X.plan(ctx, cases)
    recs = {}
    jmap = {}
    for key in sorted(behs, key=repr):
        tree, kind, system, metric, cv, beh = key
        g = gcv[cv]
        if beh[0] != "ok":
            out[key] = {"Raises" if beh[0] == "error" else "KnnShape"}
            continue
        if not combo_ok(tree, (kind, system, metric)):
            out[key] = {"Unjudgeable"}
            continue
        out[key] = set()
        _, inds, dists = beh
        if is_exact(tree, system, metric):
            unit = "deg" if system == "spherical" else "chord"
            for qi in range(len(PANEL_Q)):
                cid = "hp|%s|%s|%d|%d" % (kind, system, cv, qi)
                r = recs.setdefault(cid, {"id": cid, "q": PANEL_Q[qi], "S": S[(kind, system, cv)], "ents": []})
                j = len(jmap)
                jmap[(cid, j)] = key
                r["ents"].append({"j": j, "m": "knn", "k": PANEL_K, "res": list(inds[qi])})
                if X.dist_errors(plans[cid], unit, inds[qi], dists[qi]):
                    out[key].add("DistanceUnit")
        else:
            xyz, lon, lat = X.reported(g, kind, system)
            coords = np.stack([np.deg2rad(lat), np.deg2rad(lon)], axis=-1) if system == "spherical" else xyz
            sc = X.RAD2DEG if system == "spherical" else 1.0
            for qi, q in enumerate(PANEL_Q):
                qc = X.present(q, system, "latlon" if tree == "kd" else "lonlat", "rad")
                if system == "spherical" and tree == "ball":
                    qc = [qc[1], qc[0]]
                d = X.float_dists(coords, qc, metric) * sc
                out[key] |= X.float_knn_failed(d, PANEL_K, inds[qi], scale=sc)
                if any(0 <= a < len(d) and abs(d[a] - dv) > 1e-8 * sc for a, dv in zip(inds[qi], dists[qi])):
                    out[key].add("DistanceUnit")
    failed = X.judge(ctx, list(recs.values()))
    for cid, fs in failed.items():
        for j, clause in fs:
            out[jmap[(cid, j)]].add(clause)
    return out


def differs(want, got):
    names = ["kind", "system", "metric"]
    return "+".join(n for n, a, b in zip(names, want, got) if a != b) or "none"


def histories(ctx, rng):
    thorough = ctx.tier == "thorough"
    hs = []
    if thorough:
        hs += gen_histories(ctx, ["ball", "kd"], 2)  # every history of length <= 2, both trees, full alphabet
        hs += gen_histories(ctx, ["ball", "kd"], 3, shape="recentre_mid")  # request, construct_face_centers, request: full alphabet
        # every history of length 3 per tree is generated (with its predictions); a seeded sample of each is replayed
        b3 = gen_histories(ctx, ["ball"], 3)
        k3 = gen_histories(ctx, ["kd"], 3)
        ctx.note("length3_histories_generated(ball, kd)", [len(b3), len(k3)])
        hs += rng.sample(b3, min(len(b3), 9000)) + rng.sample(k3, min(len(k3), 7000))
        hs += gen_histories(ctx, ["ball", "kd"], 6, simulate="num=2000", depth=7, seed=ctx.seed + 11)[:2000]
    else:
        hs += gen_histories(ctx, ["ball", "kd"], 2)  # every history of length <= 2, both trees, full alphabet
        hs += gen_histories(ctx, ["ball", "kd"], 3, shape="recentre_mid")  # request, construct_face_centers, request: full alphabet
        hs += gen_histories(ctx, ["ball"], 3, recs="FALSE")
        k3 = gen_histories(ctx, ["kd"], 3, recs="FALSE")
        hs += rng.sample(k3, min(len(k3), 1200))
        hs += gen_histories(ctx, ["ball", "kd"], 5, simulate="num=300", depth=6, seed=ctx.seed + 11)[:400]
    # de-duplicate (simulation can repeat; the mixed length-2 run contains the single-tree ones)
    seen = set()
    uniq = []
    for h in hs:
        key = repr([s["act"] for s in h])
        if key not in seen:
            seen.add(key)
            uniq.append(h)
    items = list(enumerate(uniq))
    import time as _t

    _t0 = _t.time()
    res = pmap(replay_history, items)
    ctx.note("history_replay_wall_s", round(_t.time() - _t0, 1))
    behs = set()
    for r in res:
        for st in r["steps"]:
            for o in st.get("obs", []):
                if o is None:
                    continue
                behs.add((o["tree"], o["expect"][0], o["expect"][1], o["expect"][2], o["cv"], o["beh"]))
    verdict = behaviour_verdicts(ctx, behs)
    drift = 0
    alias_changes = 0
    n_steps = 0
    for (hid, hist), r in zip(items, res):
        acts = [s["act"] for s in hist]
        ctx.traces += 1
        ctx.count(1, repr(acts) if len(acts) >= 2 else None)
        promised = {}
        for si, st in enumerate(r["steps"]):
            n_steps += 1
            key = "hist:" + ";".join("/".join(str(x) for x in a) for a in acts[: si + 1])
            rp = {"grid": "cuboctahedron/r0/c0 via Grid.from_topology", "history": acts[: si + 1], "panel_queries": PANEL_Q, "k": PANEL_K}
            if "error" in st:
                ctx.violation(key, "Raises", detail=st["error"], replay=rp, sig={"site": "get_tree/history"})
                break
            if st.get("skipped"):
                drift += 1
                continue
            model = hist[si]
            if st["ret"] != model["ret"]:
                drift += 1
            if st["act"][0] in ("remap", "recentre"):
                continue
            ret = st["ret"] - 1
            for i, o in enumerate(st["obs"]):
                if o is None:
                    continue
                bkey = (o["tree"], o["expect"][0], o["expect"][1], o["expect"][2], o["cv"], o["beh"])
                bad_beh = verdict[bkey]
                if i == ret:
                    prev = promised.get(i)
                    sig = {"op": st["act"][0], "differs": differs(st["want"], o["attr"]), "prev_differs": differs(st["want"], prev) if prev else "fresh", "after_recentre": bool(st["cvnow"]), "reconstruct": bool(st["act"][0] == "get" and st["act"][5])}
                    if o["attr"] != st["want"]:
                        ctx.violation(key, "HandBackAttributes", detail={"requested": st["want"], "handed_back": o["attr"]}, replay=rp, sig=sig)
                    stale_allowed = st["cvnow"] == 1 and st["want"][0] == "face centers" and not (st["act"][0] == "get" and bool(st["act"][5]))
                    if bad_beh and stale_allowed:
                        drift += 1  # a cached tree of the old centres: predicted by the model, outside this clause
                    elif bad_beh:
                        ctx.violation(key, "HandBackBehaviour", detail={"requested": st["want"], "handed_back_attr": o["attr"], "failed": sorted(bad_beh), "panel": o["beh"][:2]}, replay=rp, sig=dict(sig, failed="+".join(sorted(bad_beh))))
                    if prev is not None and prev != list(st["want"]) and st["act"][0] == "get":
                        alias_changes += 1
                    promised[i] = list(st["want"])
                else:
                    if o["attr"] != o["expect"] or bad_beh:
                        drift += 1
                        if drift <= 3:
                            print("MODEL-DRIFT example:", key, "handle", i + 1, "observed", o["attr"], "predicted", o["expect"], sorted(bad_beh))
                    if i in promised and o["attr"] != promised[i]:
                        alias_changes += 1
                        promised[i] = list(o["attr"])
    if drift:
        print("MODEL-DRIFT: %d step observations differ from the prediction of TreeCache.tla under MechObserved (handles other than the one handed back)" % drift)
    ctx.note("history_steps_replayed", n_steps)
    ctx.note("histories_replayed", len(items))
    ctx.note("distinct_handle_behaviours_judged", len(behs))
    ctx.note("model_drift_observations", drift)
    ctx.note(
        "alias_observation",
        "%d times an earlier handle changed its element kind because a later request switched the cached wrapper "
        "(the handle IS the cached object); predicted by TreeCache.tla (StableHandle refuted under MechObserved). "
        "Not judged: the property's clause speaks of the tree at the moment it is handed back." % alias_changes,
    )
    if uniq:
        ctx.sample({"history": [s["act"] for s in uniq[len(uniq) // 2]], "expected_handle_and_answers": [[s["ret"], s["pred"]] for s in uniq[len(uniq) // 2]]})


# =============================================================================== 4. queries
def lattice_points(K):
    out = []
    for x in range(-K, K + 1):
        for y in range(-K, K + 1):
            for z in range(-K, K + 1):
                if (x, y, z) != (0, 0, 0) and math.gcd(math.gcd(abs(x), abs(y)), abs(z)) == 1:
                    out.append([x, y, z])
    return out


SPECIAL_Q = [[0, 0, 1], [0, 0, -1], [-1, 0, 0], [-2, 1, 0], [-2, -1, 0], [-1, 0, 1], [-2, -1, 2], [-2, 1, -2], [1, 0, 0], [1, 2, 2]]


def pick_queries(rng, n, K):
    pts = lattice_points(K)
    rest = [p for p in pts if p not in SPECIAL_Q]
    return SPECIAL_Q + rng.sample(rest, max(0, min(len(rest), n - len(SPECIAL_Q))))


def ks_for(n, thorough, full):
    if full:
        return list(range(1, n + 1))
    return sorted({1, 2, 3, max(1, n // 2), n} & set(range(1, n + 1)))


def classes_for(ncls, thorough):
    cs = {-1, 0, 1, ncls // 2, ncls - 2, ncls - 1}
    return sorted(c for c in cs if -1 <= c <= ncls - 1)


BEYOND = {"deg": 200.0, "rad": 200.0, "chord": 2.5}  # ball trees on spherical coordinates document r in degrees


def radius_cases(pl, runit, thorough, system, order, unit, coords, rep):
    """The radius cases of TLC's plan as (r, entry fields, label, coordinates to pass)."""
    ncls = max(pl["cls"]) + 1
    keep = set(classes_for(ncls, thorough))
    for rc in pl["radii"]:
        t = rc["t"]
        if t == "between":
            if rc["c"] not in keep:
                continue
            r = X.radius_for(pl, runit, rc["c"])
            if r is not None:
                yield r, {"c": rc["c"]}, "class %d" % rc["c"], coords
        elif t == "zero":
            yield 0.0, {"rk": "zero"}, "zero", coords
            if pl["zero"]:
                # the coincident element's own stored coordinates: bit-identical to what the tree holds
                e0 = pl["zero"][0]
                xyz, lon, lat = rep
                if system == "cartesian":
                    own = [float(x) for x in xyz[e0]]
                else:
                    pair = [lon[e0], lat[e0]] if order == "lonlat" else [lat[e0], lon[e0]]
                    own = [float(x) for x in (np.deg2rad(np.array(pair)) if unit == "rad" else pair)]
                yield 0.0, {"rk": "zero", "own": True}, "zero,own", own
        elif t == "tiny":
            yield 1e-9, {"rk": "tiny"}, "tiny", coords
        elif t == "beyond":
            yield BEYOND[runit], {"rk": "beyond"}, "beyond", coords


def call_query(tree, system, h, coords, k, unit, return_distance=True):
    kw = {"k": k, "return_distance": return_distance}
    if system == "spherical":
        kw["in_radians"] = unit == "rad"
    return h.query(coords, **kw)


def call_radius(tree, system, h, coords, r, unit, **kw):
    if system == "spherical":
        kw["in_radians"] = unit == "rad"
    return h.query_radius(coords, r=r, **kw)


def norm_answer(a):
    """An API answer as nested plain lists (indices, distances, counts; object arrays of rows)."""
    if isinstance(a, tuple):
        return [norm_answer(x) for x in a]
    if isinstance(a, list):
        return [norm_answer(x) for x in a]
    a = np.asarray(a)
    if a.dtype == object:
        return [norm_answer(x) for x in a]
    return a.tolist()


def run_purity(h, tree, system, unit, rows, pur, k2, r, n):
    """Call every query entry point with ONE caller-owned container, 1 + repeats times.
    Returns (first answers {op: answer}, failures [(clause, op, detail)])."""
    single = not pur["batched"]
    ops = {
        "query k=1": lambda c: call_query(tree, system, h, c, 1, unit),
        "query k>1": lambda c: call_query(tree, system, h, c, k2, unit),
        "query no distance": lambda c: call_query(tree, system, h, c, k2, unit, return_distance=False),
        "radius": lambda c: call_radius(tree, system, h, c, r, unit),
        "radius with distance": lambda c: call_radius(tree, system, h, c, r, unit, return_distance=True),
        "radius count": lambda c: call_radius(tree, system, h, c, r, unit, count_only=True),
    }
    first, fails = {}, []
    cont, keep = X.make_container(pur["container"], rows, single)
    for op in pur["ops"]:
        fp0 = X.fingerprint(cont, keep)
        answers = []
        try:
            for _ in range(1 + pur["repeats"]):
                answers.append(norm_answer(ops[op](cont)))
        except Exception as e:  # noqa
            fails.append(("Raises", op, "%s: %s" % (type(e).__name__, str(e)[:160])))
        if answers:
            first[op] = answers[0]
            if any(a != answers[0] for a in answers[1:]):
                fails.append(("Repeatable", op, {"answers": [str(a)[:120] for a in answers[:3]]}))
        if X.fingerprint(cont, keep) != fp0:
            fails.append(("ArgsKept", op, {"container_after": str(cont)[:160]}))
            cont, keep = X.make_container(pur["container"], rows, single)  # a pristine one for the next entry point
    return first, fails


def radius_sig(ent, cfg, pl):
    """Signature fields of a failed radius answer: the radius kind and, for haversine radii beyond half a
    turn, whether the answer is exactly what a reduced distance sin^2(r/2) that decreases again past
    180 degrees would give (elements nearer than 360 degrees - r)."""
    if ent["m"] not in ("rad", "srad", "cnt"):
        return {}
    out = {"rk": ent.get("rk", "between")}
    if out["rk"] == "beyond" and cfg == "ball/spherical/haversine":
        lim = 2 * math.pi - math.radians(BEYOND["deg"])
        ang = [X.angle_of(d) for d in pl["descr"]]
        if not any(abs(a - lim) < 1e-6 for a in ang):
            inside = sorted(e for e, a in enumerate(ang) if a < lim)
            out["wrap_explains"] = (ent["n"] == len(inside)) if ent["m"] == "cnt" else (sorted(ent["res"]) == inside)
    return out


def run_group(grp):
    """One (grid, kind): run every configuration, return recorded answers.

    Returns {"ents": {case_id: [entry]}, "tags": {(case_id, j): tag}, "num": [numeric/float-oracle failures],
             "errors": [...], "float_entries": n}"""
    entry, variant, kind = grp["entry"], grp["variant"], grp["kind"]
    thorough = grp["thorough"]
    qs = grp["qs"]
    ents, tags, num, errors = {}, {}, [], []
    nfloat = 0
    counter = [0]

    def add(cid, tag, e):
        j = counter[0]
        counter[0] += 1
        e["j"] = j
        ents.setdefault(cid, []).append(e)
        tags["%s#%d" % (cid, j)] = tag

    for ci, (tree, system, metric) in enumerate(grp["cfgs"]):
        cfgname = "%s/%s/%s" % (tree, system, metric)
        try:
            g = X.build_grid(entry, variant)
            fn = g.get_ball_tree if tree == "ball" else g.get_kd_tree
            h = fn(coordinates=kind, coordinate_system=system, distance_metric=metric)
            n = int({"nodes": g.n_node, "face centers": g.n_face, "edge centers": g.n_edge}[kind])
        except Exception as e:  # noqa
            errors.append({"cfg": cfgname, "call": "get_tree", "error": "%s: %s" % (type(e).__name__, str(e)[:160])})
            continue
        exact = is_exact(tree, system, metric)
        sg = grp["sysgroup"].get(system)
        if exact and sg is None:
            continue  # elements not on the lattice in this system: no exact oracle
        order = "lonlat" if tree == "ball" else "latlon"
        units = ["deg", "rad"] if system == "spherical" else ["xyz"]
        full_k = thorough and ci == 0
        ks = ks_for(n, thorough, full_k)
        rep = X.reported(g, kind, system)
        if not exact:
            xyz, lon, lat = rep
            built = np.stack([np.deg2rad(lat), np.deg2rad(lon)], axis=-1) if system == "spherical" else xyz
        for unit in units:
            dunit = ("deg" if unit == "deg" else "rad") if system == "spherical" else "chord"
            runit = "deg" if (system == "spherical" and tree == "ball") else dunit
            sc = X.unit_scale(dunit)
            pres = [X.present(q, system, order, unit) for q in qs]
            for qi, q in enumerate(qs):
                cid = "%s|%s|%s|%s|%d" % (grp["gid"], variant, kind, sg, qi) if exact else None
                pl = grp["plans"].get(cid) if exact else None
                variants = [("", pres[qi])]
                if system == "spherical" and X.has_alt(q):
                    variants.append(("alt", X.present(q, system, order, unit, alt=True)))
                for vname, coords in variants:
                    base = "%s|%s|%s|q=%s" % (cfgname, unit, vname or "single", q)
                    if not exact:
                        qc = coords if unit != "deg" else [math.radians(coords[0]), math.radians(coords[1])]
                        fd = X.float_dists(built, qc, metric)
                    # ---- k nearest
                    for k in ks if not vname else ks[:2]:
                        try:
                            d, ind = call_query(tree, system, h, coords, k, unit)
                            ind, d = X.flat_int(ind), X.flat_float(d)
                        except Exception as e:  # noqa
                            errors.append({"cfg": cfgname, "call": "query k=%d %s" % (k, base), "error": "%s: %s" % (type(e).__name__, str(e)[:160])})
                            continue
                        if exact:
                            add(cid, base + "|knn k=%d" % k, {"m": "knn", "k": k, "res": ind})
                            bad = X.dist_errors(pl, dunit, ind, d) if len(d) == len(ind) else [("len", len(d), len(ind))]
                            if bad:
                                num.append({"clause": "DistanceUnit", "tag": base + "|knn k=%d" % k, "cfg": cfgname, "unit": unit, "mode": "knn", "detail": bad[:3]})
                        else:
                            nfloat += 1
                            f = X.float_knn_failed(fd, k, ind)
                            if len(d) != len(ind) or any(0 <= a < len(fd) and abs(fd[a] * sc - dv) > 1e-8 * sc for a, dv in zip(ind, d)):
                                f.add("DistanceUnit")
                            for cl in f:
                                num.append({"clause": cl, "tag": base + "|knn k=%d" % k, "cfg": cfgname, "unit": unit, "mode": "knn", "detail": {"res": ind, "d": d[:4]}})
                    if not vname:
                        try:
                            k2 = min(2, n)
                            ind = X.flat_int(call_query(tree, system, h, coords, k2, unit, return_distance=False))
                            if exact:
                                add(cid, base + "|knn-nodist k=%d" % k2, {"m": "knn", "k": k2, "res": ind})
                            else:
                                nfloat += 1
                                for cl in X.float_knn_failed(fd, k2, ind):
                                    num.append({"clause": cl, "tag": base + "|knn-nodist", "cfg": cfgname, "unit": unit, "mode": "knn", "detail": {"res": ind}})
                        except Exception as e:  # noqa
                            errors.append({"cfg": cfgname, "call": "query nodist " + base, "error": "%s: %s" % (type(e).__name__, str(e)[:160])})
                    if vname:
                        continue
                    # ---- radius: the cases TLC planned (boundary radii included)
                    if exact:
                        for r, extra, label, rcoords in radius_cases(pl, runit, thorough, system, order, unit, coords, rep):
                            rtag = base + "|r=%.6g(%s)" % (r, label)
                            try:
                                ind = X.flat_int(call_radius(tree, system, h, rcoords, r, unit))
                                add(cid, rtag + "|rad", dict(extra, m="rad", res=ind))
                                d, ind2 = call_radius(tree, system, h, rcoords, r, unit, return_distance=True, sort_results=True)
                                ind2, d = X.flat_int(ind2), X.flat_float(d)
                                add(cid, rtag + "|srad", dict(extra, m="srad", res=ind2))
                                bad = X.dist_errors(pl, dunit, ind2, d) if len(d) == len(ind2) else [("len", len(d), len(ind2))]
                                if bad:
                                    num.append({"clause": "DistanceUnit", "tag": rtag + "|srad", "cfg": cfgname, "unit": unit, "mode": "radius", "detail": bad[:3]})
                                cnt = X.flat_int(call_radius(tree, system, h, rcoords, r, unit, count_only=True))
                                add(cid, rtag + "|cnt", dict(extra, m="cnt", n=cnt[0] if len(cnt) == 1 else -1))
                            except Exception as e:  # noqa
                                errors.append({"cfg": cfgname, "call": "query_radius " + rtag, "error": "%s: %s" % (type(e).__name__, str(e)[:160])})
                    else:
                        srt = np.sort(fd)
                        gaps = [i for i in range(len(srt) - 1) if srt[i + 1] - srt[i] > 1e-6]
                        frad = [(0.0, "zero"), (1e-7, "tiny")] + [((srt[gi] + srt[gi + 1]) / 2.0, "between") for gi in sorted(set(gaps[:2] + gaps[len(gaps) // 2 : len(gaps) // 2 + 1]))] + [(float(srt[-1]) + 1.0, "beyond")]
                        for r_rad, rk in frad:
                            # the radius in the unit in which this mode reports distances
                            r = r_rad * sc
                            rtag = base + "|r=%.6g(%s)" % (r, rk)
                            try:
                                d, ind = call_radius(tree, system, h, coords, r, unit, return_distance=True, sort_results=True)
                                ind, d = X.flat_int(ind), X.flat_float(d)
                                nfloat += 1
                                f = X.float_radius_failed(fd, r_rad, ind)
                                cnt = X.flat_int(call_radius(tree, system, h, coords, r, unit, count_only=True))
                                plain = X.flat_int(call_radius(tree, system, h, coords, r, unit))
                                if cnt != [len(ind)] or sorted(plain) != sorted(ind):
                                    num.append({"clause": "RadiusCount", "tag": rtag, "cfg": cfgname, "unit": unit, "mode": "radius", "rk": rk, "detail": {"count_only": cnt, "with_distances": len(ind), "plain": len(plain)}})
                                if f:
                                    as_rad = not X.float_radius_failed(fd, r, ind)
                                    over = [x for x in d if x > r + 1e-9 * sc]
                                    num.append({"clause": "RadiusUnit" if (sc != 1.0) else sorted(f)[0], "tag": rtag, "cfg": cfgname, "unit": unit, "mode": "radius", "rk": rk, "answer_is_r_in_radians": bool(as_rad), "detail": {"r": r, "returned_distances_above_r": over[:3], "n_returned": len(ind), "n_expected": int(np.sum(fd <= r_rad)), "failed": sorted(f)}})
                                elif len(d) != len(ind) or any(abs(fd[a] * sc - dv) > 1e-8 * sc for a, dv in zip(ind, d)):
                                    num.append({"clause": "DistanceUnit", "tag": rtag, "cfg": cfgname, "unit": unit, "mode": "radius", "detail": {"d": d[:4]}})
                            except Exception as e:  # noqa
                                errors.append({"cfg": cfgname, "call": "query_radius " + rtag, "error": "%s: %s" % (type(e).__name__, str(e)[:160])})
            # ---- argument purity and repeatability (container kind and repeat count from TLC's plan)
            for qi, q in enumerate(qs):
                pur = grp["purity"].get(qi)
                if pur is None:
                    continue
                cid = "%s|%s|%s|%s|%d" % (grp["gid"], variant, kind, sg, qi) if exact else None
                pl = grp["plans"].get(cid) if exact else None
                k2 = min(3, n)
                rows = [pres[qi], pres[(qi + 1) % len(qs)]]
                if exact:
                    ncls = max(pl["cls"]) + 1
                    rc = min(1, ncls - 2) if ncls >= 2 else -1
                    rr = X.radius_for(pl, runit, rc)
                    if rr is None:
                        rc, rr = 0, X.radius_for(pl, runit, 0)
                    if rr is None:
                        continue
                else:
                    qc = pres[qi] if unit != "deg" else [math.radians(pres[qi][0]), math.radians(pres[qi][1])]
                    rr = float(np.median(X.float_dists(built, qc, metric))) * sc + 1e-3 * sc
                ptag = "%s|%s|purity(%s%s x%d)|q=%s" % (cfgname, unit, pur["container"], ",batched" if pur["batched"] else "", 1 + pur["repeats"], q)
                first, fails = run_purity(h, tree, system, unit, rows, pur, k2, rr, n)
                for clause, op, detail in fails:
                    num.append({"clause": clause, "tag": ptag + "|" + op, "cfg": cfgname, "unit": unit, "mode": "purity", "container": pur["container"], "op": op, "detail": detail})
                if not exact:
                    nfloat += len(first)
                    continue
                row0 = (lambda a: a[0]) if pur["batched"] else (lambda a: a)
                try:
                    if "query k=1" in first:
                        d, ind = first["query k=1"]
                        add(cid, ptag + "|knn k=1", {"m": "knn", "k": 1, "res": X.flat_int(row0(ind))})
                    if "query k>1" in first:
                        d, ind = first["query k>1"]
                        ind0, d0 = X.flat_int(row0(ind)), X.flat_float(row0(d))
                        add(cid, ptag + "|knn k=%d" % k2, {"m": "knn", "k": k2, "res": ind0})
                        if pur["container"] != "f32" and X.dist_errors(pl, dunit, ind0, d0):
                            num.append({"clause": "DistanceUnit", "tag": ptag + "|knn", "cfg": cfgname, "unit": unit, "mode": "purity", "container": pur["container"], "op": "query k>1", "detail": X.dist_errors(pl, dunit, ind0, d0)[:3]})
                    if "query no distance" in first:
                        add(cid, ptag + "|knn-nodist k=%d" % k2, {"m": "knn", "k": k2, "res": X.flat_int(row0(first["query no distance"]))})
                    if "radius" in first:
                        add(cid, ptag + "|r=%.6g(class %d)|rad" % (rr, rc), {"m": "rad", "c": rc, "res": X.flat_int(row0(first["radius"]))})
                    if "radius with distance" in first:
                        d, ind = first["radius with distance"]
                        add(cid, ptag + "|r=%.6g(class %d)|rad+d" % (rr, rc), {"m": "rad", "c": rc, "res": X.flat_int(row0(ind))})
                    if "radius count" in first:
                        add(cid, ptag + "|r=%.6g(class %d)|cnt" % (rr, rc), {"m": "cnt", "c": rc, "n": X.flat_int(first["radius count"])[0]})
                except Exception as e:  # noqa
                    num.append({"clause": "AnswerShape", "tag": ptag, "cfg": cfgname, "unit": unit, "mode": "purity", "container": pur["container"], "op": "-", "detail": "%s: %s" % (type(e).__name__, str(e)[:160])})
            # ---- batched
            for k in sorted({1, min(3, n)}):
                try:
                    d, ind = call_query(tree, system, h, pres, k, unit)
                    ind = np.asarray(ind).reshape(len(qs), -1)
                    d = np.asarray(d, dtype=float).reshape(len(qs), -1)
                except Exception as e:  # noqa
                    errors.append({"cfg": cfgname, "call": "query batched k=%d %s" % (k, unit), "error": "%s: %s" % (type(e).__name__, str(e)[:160])})
                    continue
                for qi, q in enumerate(qs):
                    tag = "%s|%s|batched|q=%s|knn k=%d" % (cfgname, unit, q, k)
                    row, drow = [int(x) for x in ind[qi]], [float(x) for x in d[qi]]
                    if exact:
                        cid = "%s|%s|%s|%s|%d" % (grp["gid"], variant, kind, sg, qi)
                        add(cid, tag, {"m": "knn", "k": k, "res": row})
                        bad = X.dist_errors(grp["plans"][cid], dunit, row, drow)
                        if bad:
                            num.append({"clause": "DistanceUnit", "tag": tag, "cfg": cfgname, "unit": unit, "mode": "knn", "detail": bad[:3]})
                    else:
                        nfloat += 1
                        qc = pres[qi] if unit != "deg" else [math.radians(pres[qi][0]), math.radians(pres[qi][1])]
                        fd = X.float_dists(built, qc, metric)
                        for cl in X.float_knn_failed(fd, k, row):
                            num.append({"clause": cl, "tag": tag, "cfg": cfgname, "unit": unit, "mode": "knn", "detail": {"res": row}})
            if exact and len(qs) > 1:
                cid0 = "%s|%s|%s|%s|%d" % (grp["gid"], variant, kind, sg, 0)
                r = X.radius_for(grp["plans"][cid0], runit, min(1, max(grp["plans"][cid0]["cls"])))
                if r is None:
                    r = X.radius_for(grp["plans"][cid0], runit, 0)
                try:
                    res = call_radius(tree, system, h, pres, r, unit) if r is not None else []
                    for qi, q in enumerate(qs if r is not None else []):
                        cid = "%s|%s|%s|%s|%d" % (grp["gid"], variant, kind, sg, qi)
                        c = X.class_of_radius(grp["plans"][cid], runit, r)
                        if c is not None:
                            add(cid, "%s|%s|batched|q=%s|r=%.6g(class %d)|rad" % (cfgname, unit, q, r, c), {"m": "rad", "c": c, "res": X.flat_int(res[qi])})
                    res0 = call_radius(tree, system, h, pres, 0.0, unit)
                    cnt0 = X.flat_int(call_radius(tree, system, h, pres, 0.0, unit, count_only=True))
                    for qi, q in enumerate(qs):
                        cid = "%s|%s|%s|%s|%d" % (grp["gid"], variant, kind, sg, qi)
                        add(cid, "%s|%s|batched|q=%s|r=0(zero)|rad" % (cfgname, unit, q), {"m": "rad", "rk": "zero", "res": X.flat_int(res0[qi])})
                        add(cid, "%s|%s|batched|q=%s|r=0(zero)|cnt" % (cfgname, unit, q), {"m": "cnt", "rk": "zero", "n": cnt0[qi] if len(cnt0) == len(qs) else -1})
                except Exception as e:  # noqa
                    errors.append({"cfg": cfgname, "call": "query_radius batched %s" % unit, "error": "%s: %s" % (type(e).__name__, str(e)[:160])})
    return {"gid": grp["gid"], "variant": variant, "kind": kind, "ents": ents, "tags": tags, "num": num, "errors": errors, "float_entries": nfloat}


def grid_plan(item):
    """Phase A: build the grid, project each element kind in each system to lattice directions."""
    entry, variant = item
    out = {"gid": catalog.eid(entry), "variant": variant, "S": {}}
    try:
        g = X.build_grid(entry, variant)
        for kind in X.KINDS:
            for system in ("spherical", "cartesian"):
                out["S"]["%s|%s" % (kind, system)] = X.project(entry, g, kind, system, variant)
    except Exception as e:  # noqa
        out["error"] = "%s: %s" % (type(e).__name__, str(e)[:200])
    return out


def choose_grids(rng, thorough):
    names = sorted({e["name"] for e in catalog.entries()})
    out = []
    for nm in names:
        rots = [0] + rng.sample(range(1, 25), 2 if thorough else 1)
        for r in rots:
            cuts = [0] if r else [0, 3]
            if thorough and r:
                cuts = [rng.choice([0, 2, 3, 5])]
            for c in cuts:
                es = catalog.entries(name=nm, rot=r, cut=c)
                if es:
                    out.append((es[0], "topology"))
    # sources whose face centres come from the file
    for nm in ("cube", "cuboctahedron", "truncated_octahedron_split") if thorough else ("cuboctahedron",):
        es = catalog.entries(name=nm, rot=0, cut=0)
        if es and X.equal_norm(es[0]):
            out.append((es[0], "ugrid_centres"))
    # sources that supply face AND edge centres which are not the nodal centroids / midpoints
    # (keyword arguments of from_topology; in-memory UGRID dataset): the elements are the SUPPLIED points
    off = [("cube", 0, "topology_offcentres"), ("cuboctahedron", 0, "ugrid_offcentres")]
    if thorough:
        off += [("rhombic_dodecahedron", 0, "topology_offcentres"), ("truncated_octahedron_split", 5, "ugrid_offcentres"), ("octahedron", 11, "topology_offcentres"), ("truncated_cube", 0, "ugrid_offcentres")]
    for nm, rot, variant in off:
        out.append((catalog.entries(name=nm, rot=rot, cut=0)[0], variant))
    return out


def queries(ctx, rng):
    thorough = ctx.tier == "thorough"
    grids = choose_grids(rng, thorough)
    nq = 16 if thorough else 10
    K = 3 if thorough else 2
    ga = pmap(grid_plan, grids)
    groups = []
    cases = []
    skipped = 0
    for (entry, variant), a in zip(grids, ga):
        if "error" in a:
            ctx.violation("grid:%s:%s" % (a["gid"], variant), "Raises", detail=a["error"], replay={"grid": a["gid"], "variant": variant}, sig={"site": "grid construction / element coordinates"})
            continue
        for kind in X.KINDS:
            s_sph, s_car = a["S"]["%s|spherical" % kind], a["S"]["%s|cartesian" % kind]
            if s_sph is None and s_car is None:
                skipped += 1
                continue
            xyz_matches = True
            if s_sph == s_car:
                sysgroup = {"spherical": "both", "cartesian": "both"}
                Ss = {"both": s_sph}
            elif s_sph is not None:
                # the grid's (lon, lat) elements are lattice points but its x, y, z do not denote the same
                # points: a Cartesian tree must still find the great-circle nearest ELEMENT, so its answers
                # are judged against the positions the grid reports as (lon, lat); flagged in the signature
                xyz_matches = False
                sysgroup = {"spherical": "spherical", "cartesian": "spherical"}
                Ss = {"spherical": s_sph}
            else:
                sysgroup = {}
                Ss = {}
                if s_sph is not None:
                    sysgroup["spherical"], Ss["spherical"] = "spherical", s_sph
                if s_car is not None:
                    sysgroup["cartesian"], Ss["cartesian"] = "cartesian", s_car
            qs = pick_queries(rng, nq, K)
            # always query from some of the elements themselves (distance 0, identity)
            anyS = next(iter(Ss.values()))
            qs = qs + [s for s in rng.sample(anyS, min(3, len(anyS))) if s not in qs]
            gid = a["gid"]
            for sg, S in Ss.items():
                for qi, q in enumerate(qs):
                    cases.append({"id": "%s|%s|%s|%s|%d" % (gid, variant, kind, sg, qi), "q": q, "S": S})
            groups.append({"gid": gid, "entry": entry, "variant": variant, "kind": kind, "qs": qs, "sysgroup": sysgroup, "S": Ss, "thorough": thorough, "xyz_matches": xyz_matches, "cfgs": EXACT + (FLOAT_ALL if thorough else FLOAT_QUICK)})
    plans = X.plan(ctx, cases, workers=8)
    by_case = {c["id"]: c for c in cases}
    for gqp in groups:
        pre = "%s|%s|%s|" % (gqp["gid"], gqp["variant"], gqp["kind"])
        gqp["plans"] = {cid: p for cid, p in plans.items() if cid.startswith(pre)}
        gqp["purity"] = {}
        for cid, pp in gqp["plans"].items():
            qi = int(cid.rsplit("|", 1)[1])
            if qi % (1 if thorough else 2) == 0:  # quick: every second query point
                gqp["purity"].setdefault(qi, pp["purity"])
    res = pmap(run_group, groups, chunk=1)
    recs = []
    tags = {}
    nfloat = 0
    for r in res:
        nfloat += r["float_entries"]
        for cid, es in r["ents"].items():
            c = by_case[cid]
            recs.append({"id": cid, "q": c["q"], "S": c["S"], "ents": es})
        tags.update(r["tags"])
    failed = X.judge(ctx, recs, workers=8)
    for r in recs:
        lt = plans[r["id"]]["lt"]
        ties = len(lt) - len(set(lt))
        for e in r["ents"]:
            ctx.count(1, (r["id"], tags["%s#%d" % (r["id"], e["j"])]) if (e.get("k", 2) > 1 or e["m"] != "knn" or ties) else None)
    ctx.evaluations += nfloat
    ctx.traces += nfloat
    ent_index = {(rr["id"], e["j"]): e for rr in recs for e in rr["ents"]}
    xyz_of = {"%s|%s|%s" % (gq["gid"], gq["variant"], gq["kind"]): gq["xyz_matches"] for gq in groups}
    for cid, fs in sorted(failed.items()):
        c = by_case[cid]
        for j, clause in sorted(fs):
            tag = tags["%s#%d" % (cid, j)]
            ent = ent_index[(cid, j)]
            cfg, unit, mode = tag.split("|")[0], tag.split("|")[1], tag.split("|")[2]
            ctx.violation("%s::%s" % (cid, tag), clause, detail={"answer": ent, "lt": plans[cid]["lt"]}, replay={"grid": cid.split("|")[0], "variant": cid.split("|")[1], "kind": cid.split("|")[2], "q": c["q"], "S": c["S"], "call": tag, "answer": ent}, sig=dict({"cfg": cfg, "unit": unit, "presentation": mode, "mode": ent["m"], "xyz_matches_lonlat": xyz_of["|".join(cid.split("|")[:3])]}, **radius_sig(ent, cfg, plans[cid])))
    for r in res:
        for nf in r["num"]:
            sig = {"cfg": nf["cfg"], "unit": nf["unit"], "mode": nf["mode"], "rk": nf.get("rk", "-"), "container": nf.get("container", "-"), "op": nf.get("op", "-"), "xyz_matches_lonlat": xyz_of["%s|%s|%s" % (r["gid"], r["variant"], r["kind"])]}
            if "answer_is_r_in_radians" in nf:
                sig["answer_is_r_in_radians"] = nf["answer_is_r_in_radians"]
            ctx.violation("%s|%s|%s::%s" % (r["gid"], r["variant"], r["kind"], nf["tag"]), nf["clause"], detail=nf["detail"], replay={"grid": r["gid"], "variant": r["variant"], "kind": r["kind"], "call": nf["tag"]}, sig=sig)
        for er in r["errors"]:
            ctx.violation("%s|%s|%s::%s" % (r["gid"], r["variant"], r["kind"], er["call"]), "Raises", detail=er["error"], replay={"grid": r["gid"], "variant": r["variant"], "kind": r["kind"], "call": er["call"]}, sig={"cfg": er["cfg"], "site": er["call"].split(" ")[0]})
    ctx.note("query_grids", len(grids))
    ctx.note("query_groups(grid x kind)", len(groups))
    ctx.note("exact_cases(grid x kind x query point)", len(cases))
    ctx.note("answers_judged_by_tlc", sum(len(r["ents"]) for r in recs))
    ctx.note("answers_judged_by_float_oracle(planar/manhattan, tie margin 1e-9)", nfloat)
    ctx.note("kind_groups_without_lattice_positions_skipped", skipped)
    if recs:
        r0 = recs[len(recs) // 3]
        ctx.sample({"case": r0["id"], "q": r0["q"], "S": r0["S"][:6], "exact_ranks": plans[r0["id"]]["lt"][:6], "answers": [dict(e, call=tags["%s#%d" % (r0["id"], e["j"])]) for e in r0["ents"][:3]]})


# =============================================================================== 5. polar caps
CAP_CFGS = [("ball", "spherical", "haversine"), ("ball", "cartesian", "minkowski"), ("kd", "cartesian", "minkowski")]
CAP_MARGIN = 1e-9  # rad


def run_cap_group(grp):
    """Queries on a polar-cap mesh (elements 0.01 .. 1 degree from a pole, centres derived by the library)
    against a float brute force on independently computed exact directions (tie margin 1e-9 rad)."""
    entry, kind, qs = grp["entry"], grp["kind"], grp["qs"]
    fails, n_ans = [], 0
    nearest = {}
    try:
        g0 = X.build_grid(entry)
        ref = X.cap_reference(entry, g0, kind)
    except Exception as e:  # noqa
        return {"kind": kind, "pole": grp["pole"], "fails": [("Raises", "grid", "%s: %s" % (type(e).__name__, str(e)[:160]), {})], "n": 0}
    n = ref.shape[0]
    for tree, system, metric in CAP_CFGS:
        cfgname = "%s/%s/%s" % (tree, system, metric)
        try:
            g = X.build_grid(entry)
            h = (g.get_ball_tree if tree == "ball" else g.get_kd_tree)(coordinates=kind, coordinate_system=system, distance_metric=metric)
        except Exception as e:  # noqa
            fails.append(("Raises", cfgname, "%s: %s" % (type(e).__name__, str(e)[:160]), {"cfg": cfgname}))
            continue
        for unit in (["deg", "rad"] if system == "spherical" else ["xyz"]):
            for qi, q in enumerate(qs):
                ang = X.angles_to(ref, q)
                coords = X.present(q, system, "lonlat", unit)
                place = grp["qplace"][qi]
                sig = {"cfg": cfgname, "unit": unit, "class": "polar_cap", "place": place, "pole": grp["pole"]}
                tag = "%s|%s|q=%s" % (cfgname, unit, q)
                sc = (X.RAD2DEG if unit == "deg" else 1.0) if system == "spherical" else None
                try:
                    for k in (1, 3, min(9, n)):
                        d, ind = call_query(tree, system, h, coords, k, unit)
                        ind, d = X.flat_int(ind), X.flat_float(d)
                        n_ans += 1
                        for cl in X.float_knn_failed(ang, k, ind, scale=CAP_MARGIN / X.TIE):
                            fails.append((cl, tag + "|knn k=%d" % k, {"res": ind, "expected_nearest": int(np.argmin(ang)), "angles_deg": [round(float(np.degrees(ang[e])), 6) for e in ind[:3] if 0 <= e < n]}, sig))
                        exp = [(ang[e] * sc) if sc else 2.0 * math.sin(ang[e] / 2.0) for e in ind if 0 <= e < n]
                        if len(exp) != len(d) or any(abs(a - b) > 1e-9 * (sc or 1.0) for a, b in zip(exp, d)):
                            fails.append(("DistanceUnit", tag + "|knn k=%d" % k, {"d": d[:3], "expected": exp[:3]}, sig))
                        if k == 1 and ind:
                            nearest.setdefault((qi, unit if unit != "rad" else "deg"), {})[system] = ind[0]
                    srt = np.sort(ang)
                    gaps = [i for i in range(min(len(srt) - 1, 12)) if srt[i + 1] - srt[i] > 1e-7]
                    for gi in gaps[:3]:
                        r_rad = (srt[gi] + srt[gi + 1]) / 2.0
                        r = (math.degrees(r_rad)) if system == "spherical" else 2.0 * math.sin(r_rad / 2.0)
                        ind = X.flat_int(call_radius(tree, system, h, coords, r, unit))
                        n_ans += 1
                        for cl in X.float_radius_failed(ang, r_rad, ind, scale=CAP_MARGIN / X.TIE):
                            fails.append((cl, tag + "|r=%.6g" % r, {"res": sorted(ind), "expected": sorted(int(e) for e in np.nonzero(ang < r_rad)[0])}, sig))
                except Exception as e:  # noqa
                    fails.append(("Raises", tag, "%s: %s" % (type(e).__name__, str(e)[:160]), sig))
    # a spherical and a Cartesian tree must agree on the nearest element (exact ties aside)
    for (qi, _u), byt in nearest.items():
        if len(byt) == 2 and byt["spherical"] != byt["cartesian"]:
            ang = X.angles_to(ref, qs[qi])
            a, b = byt["spherical"], byt["cartesian"]
            if 0 <= a < n and 0 <= b < n and abs(ang[a] - ang[b]) > CAP_MARGIN:
                fails.append(("SystemsAgree", "q=%s" % qs[qi], {"spherical_tree": a, "cartesian_tree": b, "angles_deg": [float(np.degrees(ang[a])), float(np.degrees(ang[b]))]}, {"class": "polar_cap", "place": grp["qplace"][qi], "pole": grp["pole"]}))
    return {"kind": kind, "pole": grp["pole"], "fails": fails, "n": n_ans}


def polar_caps(ctx, rng, cap):
    groups = []
    for pole in cap["poles"]:
        entry = X.cap_mesh(pole, cap["places"], cap["unit_inv"])
        qs = X.cap_queries(entry, cap["unit_inv"], pole, rng, per_patch=6 if ctx.tier == "thorough" else 3)
        per = (len(qs) - 1) // len(cap["places"])
        qplace = [0] + [cap["places"][i // per] for i in range(len(qs) - 1)]
        for kind in X.KINDS:
            groups.append({"entry": entry, "kind": kind, "qs": qs, "qplace": qplace, "pole": pole})
    res = pmap(run_cap_group, groups, chunk=1)
    total = 0
    for r in res:
        total += r["n"]
        for clause, tag, detail, sig in r["fails"]:
            ctx.violation("polar_cap_%s|%s::%s" % ("N" if r["pole"] > 0 else "S", r["kind"], tag), clause, detail=detail, replay={"mesh": "harness.x_c11.cap_mesh(pole=%d, places=%s, unit_inv=%d)" % (r["pole"], cap["places"], cap["unit_inv"]), "kind": r["kind"], "call": tag}, sig=dict(sig, kind=r["kind"]))
    ctx.count(total, None)
    ctx.evaluations += 0
    ctx.traces += total
    ctx.note("polar_cap_answers(float brute force on exact directions, 1e-9 rad tie margin)", total)
    ctx.note("polar_cap_plan(from TLC)", cap)


# =============================================================================== run
def run(ctx):
    rng = random.Random(ctx.seed)
    ctx.rule = (
        "Nearest.tla defines the exact distance preorder of lattice directions (chord order = great-circle order), tie groups and radius "
        "classes; NearestMC.tla model-checks its laws. TreeCache.tla is the state machine of one grid's tree caches; TLC proves HandBack for the "
        "mechanism transcribed from the code, refutes it for the pre-93ddb0c5 mechanism, and emits every request history (with handle identities "
        "and predicted answers) that is replayed step by step on a real grid: wrapper attributes and a query panel are compared with the REQUEST. "
        "Queries: catalogue grids x element kinds x tree configurations x lattice query points (poles, both sides of the antimeridian, coincident "
        "with elements, single/batched, degrees/radians) x k x radii between exact classes; TLC plans each case (ranks, classes, descriptors) and "
        "judges every recorded index answer; distances are compared with the evaluated descriptors (1e-10, exact antipodes 1e-6). Planar (lat, lon) "
        "k-d trees and Manhattan trees have no algebraic order on the lattice: those answers are judged by a float brute force on the grid's own "
        "reported coordinates with a 1e-9 tie margin. Non-trivial = answer with k > 1, a radius answer, or a case with exact ties; history with >= 2 requests."
    )
    cap = laws(ctx)
    tree_model(ctx)
    X.warm()
    polar_caps(ctx, rng, cap)
    histories(ctx, rng)
    queries(ctx, rng)
    ctx.assumptions += [
        "TLC's evaluator and the CommunityModules Json reader",
        "element positions are the grid's own reported coordinates, matched to lattice directions within 1e-9 (face/edge centres of equal-corner-length catalogue meshes are lattice directions; other meshes contribute their nodes only)",
        "planar (lat, lon) and Manhattan orders: float brute force with 1e-9 tie margin instead of an exact order",
        "scikit-learn is the thing under test, not an oracle",
        "radius unit: BallTree.query_radius documents r in degrees; cartesian trees take chord lengths; for spherical k-d trees r is read in the unit in which that call reports distances",
        "later requests changing an earlier handle (aliasing of the cached wrapper) are reported, not judged",
        "polar caps (elements 0.01 .. 1 degree from a pole, derived centres): directions need coordinates ~6000, beyond 32-bit exact comparison; judged by a float brute force on independently computed exact directions, 1e-9 rad tie margin; places and poles come from Nearest!CapPlan",
    ]

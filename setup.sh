#!/bin/sh
# Offline set-up: syntax-check every TLA+ module, byte-compile the harness. Files on disk only.
# Modules listed in tla/REQUIRED.txt belong to registered checks: a SANY failure there fails the
# set-up.  Other modules (work in progress) only produce a warning.
cd "$(dirname "$0")" || exit 2
rc=0
for f in tla/*.tla; do
  b=$(basename "$f" .tla)
  out=$(cd tla && java -DTLA-Library=/verif/tla -cp /opt/veriftools/tla/tla2tools.jar:/opt/veriftools/tla/CommunityModules-deps.jar tla2sany.SANY "$b.tla" 2>&1)
  if echo "$out" | grep -q -E "Parse Error|Semantic errors|Fatal errors|Could not"; then
    if grep -q -x "$b" tla/REQUIRED.txt 2>/dev/null; then
      echo "SANY FAILED: $f"; echo "$out" | tail -20; rc=1
    else
      echo "SANY warning (module not required by a registered check): $f"
    fi
  fi
done
/venv/bin/python -m compileall -q harness checks tools >/dev/null || rc=1
mkdir -p evidence replays .work
# the mesh catalogue is generated and proved well-formed by TLC; regenerate it if the modules changed
/venv/bin/python -c "import sys; sys.path.insert(0, '/verif'); from harness import catalog; d = catalog.load(); print('catalogue entries:', len(d['entries']))" || rc=1
echo "setup done rc=$rc"
exit $rc

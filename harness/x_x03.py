"""X03 driver: meshes emitted by TLC (Validate.tla) are built as real Grids, Grid.validate() and the
checks of uxarray/grid/validation.py are called in several orders, and what they answered is
recorded for JudgeValidate.tla.  Nothing here decides a verdict."""

from __future__ import annotations

import contextlib
import io
import math
import warnings

import numpy as np

from . import lattice
from . import ux as hux

RAW_R = 0.5

# call sequences ("histories"): checks, validate twice, validate after derived attributes were read
HISTORIES = {
    "checks_then_validate": ["conn", "dup", "dupidx", "area", "norm", "validate", "validate"],
    "validate_first": ["validate", "read:face_areas", "read:edge_node_connectivity", "read:node_x", "read:face_lon", "validate", "area", "dup", "conn", "norm", "norm"],
    "reads_first": ["read:node_x", "read:edge_lon", "read:face_x", "read:n_nodes_per_face", "norm", "validate", "dupidx", "normalize", "norm", "validate"],
}


def _lonlat(v, alt):
    lon, lat = lattice.lonlat_deg(v)
    if alt:
        if v[0] == 0 and v[1] == 0:
            lon = 90.0  # a pole stored with another longitude
        elif lon == 180.0:
            lon = -180.0  # the antimeridian stored as -180
        else:
            raise ValueError("alt = 1 on a node that has no alias")
    return lon + 0.0, lat + 0.0


def _unit(w):
    n = math.sqrt(sum(float(x) * float(x) for x in w))
    return [float(x) / n for x in w]


def build(mesh, route):
    import xarray as xr

    ux = hux.import_ux()
    INT_DTYPE, FILL = hux.consts()
    pos = [tuple(v) for v in mesh["pos"]]
    n = len(pos)
    ll = [_lonlat(v, a) for v, a in zip(pos, mesh["alt"])]
    lon = np.array([x[0] for x in ll])
    lat = np.array([x[1] for x in ll])
    faces = [list(f) for f in mesh["faces"]]
    conn = hux.pad_table(faces)
    U = [lattice.unit(v) for v in pos]
    ok = lambda k: 0 <= k < n
    kw = {}
    cart = mesh["cart"]
    scale = lambda t: RAW_R if t == "scaled" else 1.0
    if cart["node"] != "none":
        R = scale(cart["node"])
        for j, c in enumerate("xyz"):
            kw["node_" + c] = np.array([R * u[j] for u in U])
    if cart["edge"] != "none":
        R = scale(cart["edge"])
        pairs = sorted({(min(f[j], f[(j + 1) % len(f)]), max(f[j], f[(j + 1) % len(f)])) for f in faces for j in range(len(f)) if f[j] != f[(j + 1) % len(f)]})
        mids = [_unit([U[a][j] + U[b][j] for j in range(3)]) if ok(a) and ok(b) else [1.0, 0.0, 0.0] for a, b in pairs]
        kw["edge_node_connectivity"] = np.array(pairs, dtype=INT_DTYPE)
        for j, c in enumerate("xyz"):
            kw["edge_" + c] = np.array([R * m[j] for m in mids])
    if cart["face"] != "none":
        R = scale(cart["face"])
        cen = []
        for f in faces:
            good = [U[k] for k in f if ok(k)] or [[1.0, 0.0, 0.0]]
            s = [sum(u[j] for u in good) for j in range(3)]
            cen.append(_unit(s) if any(abs(x) > 1e-12 for x in s) else [1.0, 0.0, 0.0])
        for j, c in enumerate("xyz"):
            kw["face_" + c] = np.array([R * m[j] for m in cen])
    if route == "topology":
        return ux.Grid.from_topology(lon, lat, conn.copy(), fill_value=FILL, **kw)
    if route == "ugrid":
        ds = xr.Dataset()
        topo = {"cf_role": "mesh_topology", "topology_dimension": 2, "node_coordinates": "mesh_node_x mesh_node_y", "face_node_connectivity": "mesh_face_nodes"}
        ds["mesh_node_x"] = xr.DataArray(lon, dims=["nMesh_node"], attrs={"standard_name": "longitude", "units": "degrees_east"})
        ds["mesh_node_y"] = xr.DataArray(lat, dims=["nMesh_node"], attrs={"standard_name": "latitude", "units": "degrees_north"})
        dim = {"node": "nMesh_node", "edge": "n_edge", "face": "nMesh_face"}
        for k, v in kw.items():
            if k == "edge_node_connectivity":
                topo["edge_node_connectivity"] = "mesh_edge_nodes"
                ds["mesh_edge_nodes"] = xr.DataArray(v.astype(np.int32), dims=["n_edge", "two"], attrs={"cf_role": "edge_node_connectivity", "start_index": 0})
            else:
                ds[k] = xr.DataArray(v, dims=[dim[k.split("_")[0]]], attrs={"units": "m"})
        c32 = np.where(conn == FILL, -1, conn).astype(np.int32)
        ds["mesh_face_nodes"] = xr.DataArray(c32, dims=["nMesh_face", "nMaxMesh_face_nodes"], attrs={"cf_role": "face_node_connectivity", "_FillValue": np.int32(-1), "start_index": 0})
        ds["mesh"] = xr.DataArray(np.int32(-1), attrs=topo)
        return ux.open_grid(ds)
    raise ValueError(route)


def _fingerprint(g):
    out = {}
    for v in list(g._ds.variables):
        a = np.asarray(g._ds[v].values)
        out[v] = (str(a.dtype), a.shape, a.tobytes())
    return out


def _unchanged(g, fp):
    for v, (dt, sh, b) in fp.items():
        if v not in g._ds.variables:
            return False
        a = np.asarray(g._ds[v].values)
        if str(a.dtype) != dt or a.shape != sh or a.tobytes() != b:
            return False
    return True


def run_case(case):
    """case: id, mesh, route, history -> record for JudgeValidate.tla."""
    from uxarray.grid import validation as V

    rec = {"id": case["id"], "mesh": case["mesh"], "route": case["route"], "history": case["history"]}
    try:
        g = build(case["mesh"], case["route"])
    except Exception as e:  # a constructor that refuses the mesh: noted, never a verdict of X03
        rec["build_error"] = "%s: %s" % (type(e).__name__, str(e)[:200])
        rec["calls"] = []
        return rec
    fp = _fingerprint(g)
    checks = {"conn": V._check_connectivity, "dup": V._check_duplicate_nodes, "dupidx": V._check_duplicate_nodes_indices, "area": V._check_area, "norm": V._check_normalization}
    calls = []
    for op in HISTORIES[case["history"]]:
        c = {"op": op.split(":")[0], "warned": False}
        with warnings.catch_warnings(record=True) as w:
            warnings.simplefilter("always")
            try:
                if op in checks:
                    r = checks[op](g)
                    c["out"] = "true" if r is True or (isinstance(r, (bool, np.bool_)) and bool(r)) else "false" if r is False or isinstance(r, (bool, np.bool_)) else "error"
                elif op == "validate":
                    with contextlib.redirect_stdout(io.StringIO()):
                        r = g.validate()
                    c["out"] = "true" if r is True else "false"
                elif op == "normalize":
                    g.normalize_cartesian_coordinates()
                    c["out"] = "done"
                    # lengths change on purpose: what is compared from here on is the normalised grid
                    fp = {k: v for k, v in _fingerprint(g).items() if k in fp}
                else:
                    np.asarray(getattr(g, op.split(":")[1]).values)
                    c["out"] = "done"
            except RuntimeError as e:
                c["out"] = "runtime_error" if op == "validate" and "validation failed" in str(e) else ("other_error" if op == "validate" else "error")
                c["err"] = "%s: %s" % (type(e).__name__, str(e)[:120])
            except Exception as e:
                c["out"] = "other_error" if op == "validate" else "error"
                c["err"] = "%s: %s" % (type(e).__name__, str(e)[:120])
        c["warned"] = any(issubclass(x.category, RuntimeWarning) and x.filename.endswith("validation.py") for x in w)
        c["unchanged"] = _unchanged(g, fp)
        calls.append(c)
    rec["calls"] = calls
    return rec

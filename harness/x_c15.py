"""C15 replay driver: builds real grids from catalogue entries, performs the conversions,
projects GeoDataFrames / PolyCollections / LineCollections to the abstract vocabulary of
tla/PolyCases.tla (vertex = [node id | -1 seam point | -3 pole-line point | -2 unmatched, sign of x])
and to digests (history part).  No verdict is taken here except the numeric area clause."""

from __future__ import annotations

import hashlib
import math

import numpy as np

from . import lattice
from . import ux as hux

PE = ["exclude", "split", "ignore"]
ENGINES = {"sp": "spatialpandas", "gp": "geopandas", "-": None}
F32 = 2.0**-23
_PROJ = {}


def proj(name):
    import cartopy.crs as ccrs

    name = ALIASES.get(name, name)

    if not _PROJ:
        _PROJ["none"] = None
        _PROJ["pc180"] = ccrs.PlateCarree(central_longitude=180)
        _PROJ["rob"] = ccrs.Robinson()
        _PROJ["rob180"] = ccrs.Robinson(central_longitude=180)
        _PROJ["pc0"] = ccrs.PlateCarree()
    if name not in _PROJ and name.split(":")[0] in ("ortho", "nsper"):
        c = centre_of(name)
        lo, la = lattice.lonlat_deg(c)
        if name.startswith("ortho"):
            _PROJ[name] = ccrs.Orthographic(central_longitude=lo, central_latitude=la)
        else:
            # one radius above the surface: the visible cap has cos = 1/2 (PolyCases.NodeVis)
            _PROJ[name] = ccrs.NearsidePerspective(central_longitude=lo, central_latitude=la, satellite_height=6378137.0)
    return _PROJ[name]


# partial projections are named "<kind>:<x>,<y>,<z>" (integer direction of the centre, y = 0); "ortho" alone is
# the one used by the history part
ALIASES = {"ortho": "ortho:3,0,1"}


def centre_of(pname):
    pname = ALIASES.get(pname, pname)
    return [int(t) for t in pname.split(":")[1].split(",")]


def is_partial(pname):
    return ALIASES.get(pname, pname).split(":")[0] in ("ortho", "nsper")


def cl_of(pname):
    pname = ALIASES.get(pname, pname)
    if is_partial(pname):
        c = centre_of(pname)
        if c[1] != 0:
            raise ValueError("centre must lie on the meridian plane y = 0")
        return 180 if c[0] < 0 else 0
    return 180 if pname in ("pc180", "rob180") else 0


def seam_k(pname):
    return 2 if cl_of(pname) == 180 else 0


# ----------------------------------------------------------------------------- grids
def node_lonlat(entry, sv):
    """Exact corner longitudes/latitudes (degrees); nodes exactly on the antimeridian are
    reported as +180 (sv=1), -180 (sv=-1) or alternating by node id (sv=2)."""
    lon, lat = [], []
    for n, v in enumerate(entry["nodes"]):
        lo, la = lattice.lonlat_deg(v)
        if v[1] == 0 and v[0] < 0:
            s = sv if sv != 2 else (1 if (n + 1) % 2 == 0 else -1)
            lo = 180.0 * s
        lon.append(lo)
        lat.append(la)
    return np.array(lon), np.array(lat)


def make_grid(entry, sv=1):
    ux = hux.import_ux()
    _, FILL = hux.consts()
    lon, lat = node_lonlat(entry, sv)
    g = ux.Grid.from_topology(lon, lat, hux.pad_table(entry["faces"]), fill_value=FILL)
    return g


def tracer(g, name="ta", base=1000):
    ux = hux.import_ux()
    return ux.UxDataArray(np.arange(g.n_face, dtype=float) + base, dims=["n_face"], uxgrid=g, name=name)


def recorded_lonlat(g, entry, sv):
    """node_lon / node_lat as the grid reports them; must be the exact corners (else machinery)."""
    lon = np.asarray(g.node_lon.values, dtype=float)
    lat = np.asarray(g.node_lat.values, dtype=float)
    elon, elat = node_lonlat(entry, sv)
    d = np.abs(((lon - elon) + 180.0) % 360.0 - 180.0)
    if lon.shape != elon.shape or (d > 1e-9).any() or (np.abs(lat - elat) > 1e-9).any():
        raise RuntimeError("grid does not report the corners it was given")
    return lon, lat


class Targets:
    """Expected coordinates of every node in each coordinate system an export may use, computed
    by the harness with cartopy from the exact corners (cartopy is trusted as a function)."""

    def __init__(self, entry, lon, lat):
        import cartopy.crs as ccrs

        self.entry = entry
        self.lon, self.lat = lon, lat
        src = ccrs.PlateCarree()
        self.tab = {}
        self.tab["ll0"] = np.stack([lon, lat], axis=1)
        p = proj("pc180").transform_points(src, lon, lat)
        self.tab["ll180"] = p[:, :2].copy()
        p = proj("rob").transform_points(src, lon, lat)
        self.tab["rob"] = p[:, :2].copy()
        p = proj("rob180").transform_points(src, lon, lat)
        self.tab["rob180"] = p[:, :2].copy()
        self.sgn = {0: self._sgn(entry, 0, self.tab["ll0"][:, 0]), 2: self._sgn(entry, 2, self.tab["ll180"][:, 0])}

    @staticmethod
    def _sgn(entry, k, x):
        out = []
        for n, v in enumerate(entry["nodes"]):
            vx, vy = (v[0], v[1]) if k == 0 else (-v[0], -v[1])
            if vy == 0 and vx < 0:
                out.append(1 if x[n] > 0 else -1)
            else:
                out.append(0)
        return out

    def table(self, system):
        if system not in self.tab:
            import cartopy.crs as ccrs

            p = proj(system).transform_points(ccrs.PlateCarree(), self.lon, self.lat)
            self.tab[system] = p[:, :2].copy()
        return self.tab[system]

    def nodenan(self, system):
        t = self.table(system)
        return [bool(not (math.isfinite(a) and math.isfinite(b))) for a, b in t]

    def system(self, pname, projected):
        """name of the coordinate table for projection `pname`, explicitly projected or only seam-shifted"""
        pname = ALIASES.get(pname, pname)
        if projected and (pname in ("rob", "rob180") or is_partial(pname)):
            return pname
        return "ll180" if cl_of(pname) == 180 else "ll0"

    def match(self, xy, system):
        """coordinates (P, 2) -> list of [n, s]"""
        t = self.table(system)
        xy = np.asarray(xy, dtype=float).reshape(-1, 2)
        out = []
        lonlat = system.startswith("ll")
        for x, y in xy:
            if not (math.isfinite(x) and math.isfinite(y)):
                out.append([-2, 0])
                continue
            tx = 4 * F32 * max(abs(x), 1.0)
            ty = 4 * F32 * max(abs(y), 1.0)
            s = 0 if abs(x) <= tx else (1 if x > 0 else -1)
            dy = np.abs(t[:, 1] - y)
            dx = np.abs(t[:, 0] - x)
            if lonlat:
                dx = np.minimum(dx, np.abs(dx - 360.0))
            hit = np.nonzero((dx <= tx) & (dy <= ty))[0]
            if len(hit) == 1:
                out.append([int(hit[0]), s])
            elif len(hit) > 1:
                out.append([-2, s])
            elif lonlat and abs(abs(x) - 180.0) <= tx and abs(abs(y) - 90.0) <= ty:
                out.append([-3, s])
            elif lonlat and abs(abs(x) - 180.0) <= tx and abs(y) < 90.0:
                out.append([-1, s])
            else:
                out.append([-2, s])
        return out


# ----------------------------------------------------------------------------- conversions
def call(g, das, ev):
    """Perform one conversion event on grid g.  ev: dict(act, pe, proj, eng, project, cache, override, var, ri)
    Returns (object, owner_table | None).  Exceptions propagate."""
    act = ev["act"]
    p = proj(ev["proj"])
    if act in ("ToGdf", "DataToGdf"):
        kw = dict(periodic_elements=ev["pe"], projection=p, cache=ev["cache"], override=ev["override"], engine=ENGINES[ev["eng"]])
        if not ev.get("project", True):
            kw["project"] = False
        tgt = g if act == "ToGdf" else das[ev["var"]]
        if act == "ToGdf" and "xnan" in ev:
            # the NaN handling arguments of Grid.to_geodataframe: returns (frame, non_nan_polygon_indices)
            gdf, nn = tgt.to_geodataframe(exclude_nan_polygons=ev["xnan"], return_non_nan_polygon_indices=True, **kw)
            return gdf, ("nn", None if nn is None else [int(x) for x in np.asarray(nn).ravel()])
        return tgt.to_geodataframe(**kw), None
    if act in ("ToPoly", "DataToPoly"):
        kw = dict(periodic_elements=ev["pe"], projection=p, cache=ev["cache"], override=ev["override"])
        tgt = g if act == "ToPoly" else das[ev["var"]]
        if ev.get("ri", True):
            pc, owner = tgt.to_polycollection(return_indices=True, **kw)
            return pc, [int(x) for x in np.asarray(owner).ravel()]
        return tgt.to_polycollection(**kw), None
    if act == "ToLine":
        return g.to_linecollection(periodic_elements=ev["pe"], projection=p, cache=ev["cache"], override=ev["override"]), None
    raise ValueError(act)


def kind_of(act):
    return {"ToGdf": "gdf", "DataToGdf": "gdf", "ToPoly": "poly", "DataToPoly": "poly", "ToLine": "line"}[act]


def _shapely_of(geom):
    return geom.to_shapely() if hasattr(geom, "to_shapely") else geom


def raw_rows(obj, kind):
    """-> (rows: list of list of (P,2) float arrays, data: {column: list}, holes)"""
    holes = 0
    rows = []
    data = {}
    if kind == "gdf":
        col = obj["geometry"]
        vals = col.values
        for i in range(len(vals)):
            el = vals[i]
            pcs = []
            if hasattr(el, "to_shapely"):
                # spatialpandas: read the ring buffers directly (shapely refuses rings containing NaN)
                nested = el.data.as_py()
                polys = nested if type(el).__name__ == "MultiPolygon" else [nested]
                for rings in polys:
                    if not rings:
                        continue
                    pcs.append(np.asarray(rings[0], dtype=float).reshape(-1, 2))
                    holes += len(rings) - 1
            else:
                parts = list(el.geoms) if el.geom_type.startswith("Multi") else [el]
                for q in parts:
                    pcs.append(np.asarray(q.exterior.coords, dtype=float)[:, :2])
                    holes += len(q.interiors)
            rows.append(pcs)
        for c in obj.columns:
            if c != "geometry":
                data[str(c)] = _ints(np.asarray(obj[c].values))
    elif kind == "poly":
        for p in obj.get_paths():
            rows.append([np.asarray(p.vertices, dtype=float)])
        a = obj.get_array()
        if a is not None:
            data["arr"] = _ints(np.asarray(a))
    else:
        for s in obj.get_segments():
            rows.append([np.asarray(s, dtype=float)])
    return rows, data, holes


def _ints(a):
    out = []
    for v in np.asarray(a, dtype=float).ravel():
        out.append(int(round(v)) if math.isfinite(v) else -999)
    return out


def declared_crs(obj):
    return getattr(obj, "_transform", None)


def digest(obj, kind):
    """Bitwise digest of the geometry and of every data column (history part: values are
    recomputed by the same code, so equality is exact)."""
    rows, data, holes = raw_rows(obj, kind)
    h = hashlib.sha1()
    h.update(kind.encode())
    h.update((type(obj).__module__.split(".")[0] + "." + type(obj).__name__).encode())   # which engine's frame
    for r in rows:
        h.update(b"R%d" % len(r))
        for p in r:
            h.update(np.ascontiguousarray(p, dtype=np.float64).tobytes())
            h.update(b"|")
    tr = declared_crs(obj)
    if tr is not None:
        h.update(repr(getattr(tr, "proj4_init", tr)).encode())
    cols = {c: hashlib.sha1(repr(v).encode()).hexdigest()[:12] for c, v in data.items()}
    return h.hexdigest()[:16], cols


# ----------------------------------------------------------------------------- areas (numeric clause)
def shoelace(p):
    x, y = p[:, 0], p[:, 1]
    return 0.5 * abs(float(np.dot(x, np.roll(y, -1)) - np.dot(y, np.roll(x, -1))))


def cut_latitude(u, v, k):
    """Latitude (degrees) at which the great-circle arc u -> v (integer directions, seam position k)
    meets the seam meridian: the direction (n_z, 0, -n_x) or its opposite, n = u x v."""
    if k == 2:
        u, v = (-u[0], -u[1], u[2]), (-v[0], -v[1], v[2])
    n = (u[1] * v[2] - u[2] * v[1], u[2] * v[0] - u[0] * v[2], u[0] * v[1] - u[1] * v[0])
    px, pz = n[2], -n[0]
    if px > 0:
        px, pz = -px, -pz
    if px == 0:
        return None
    return math.degrees(math.atan2(pz, -px))


def expected_planar_area(face, nodes, tab, k, polein, great_circle):
    """Area of the face in the (seam-shifted lon, lat) plane once it is cut at the seam (and closed
    over the pole line if it encloses a pole), the cut points lying on the straight lon/lat segment
    (great_circle=False) or on the great-circle arc (True).  None if the construction is degenerate."""
    lon = [tab[n][0] for n in face]
    lat = [tab[n][1] for n in face]
    n = len(face)
    L = [lon[0]]
    pts = [(lon[0], lat[0])]
    for i in range(n):
        j = (i + 1) % n
        d = (lon[j] - lon[i] + 180.0) % 360.0 - 180.0
        if abs(abs(d) - 180.0) < 1e-9:
            return None
        a, b = L[-1], L[-1] + d
        # a seam position S = 180 (mod 360) strictly between a and b
        lo, hi = min(a, b), max(a, b)
        S = math.ceil((lo - 180.0) / 360.0) * 360.0 + 180.0
        if lo + 1e-9 < S < hi - 1e-9:
            if great_circle:
                lc = cut_latitude(nodes[face[i]], nodes[face[j]], k)
                if lc is None:
                    return None
            else:
                lc = lat[i] + (lat[j] - lat[i]) * (S - a) / (b - a)
            pts.append((S, lc))
        L.append(b)
        pts.append((b, lat[j]))
    wind = L[-1] - L[0]
    if polein != (abs(wind) > 1.0):
        return None
    if not polein:
        return shoelace(np.array(pts[:-1]))
    north = sum(lat) > 0
    tot = 0.0
    for (x0, y0), (x1, y1) in zip(pts[:-1], pts[1:]):
        h0 = (90.0 - y0) if north else (90.0 + y0)
        h1 = (90.0 - y1) if north else (90.0 + y1)
        tot += (x1 - x0) * (h0 + h1) / 2.0
    return abs(tot)


# ----------------------------------------------------------------------------- TLC output
def tagged_prints(out, tags):
    """PrintT values <<"TAG", ...>> of a TLC run; long values are pretty-printed over several
    lines as '<< "TAG", ...' which harness.tlc does not pick up."""
    from . import tlaval

    res = []
    i = 0
    n = len(out)
    while i < n:
        j = out.find("<<", i)
        if j < 0:
            break
        if j > 0 and out[j - 1] != "\n":
            i = j + 2
            continue
        k = j + 2
        while k < n and out[k] == " ":
            k += 1
        if k >= n or out[k] != '"':
            i = j + 2
            continue
        e = out.find('"', k + 1)
        if out[k + 1 : e] not in tags:
            i = j + 2
            continue
        try:
            v, i = tlaval.parse_prefix(out, j)
        except tlaval.ParseError:
            i = j + 2
            continue
        res.append(v)
    return res


# ----------------------------------------------------------------------------- histories
HIST = {"entries": None, "ref": None}


def ref_key(ev):
    return (ev["act"], ev["pe"], ev["proj"], ev["eng"], bool(ev["project"]), ev["var"], bool(ev.get("ri", True)))


def _mk_das(g):
    return {"ta": tracer(g, "ta", 1000), "tb": tracer(g, "tb", 2000), "tc": tracer(g, "tc", 3000)}


def obj_digest(obj, kind, owner=None):
    gd, cols = digest(obj, kind)
    if owner is not None:
        gd = hashlib.sha1((gd + repr(owner)).encode()).hexdigest()[:16]
    return gd, cols


def fresh_reference(entry, ev):
    """What a freshly built grid returns for the arguments of ev: (raised, geometry digest, columns)."""
    g = make_grid(entry, 1)
    try:
        obj, owner = call(g, _mk_das(g), dict(ev, cache=True, override=False))
    except Exception as e:  # noqa
        return (True, "", {}, type(e).__name__)
    gd, cols = obj_digest(obj, kind_of(ev["act"]), owner)
    return (False, gd, cols, "")


def edit_object(obj, kind):
    """The caller changes an object it was given (drops its first geometry)."""
    if kind == "gdf":
        obj.drop(obj.index[0], inplace=True)
    elif kind == "poly":
        obj.set_verts([p.vertices for p in obj.get_paths()[1:]], closed=False)
    else:
        obj.set_segments(obj.get_segments()[1:])


def replay_trace(job):
    """Replays one history step by step on a fresh real grid.  After every step every object the
    caller holds is re-projected (digests).  Returns the raw trace; no comparison is made here."""
    entry = HIST["entries"][job["mesh"]]
    g = make_grid(entry, 1)
    das = _mk_das(g)
    objs, kinds, owners, index = [], [], [], {}
    steps = []
    for ev in job["events"]:
        st = {"x": False, "r": 0, "err": ""}
        if ev["act"] == "Edit":
            j = ev["target"]
            if 1 <= j <= len(objs):
                try:
                    edit_object(objs[j - 1], kinds[j - 1])
                except Exception as e:  # noqa
                    st["err"] = "edit: %s: %s" % (type(e).__name__, str(e)[:120])
        else:
            try:
                if ev.get("via") == "accessor":
                    obj, st["argok"] = accessor_call(g, das, ev)
                    owner = None
                else:
                    obj, owner = call(g, das, ev)
                oid = id(obj)
                if oid in index and objs[index[oid] - 1] is obj:
                    st["r"] = index[oid]
                    owners[index[oid] - 1] = owner
                else:
                    objs.append(obj)
                    kinds.append(kind_of(ev["act"]))
                    owners.append(owner)
                    index[oid] = len(objs)
                    st["r"] = len(objs)
            except Exception as e:  # noqa
                st["x"] = True
                st["err"] = "%s: %s" % (type(e).__name__, str(e)[:160])
        o = []
        for ob, kd, ow in zip(objs, kinds, owners):
            try:
                o.append(obj_digest(ob, kd, ow))
            except Exception as e:  # noqa
                o.append(("unreadable:" + type(e).__name__, {}))
        st["o"] = o
        steps.append(st)
    return {"id": job["id"], "steps": steps}


# ----------------------------------------------------------------------------- larger meshes
def cubed_sphere(n, split_every=3):
    """Gnomonic cubed sphere with n x n cells per panel on the integer lattice (corner coordinates -n, -n+2, .., n;
    n odd, so that no node lies on an axis, a pole or the seam); every `split_every`-th cell is cut into two
    triangles (mixed face sizes).  Well-formedness (convex, counter-clockwise, distinct nodes) is checked by TLC
    (PolyGen.LawWellFormed), not assumed."""
    assert n % 2 == 1
    cs = [-n + 2 * i for i in range(n + 1)]
    ids, nodes, faces = {}, [], []

    def nid(v):
        v = tuple(v)
        if v not in ids:
            ids[v] = len(nodes)
            nodes.append(list(v))
        return ids[v]

    cnt = 0
    for a in range(3):
        b, c = (a + 1) % 3, (a + 2) % 3
        for s in (1, -1):
            for i in range(n):
                for j in range(n):
                    q = []
                    for (u, w) in ((cs[i], cs[j]), (cs[i + 1], cs[j]), (cs[i + 1], cs[j + 1]), (cs[i], cs[j + 1])):
                        v = [0, 0, 0]
                        v[a], v[b], v[c] = s * n, u, w
                        q.append(nid(v))
                    if s < 0:
                        q = [q[0], q[3], q[2], q[1]]
                    cnt += 1
                    centre = cs[i] < 0 < cs[i + 1] and cs[j] < 0 < cs[j + 1]     # its diagonal would pass through an axis / a pole
                    if split_every and cnt % split_every == 0 and not centre:
                        faces.append([q[0], q[1], q[2]])
                        faces.append([q[0], q[2], q[3]])
                    else:
                        faces.append(q)
    sizes = sorted({len(f) for f in faces})
    return {"name": "cubed%d" % n, "rot": 0, "cut": 0, "nodes": nodes, "faces": faces, "closed": True, "sizes": sizes,
            "valences": [], "sides_below_90": True, "n_edge": 0}


# ----------------------------------------------------------------------------- plotting accessors
class Spy:
    """Records, for the duration of a `with` block, the arguments and the result of every
    Grid.to_geodataframe / UxDataArray.to_geodataframe call (harness-side wrapper, the package is not touched)."""

    def __enter__(self):
        ux = hux.import_ux()
        self.calls = []
        self._orig = (ux.Grid.to_geodataframe, ux.UxDataArray.to_geodataframe)
        spy = self

        def wrap(level, fn):
            def inner(obj, *a, **kw):
                r = fn(obj, *a, **kw)
                spy.calls.append((level, a, dict(kw), r))
                return r

            return inner

        ux.Grid.to_geodataframe = wrap("grid", self._orig[0])
        ux.UxDataArray.to_geodataframe = wrap("data", self._orig[1])
        return self

    def __exit__(self, *exc):
        ux = hux.import_ux()
        ux.Grid.to_geodataframe, ux.UxDataArray.to_geodataframe = self._orig
        return False


def accessor_call(g, das, ev):
    """The plotting-accessor route of a GeoDataFrame conversion: grid.plot.edges(...) / uxda.plot.polygons(...).
    Returns (frame handed to hvplot, the accessor passed exactly the arguments of ev with project=False)."""
    kw = dict(periodic_elements=ev["pe"], engine=ENGINES[ev["eng"]])
    if ev["proj"] != "default":
        kw["projection"] = proj(ev["proj"])
    with Spy() as sp:
        if ev["act"] == "ToGdf":
            g.plot.edges(**kw)
        else:
            das[ev["var"]].plot.polygons(**kw)
    level = "grid" if ev["act"] == "ToGdf" else "data"
    mine = [c for c in sp.calls if c[0] == level]
    if len(mine) != 1:
        return (mine[-1][3] if mine else None), False
    _, a, k, frame = mine[0]
    want = proj("pc0") if ev["proj"] == "default" else proj(ev["proj"])
    ok = (not a and k.get("periodic_elements") == ev["pe"] and k.get("engine") == ENGINES[ev["eng"]]
          and k.get("project") is False and k.get("projection") == want
          and not k.get("override", False) and k.get("cache", True))
    if isinstance(frame, tuple):
        frame = frame[0]
    return frame, bool(ok)


def warm_accessors(entry):
    """hvplot / geoviews initialise on first use (several seconds): do it once, before any timing or fork."""
    g = make_grid(entry, 1)
    try:
        g.plot.edges(projection=proj("rob"))
    except Exception:  # noqa
        pass

"""C07 replay driver: builds real grids from catalogue meshes along four provenance routes,
steps behaviours of tla/EncodeLazy.tla through the public API, and projects what happened
into the abstract vocabulary of the specification (trace lines for tla/TraceEncode.tla).

Nothing here decides a verdict.  Projections only:
  * which variables a dataset holds, which names its topology metadata mentions,
  * which variables carry attributes netCDF cannot store (tested by storing them),
  * the encoded dataset as an "E-record" (raw integer tables + position ids), decoded later by
    TLA+ following each FORMAT's conventions (independent of the library's readers),
  * faces of a Grid as cycles of position ids (nearest source node, 1e-9 chord tolerance).
"""

from __future__ import annotations

import copy
import math
import os

import numpy as np

from . import lattice
from . import ux as hux

FILL_TOKEN = -9
JUNK_TOKEN = -7

ROUTES = ("topo", "topoE", "fv", "ugrid", "ufile")
ENCODE_AS = {"ugrid": "UGRID", "exodus": "Exodus", "scrip": "SCRIP"}
SCRIP_NAMES = {"grid_corner_lat", "grid_corner_lon", "grid_center_lat", "grid_center_lon", "grid_imask", "grid_area", "grid_dims"}

_TEMPLATES = None  # import-time snapshot of every module-level dict of conventions.ugrid


# ----------------------------------------------------------------------------- templates
def _conv():
    import uxarray.conventions.ugrid as conv

    return conv


def snapshot_templates():
    global _TEMPLATES
    if _TEMPLATES is None:
        conv = _conv()
        _TEMPLATES = {k: copy.deepcopy(v) for k, v in vars(conv).items() if isinstance(v, dict) and k.isupper() and k.endswith("_ATTRS")}
    return _TEMPLATES


def restore_templates():
    conv = _conv()
    for k, v in snapshot_templates().items():
        d = getattr(conv, k)
        d.clear()
        d.update(copy.deepcopy(v))


def _same(a, b):
    try:
        if isinstance(a, np.ndarray) or isinstance(b, np.ndarray):
            return isinstance(a, np.ndarray) and isinstance(b, np.ndarray) and a.shape == b.shape and bool((a == b).all())
        return type(a) is type(b) and a == b
    except Exception:  # noqa
        return False


def template_diff():
    """(keys changed in BASE_GRID_TOPOLOGY_ATTRS, keys changed in EDGE_NODE_CONNECTIVITY_ATTRS);
    changes of any other template are reported with the template's name in the first list."""
    conv = _conv()
    tT, tE = [], []
    for name, snap in snapshot_templates().items():
        cur = getattr(conv, name)
        ch = [k for k in set(cur) | set(snap) if k not in cur or k not in snap or not _same(cur[k], snap[k])]
        if name == "BASE_GRID_TOPOLOGY_ATTRS":
            tT += ch
        elif name == "EDGE_NODE_CONNECTIVITY_ATTRS":
            tE += ch
        else:
            tT += ["%s.%s" % (name, k) for k in ch]
    return sorted(tT), sorted(tE)


# ----------------------------------------------------------------------------- inputs
def edge_table(faces):
    es = set()
    for f in faces:
        for j in range(len(f)):
            a, b = f[j], f[(j + 1) % len(f)]
            es.add((min(a, b), max(a, b)))
    return np.array(sorted(es), dtype=hux.consts()[0])


STRIP_CENTRES = [(0, 0), (180, 0), (0, 90), (0, -90), (90, 45), (-135, -30), (179, 10), (-60, 70), (30, -85), (120, 0)]


def strip_faces(sizes):
    """The face table of EncodeRel!StripMesh (re-derived here only to attach coordinates; the check
    compares it with the table TLC generated) plus, per node, (chain, abscissa)."""
    faces, where = [], {0: ("b", 0.0), 1: ("t", 0.0)}
    bl, tl, nxt = 0, 1, 2
    for k, n in enumerate(sizes):
        b = (n + 1) // 2
        t = n - b
        bot = [bl] + [nxt + j for j in range(b - 1)]
        tops = [nxt + (b - 1) + j for j in range(t - 1)]
        for j, v in enumerate(bot[1:], 1):
            where[v] = ("b", k + j / (b - 1))
        for j, v in enumerate(tops, 1):
            where[v] = ("t", k + j / (t - 1))
        faces.append(bot + tops[::-1] + [tl])
        bl = bot[-1]
        tl = tops[-1] if t > 1 else tl
        nxt += n - 2
    return faces, where


def _frame(p, spin):
    """Right-handed orthonormal frame whose first axis is p; `spin` turns the other two about p."""
    p = np.asarray(p, float)
    p = p / np.linalg.norm(p)
    h = np.array([0.0, 0.0, 1.0]) if abs(p[2]) < 0.9 else np.array([1.0, 0.0, 0.0])
    u = np.cross(p, h)
    u /= np.linalg.norm(u)
    v = np.cross(p, u)
    c, s_ = math.cos(spin), math.sin(spin)
    return np.stack([p, c * u + s_ * v, -s_ * u + c * v], axis=1)


def place_target(place, rng):
    """Where node 0 goes: `off` micro-degrees from the anchor TLC chose."""
    off = place["off"] * 1e-6
    a = place["anchor"]
    if a == "npole" or a == "spole":
        th, ph = math.radians(off), math.radians(rng.choice([0.0, 137.0, -90.0]))
        z = math.cos(th) if a == "npole" else -math.cos(th)
        if off == 0:
            return (0.0, 0.0, z)
        return (math.sin(th) * math.cos(ph), math.sin(th) * math.sin(ph), z)
    if a == "amer_east":
        return lattice.xyz_of_lonlat_deg(180.0 - off, rng.choice([0.0, 25.0, -40.0]))
    if a == "amer_west":
        return lattice.xyz_of_lonlat_deg(-180.0 + off, rng.choice([0.0, 25.0, -40.0]))
    return lattice.xyz_of_lonlat_deg(40.0, 35.0)


def strip_entry(sizes, rng, place=None):
    """Coordinates for a strip mesh: all nodes lie on the boundary of a lens (bottom chain on a convex,
    top chain on a concave parabola in lon/lat), so every face is strictly convex and counter-clockwise;
    the patch is then turned rigidly so that node 0 sits exactly where the generated `place` says
    (at / near a pole, at / near the antimeridian, mid-latitudes), with a random spin about that node."""
    faces, where = strip_faces(sizes)
    F = len(sizes)
    W = min(50.0, 14.0 * F)
    a = 3.0 / (W / 2) ** 2
    local = []
    for v in range(len(where)):
        chain, u = where[v]
        x = -W / 2 + W * u / F
        y = (-8.0 + a * x * x) if chain == "b" else (8.0 - a * x * x)
        local.append(lattice.xyz_of_lonlat_deg(x, y))
    place = place or {"anchor": "mid", "off": 0}
    T = place_target(place, rng)
    R = _frame(T, rng.uniform(0.0, 2 * math.pi)) @ _frame(local[0], 0.0).T
    xyz = [tuple(float(c) for c in (R @ np.asarray(p))) for p in local]
    xyz[0] = tuple(float(c) for c in T)  # exactly the generated position (the rotation is exact to rounding only)
    return {"xyz": xyz, "faces": faces, "name": "strip%s@%s%+gdeg" % ("-".join(map(str, sizes)), place["anchor"], place["off"] * 1e-6)}


def entry_lonlat(entry):
    if "xyz" in entry:
        return [(math.degrees(math.atan2(y, x)) if (x * x + y * y) > 1e-30 else 0.0, math.degrees(math.atan2(z, math.hypot(x, y)))) for x, y, z in entry["xyz"]]
    if "lonlat" in entry:
        return [tuple(p) for p in entry["lonlat"]]
    return [lattice.lonlat_deg(v) for v in entry["nodes"]]


def entry_xyz(entry):
    if "xyz" in entry:
        return [tuple(p) for p in entry["xyz"]]
    if "lonlat" in entry:
        return [lattice.xyz_of_lonlat_deg(lo, la) for lo, la in entry["lonlat"]]
    return [lattice.unit(v) for v in entry["nodes"]]


def build_grid(entry, route, scratch=None):
    """A real Grid for a mesh (catalogue entry, or {lonlat, faces}, or {file}) along one provenance route.
    scratch: path of a file the "ufile" route may write (a UGRID file produced by plain xarray)."""
    import xarray as xr

    ux = hux.import_ux()
    INT_DTYPE, FILL = hux.consts()
    if route == "file":
        return ux.open_grid(entry["file"])
    faces = entry["faces"]
    ll = entry_lonlat(entry)
    xyz = np.array(entry_xyz(entry), dtype=float)
    lon = np.array([p[0] for p in ll], dtype=float)
    lat = np.array([p[1] for p in ll], dtype=float)
    conn = hux.pad_table(faces)
    if route == "topo":
        return ux.Grid.from_topology(lon, lat, conn, fill_value=FILL)
    if route == "topoE":
        return ux.Grid.from_topology(lon, lat, conn, fill_value=FILL, edge_node_connectivity=edge_table(faces))
    if route == "fv":
        w = max(len(f) for f in faces)
        arr = np.full((len(faces), w, 3), float(FILL))
        for i, f in enumerate(faces):
            for j, n in enumerate(f):
                arr[i, j] = xyz[n]
        return ux.Grid.from_face_vertices(arr, latlon=False)
    if route in ("ugrid", "ufile"):
        ds = xr.Dataset()
        ds["node_lon"] = xr.DataArray(lon, dims=["n_node"], attrs={"standard_name": "longitude", "units": "degrees_east"})
        ds["node_lat"] = xr.DataArray(lat, dims=["n_node"], attrs={"standard_name": "latitude", "units": "degrees_north"})
        for k, c in enumerate("xyz"):
            ds["node_" + c] = xr.DataArray(xyz[:, k].copy(), dims=["n_node"], attrs={"standard_name": c, "units": "meters"})
        ds["face_node_connectivity"] = xr.DataArray(
            conn, dims=["n_face", "n_max_face_nodes"], attrs={"cf_role": "face_node_connectivity", "start_index": 0, "_FillValue": FILL}
        )
        ds["mesh"] = xr.DataArray(
            -1,
            attrs={
                "cf_role": "mesh_topology",
                "topology_dimension": 2,
                "node_coordinates": "node_lon node_lat",
                "face_node_connectivity": "face_node_connectivity",
                "face_dimension": "n_face",
                "node_dimension": "n_node",
            },
        )
        if route == "ufile":
            if os.path.exists(scratch):
                os.remove(scratch)
            ds.to_netcdf(scratch)
            return ux.open_grid(scratch)
        return ux.open_grid(ds)
    raise ValueError(route)


# ----------------------------------------------------------------------------- positions
class Positions:
    """Position ids = indices of the catalogue nodes (distinct directions)."""

    def __init__(self, unit_vectors, tol=1e-9):
        self.U = np.array(unit_vectors, dtype=float).reshape(-1, 3)
        self.tol = tol

    def of_xyz(self, x, y, z):
        P = np.stack([np.asarray(x, float), np.asarray(y, float), np.asarray(z, float)], axis=1)
        if P.size == 0:
            return []
        nrm = np.linalg.norm(P, axis=1)
        ok = np.isfinite(nrm) & (nrm > 0)
        P = np.where(ok[:, None], P / np.where(ok, nrm, 1.0)[:, None], 0.0)
        idx = np.empty(P.shape[0], dtype=int)
        for a in range(0, P.shape[0], 2048):  # blocks keep the product small for big sample meshes
            idx[a : a + 2048] = np.argmax(P[a : a + 2048] @ self.U.T, axis=1)
        chord = np.linalg.norm(P - self.U[idx], axis=1)
        return [int(i) if (o and c < self.tol) else -1 for i, o, c in zip(idx, ok, chord)]

    def of_lonlat_deg(self, lon, lat):
        lo = np.radians(np.asarray(lon, float))
        la = np.radians(np.asarray(lat, float))
        return self.of_xyz(np.cos(la) * np.cos(lo), np.cos(la) * np.sin(lo), np.sin(la))


def _vals(da):
    return np.asarray(da.values)


def grid_faces(g, pos, touch=False):
    """Faces of a Grid as cycles of position ids.  touch=False reads Grid._ds only (no lazy
    property is triggered: observing must not change the history)."""
    ds = g._ds
    if touch:
        p = pos.of_lonlat_deg(_vals(g.node_lon), _vals(g.node_lat))
        conn = g.face_node_connectivity
    else:
        if "node_x" in ds and "node_y" in ds and "node_z" in ds:
            p = pos.of_xyz(_vals(ds["node_x"]), _vals(ds["node_y"]), _vals(ds["node_z"]))
        else:
            p = pos.of_lonlat_deg(_vals(ds["node_lon"]), _vals(ds["node_lat"]))
        conn = ds["face_node_connectivity"]
    rows, _, _ = hux.table(conn)
    if rows and not isinstance(rows[0], list):
        rows = [rows]
    out = []
    for r in rows:
        out.append([p[i] if 0 <= i < len(p) else -1 for i in r if i != -1])
    return out


# ----------------------------------------------------------------------------- attrs netCDF cannot hold
_NC = None
_NC_PID = None


def _attr_storable(value):
    """Can xarray + netCDF4 store this attribute value?  Decided by storing it."""
    global _NC
    import numbers

    if not isinstance(value, (str, bytes, numbers.Number, np.number, np.ndarray, list, tuple, np.bool_)):
        return False  # xarray's own attribute validation rejects the type
    try:
        import netCDF4

        global _NC_PID
        if _NC is None or _NC_PID != os.getpid():  # never share a netCDF/HDF5 handle across a fork
            _NC_PID = os.getpid()
            _NC = netCDF4.Dataset("c07_attr_probe_%d" % os.getpid(), "w", diskless=True, persist=False)
            _NC.createVariable("v", "i4", ())
        _NC["v"].setncattr("a", value)
        return True
    except Exception:  # noqa
        return False


_STORABLE_CACHE = {}


def helper_vars(ds):
    """Variables of ds that carry at least one attribute netCDF cannot store."""
    out = []
    for name, var in ds.variables.items():
        if "_FillValue" in var.attrs and "_FillValue" in var.encoding:
            # xarray refuses to write a variable whose fill value is given twice
            out.append("%s:_FillValue_in_attrs_and_encoding" % name)
            continue
        for k, v in var.attrs.items():
            if isinstance(v, (str, int, float)):
                continue
            key = (id(v), type(v))
            r = _STORABLE_CACHE.get(key)
            if r is None or r[0] is not v:
                r = (v, _attr_storable(v))
                _STORABLE_CACHE[key] = r
            if not r[1]:
                out.append(str(name))
                break
    return sorted(out)


def store_of(ds):
    return sorted(str(k) for k in ds.variables)


def vars_and_dims(ds):
    return sorted(set(str(k) for k in ds.variables) | set(str(k) for k in ds.dims))


# ----------------------------------------------------------------------------- E-records
def _tok(x, declared_fill):
    try:
        if declared_fill is not None and x == declared_fill:
            return FILL_TOKEN
    except Exception:  # noqa
        pass
    if isinstance(x, (float, np.floating)):
        if not math.isfinite(x) or x != int(x):
            return JUNK_TOKEN
        x = int(x)
    x = int(x)
    if abs(x) >= 2**30 or x in (FILL_TOKEN, JUNK_TOKEN):
        return JUNK_TOKEN
    return x


def _int_rows(a, declared_fill=None):
    a = np.asarray(a)
    if a.ndim == 1:
        a = a[None, :]
    return [[_tok(x, declared_fill) for x in row] for row in a.tolist()]


def no_enc():
    return {"kind": "none", "conn": [], "start": 0, "hasfill": False, "blocks": [], "corners": [], "nnode": 0, "pos": [], "has": []}


def topology_names(ds):
    """Names (variables, coordinates, dimensions) the topology metadata of a UGRID dataset mentions."""
    names = set()
    for _, var in ds.variables.items():
        if var.attrs.get("cf_role") == "mesh_topology":
            for k, v in var.attrs.items():
                if not isinstance(v, str):
                    continue
                if k.endswith("_coordinates") or k.endswith("_connectivity"):
                    names |= set(v.split())
                elif k.endswith("_dimension") and k != "topology_dimension":
                    names.add(v)
    return sorted(names)


def enc_ugrid(ds, pos):
    """UGRID E-record, following the UGRID 1.0 conventions (not the library's reader)."""
    e = no_enc()
    e["kind"] = "ugrid"
    topo = [n for n, v in ds.variables.items() if v.attrs.get("cf_role") == "mesh_topology"]
    if len(topo) != 1:
        return e
    ta = ds[topo[0]].attrs
    has = ["topology"]
    fnc = ta.get("face_node_connectivity")
    nc = str(ta.get("node_coordinates", "")).split()
    if len(nc) == 2 and nc[0] in ds.variables and nc[1] in ds.variables:
        a, b = ds[nc[0]], ds[nc[1]]
        # which is longitude: standard_name / units, else the order the conventions prescribe (lon lat)
        if "lat" in str(a.attrs.get("standard_name", a.attrs.get("units", ""))) and "lon" in str(b.attrs.get("standard_name", b.attrs.get("units", ""))):
            a, b = b, a
        lon, lat = _vals(a), _vals(b)
        if "radian" in str(a.attrs.get("units", "")):
            lon, lat = np.degrees(lon), np.degrees(lat)
        has += ["node_lon", "node_lat"]
        e["pos"] = pos.of_lonlat_deg(lon, lat)
        e["nnode"] = int(lon.shape[0])
    else:
        nd = ta.get("node_dimension", "n_node")
        e["nnode"] = int(ds.sizes[nd]) if nd in ds.sizes else 0
    if isinstance(fnc, str) and fnc in ds.variables:
        v = ds[fnc]
        has.append("face_node_connectivity")
        fv = v.attrs.get("_FillValue", v.encoding.get("_FillValue"))
        e["hasfill"] = fv is not None
        si = v.attrs.get("start_index")
        e["start"] = -1 if si is None else int(si)
        e["conn"] = _int_rows(_vals(v), fv)
    e["has"] = sorted(has)
    return e


def enc_exodus(ds, pos):
    e = no_enc()
    e["kind"] = "exodus"
    has = []
    xyz = None
    if "coord" in ds.variables and ds["coord"].ndim == 2 and ds["coord"].shape[0] >= 3:
        c = _vals(ds["coord"])
        xyz = (c[0], c[1], c[2])
    elif all(k in ds.variables for k in ("coordx", "coordy", "coordz")):
        xyz = (_vals(ds["coordx"]), _vals(ds["coordy"]), _vals(ds["coordz"]))
    if xyz is not None:
        has.append("coord")
        e["pos"] = pos.of_xyz(*xyz)
        e["nnode"] = len(e["pos"])
    blocks = []
    k = 1
    while "connect%d" % k in ds.variables:
        blocks.append(_int_rows(_vals(ds["connect%d" % k])))
        k += 1
    if blocks:
        has.append("connect")
    e["blocks"] = blocks
    e["has"] = sorted(has)
    return e


def enc_scrip(ds, pos):
    e = no_enc()
    e["kind"] = "scrip"
    e["has"] = sorted(SCRIP_NAMES & set(str(k) for k in ds.variables))
    if "grid_corner_lat" in ds.variables and "grid_corner_lon" in ds.variables:
        lon, lat = _vals(ds["grid_corner_lon"]), _vals(ds["grid_corner_lat"])
        if "radian" in str(ds["grid_corner_lon"].attrs.get("units", "")):
            lon, lat = np.degrees(lon), np.degrees(lat)
        if lon.ndim == 2 and lon.shape == lat.shape:
            p = pos.of_lonlat_deg(lon.ravel(), lat.ravel())
            w = lon.shape[1]
            e["corners"] = [p[i * w : (i + 1) * w] for i in range(lon.shape[0])]
    return e


def enc_of(ds, fmt, pos):
    return {"ugrid": enc_ugrid, "exodus": enc_exodus, "scrip": enc_scrip}[fmt](ds, pos)


# ----------------------------------------------------------------------------- replay
def _err(e):
    return "%s: %s" % (type(e).__name__, str(e)[:160])


class ImplRaised(Exception):
    """The library raised in a call whose success C07 presupposes (opening a source, chunking)."""


class Replayer:
    """Steps one behaviour (list of calls) through real objects and records the trace."""

    def __init__(self, beh, workdir):
        self.beh = beh
        self.work = workdir
        self.t = beh["t"]
        self.entries = beh["entries"]  # g -> catalogue entry
        self.routes = beh["routes"]  # g -> route
        self.pos = beh["_pos"]
        self.grids = {}
        self.exports = []  # dicts: ds, g, fmt, status, alias, vars, helper, path
        self.lines = []
        self.errors = []

    # -- projections of the current state
    def _grid_state(self, g):
        ds = self.grids[g]._ds
        return store_of(ds), helper_vars(ds)

    def _ex_now(self):
        out = []
        for x in self.exports:
            if x["status"] == "ok" and x["alias"]:
                x["vars"], x["helper"] = vars_and_dims(x["ds"]), helper_vars(x["ds"])
            out.append({"vars": x["vars"], "helper": x["helper"]})
        return out

    def _common(self, g):
        st, h = self._grid_state(g)
        tT, tE = template_diff()
        return {"store": st, "helper": h, "tT": tT, "tE": tE, "ex": self._ex_now()}

    def _emit(self, line):
        line["t"] = self.t
        self.lines.append(line)

    # -- actions
    def open(self, g):
        try:
            self.grids[g] = build_grid(self.entries[g], self.routes[g], os.path.join(self.work, "t%d_src_%s.nc" % (self.t, g)))
        except Exception as e:  # noqa
            raise ImplRaised("Open(%s) via %s: %s" % (g, self.routes[g], _err(e)))
        L = {"ev": "Open", "g": g}
        L.update(self._common(g))
        self._emit(L)

    def access(self, g, a):
        before = store_of(self.grids[g]._ds)
        status = "ok"
        try:
            getattr(self.grids[g], a)
        except Exception as e:  # noqa  (not C07's concern; the store is logged as it is)
            status = "raise"
            self.errors.append("Access(%s,%s): %s" % (g, a, _err(e)))
        L = {"ev": "Access", "g": g, "a": a, "status": status, "before": before}
        L.update(self._common(g))
        self._emit(L)

    def chunk(self, g):
        try:
            self.grids[g].chunk()
        except Exception as e:  # noqa
            raise ImplRaised("Chunk(%s): %s" % (g, _err(e)))
        L = {"ev": "Chunk", "g": g}
        L.update(self._common(g))
        self._emit(L)

    def to_xarray(self, g, fmt, api="to_xarray"):
        grid = self.grids[g]
        x = {"g": g, "fmt": fmt, "ds": None, "status": "ok", "alias": False, "vars": [], "helper": [], "names": [], "path": None}
        enc = no_enc()
        try:
            ds = grid.to_xarray(fmt) if api == "to_xarray" else grid.encode_as(ENCODE_AS[fmt])
            x["ds"] = ds
            x["alias"] = ds is grid._ds
            x["vars"] = vars_and_dims(ds)
            x["names"] = topology_names(ds) if fmt == "ugrid" else []
            x["helper"] = helper_vars(ds)
            enc = enc_of(ds, fmt, self.pos[g])
        except Exception as e:  # noqa
            x["status"] = "raise"
            x["error"] = _err(e)
            self.errors.append("ToXarray(%s,%s): %s" % (g, fmt, x["error"]))
        L = {"ev": "ToXarray", "g": g, "fmt": fmt, "api": api, "status": x["status"], "vars": x["vars"], "names": x["names"],
             "xhelper": x["helper"], "alias": bool(x["alias"]), "enc": enc}
        L.update(self._common(g))
        self.exports.append(x)
        self._emit(L)
        return len(self.exports)

    def write(self, k):
        import xarray as xr

        x = self.exports[k - 1]
        path = os.path.join(self.work, "t%d_e%d.nc" % (self.t, k))
        if os.path.exists(path):
            os.remove(path)
        enc = no_enc()
        try:
            x["ds"].to_netcdf(path)
            ok = True
        except Exception as e:  # noqa
            ok = False
            x["write_error"] = _err(e)
            self.errors.append("Write(%d): %s" % (k, x["write_error"]))
            if os.path.exists(path):
                os.remove(path)
        if ok:
            x["path"] = path
            try:
                with xr.open_dataset(path, decode_cf=False) as raw:
                    enc = enc_of(raw, x["fmt"], self.pos[x["g"]])
            except Exception as e:  # noqa
                self.errors.append("ReadRaw(%d): %s" % (k, _err(e)))
        self._emit({"ev": "Write", "k": k, "ok": ok, "enc": enc})
        return ok

    def reopen(self, k, via):
        ux = hux.import_ux()
        x = self.exports[k - 1]
        L = {"ev": "Reopen", "k": k, "via": via, "st": "ok", "faces": []}
        try:
            g2 = ux.open_grid(x["ds"] if via == "mem" else x["path"])
            L["faces"] = grid_faces(g2, self.pos[x["g"]], touch=True)
            if via == "file":
                try:
                    g2._ds.close()
                except Exception:  # noqa
                    pass
        except Exception as e:  # noqa
            L["st"] = "raise"
            self.errors.append("Reopen(%d,%s): %s" % (k, via, _err(e)))
        self._emit(L)

    def observe(self, k):
        """The observation suffix that follows every successful encoding."""
        if self.exports[k - 1]["status"] != "ok":
            return
        ok = self.write(k)
        self.reopen(k, "mem")
        if ok:
            self.reopen(k, "file")
            try:
                os.remove(self.exports[k - 1]["path"])
            except OSError:
                pass

    def run(self):
        restore_templates()
        _STORABLE_CACHE.clear()
        for call in self.beh["calls"]:
            kind = call[0]
            if kind == "Open":
                self.open(call[1])
            elif kind == "Access":
                self.access(call[1], call[2])
            elif kind == "Chunk":
                self.chunk(call[1])
            elif kind == "ToXarray":
                k = self.to_xarray(call[1], call[2], call[3] if len(call) > 3 else "to_xarray")
                self.observe(k)
            elif kind == "Write":
                if call[1] <= len(self.exports) and self.exports[call[1] - 1]["status"] == "ok":
                    self.write(call[1])
            elif kind == "Reopen":
                x = self.exports[call[1] - 1] if call[1] <= len(self.exports) else None
                if x and x["status"] == "ok" and (call[2] == "mem" or x.get("path")):
                    self.reopen(call[1], call[2])
            else:
                raise ValueError(kind)
        # exports that are the grid's own dataset may have changed since they were written
        for k, x in enumerate(self.exports, 1):
            if x["status"] == "ok" and x["alias"]:
                self.write(k)
                if x.get("path") and os.path.exists(x["path"]):
                    os.remove(x["path"])
        restore_templates()
        for g in self.grids:
            for nm in ("t%d_src_%s.nc" % (self.t, g), "t%d_probe_%s.nc" % (self.t, g)):
                try:
                    self.grids[g]._ds.close()
                    os.remove(os.path.join(self.work, nm))
                except OSError:
                    pass


def source_of(entry, route, scratch=None):
    """(positions, faces of the grid as opened) from a throw-away instance: what the round trip
    has to preserve."""
    g = build_grid(entry, route, scratch)
    if route == "file":
        lo, la = np.radians(_vals(g.node_lon).astype(float)), np.radians(_vals(g.node_lat).astype(float))
        # sample files store float32 coordinates: positions survive a round trip to ~1e-7 only
        pos = Positions(np.stack([np.cos(la) * np.cos(lo), np.cos(la) * np.sin(lo), np.sin(la)], axis=1), tol=1e-6)
        return pos, grid_faces(g, pos, touch=True)
    pos = Positions(entry_xyz(entry))
    return pos, grid_faces(g, pos, touch=False)


def replay_behaviour(beh):
    """pmap worker: returns {t, lines, index, errors, skipped}."""
    out = {"t": beh["t"], "lines": [], "errors": [], "skipped": None, "mesh": {}}
    snapshot_templates()
    restore_templates()
    try:
        beh = dict(beh)
        beh["_pos"] = {}
        for g in beh["entries"]:
            try:
                pos, faces = source_of(beh["entries"][g], beh["routes"][g], os.path.join(beh["work"], "t%d_probe_%s.nc" % (beh["t"], g)))
            except Exception as e:  # noqa
                raise ImplRaised("Open(%s) via %s: %s" % (g, beh["routes"][g], _err(e)))
            if "faces" in beh["entries"][g]:
                want = [list(f) for f in beh["entries"][g]["faces"]]
                if [sorted(f) for f in faces] != [sorted(f) for f in want]:
                    out["skipped"] = "route %s does not reproduce mesh %s (a reader matter, C01)" % (beh["routes"][g], beh["entries"][g].get("name"))
                    return out
            elif any(-1 in f for f in faces) or not faces:
                out["skipped"] = "source %s has faces the harness cannot project" % beh["entries"][g].get("name")
                return out
            beh["_pos"][g] = pos
            out["mesh"][g] = faces
        r = Replayer(beh, beh["work"])
        r.run()
        out["lines"] = r.lines
        out["errors"] = r.errors
        out["aliases"] = sum(1 for x in r.exports if x["alias"])
    except ImplRaised as e:
        out["skipped"] = "implementation raised: " + str(e)
        out["impl_raised"] = str(e)
    except Exception as e:  # noqa
        import traceback

        out["skipped"] = "harness: " + _err(e) + " | " + traceback.format_exc()[-400:]
        out["machinery"] = True
    finally:
        restore_templates()
    return out


# ----------------------------------------------------------------------------- process pool that cannot hang
def _run_items(args):
    func, idx_items = args
    return [(i, func(x)) for i, x in idx_items]


def robust_map(func, items, nproc, chunk=6, deadline_s=1500):
    """Ordered map over forked workers.  A worker that dies (a crash inside the library on a changed
    tree) or a deadlock never hangs or aborts the check: unfinished items are retried one per
    process; an item whose process dies twice yields {"crashed": True, ...}."""
    import multiprocessing as mp
    import time
    from concurrent.futures import ProcessPoolExecutor, wait, FIRST_EXCEPTION

    items = list(items)
    results = [None] * len(items)
    ctx = mp.get_context("fork")

    def attempt(indices, per, workers, budget):
        chunks = [indices[k : k + per] for k in range(0, len(indices), per)]
        ex = ProcessPoolExecutor(max_workers=workers, mp_context=ctx)
        futs = {ex.submit(_run_items, (func, [(i, items[i]) for i in c])): c for c in chunks}
        t0 = time.time()
        try:
            pending = set(futs)
            while pending and time.time() - t0 < budget:
                done, pending = wait(pending, timeout=5, return_when=FIRST_EXCEPTION)
                for f in done:
                    try:
                        for i, r in f.result():
                            results[i] = r
                    except Exception:  # noqa  BrokenProcessPool: every other pending future fails too
                        pass
                if any(f.done() and f.exception() is not None for f in futs):
                    break
        finally:
            for p in list(getattr(ex, "_processes", {}).values()):
                try:
                    p.kill()
                except Exception:  # noqa
                    pass
            ex.shutdown(wait=False, cancel_futures=True)
        return [i for i in indices if results[i] is None]

    todo = attempt(list(range(len(items))), chunk, nproc, deadline_s)
    rounds = 0
    while todo and rounds < 2:
        rounds += 1
        todo = attempt(todo, 1, nproc, 120 + len(todo) // max(1, nproc))
    for i in todo:  # suspects: alone, twice
        left = attempt([i], 1, 1, 90)
        if left:
            left = attempt([i], 1, 1, 90)
        if left:
            results[i] = {"t": items[i].get("t"), "lines": [], "errors": [], "mesh": {}, "skipped": "the interpreter died or hung while replaying this behaviour (twice)", "crashed": True}
    return results

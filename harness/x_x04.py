"""X04 replay driver: the real float64 functions of uxarray/utils/computing.py on the input shapes emitted
by EFT.tla.  Floats are converted exactly (fractions.Fraction) to integers at a common power-of-two scale and
written as sign + limbs in base 2^11; JudgeEFT.tla evaluates the identities / inequalities on them.  The only
decisions taken here are exact comparisons of floats (==) reported as booleans ("flag" records).
"""

from __future__ import annotations

import math
import os
import sys
from fractions import Fraction as Fr

from harness import ux as hux

B_BITS = 11
U_BITS = 53      # unit roundoff u = 2^-53

_C = None


def computing():
    """uxarray.utils.computing, with the exact-rational pyfma stand-in at the END of sys.path (a real pyfma wins)."""
    global _C
    if _C is None:
        hux.import_ux()
        shim = os.path.join(hux.VERIF, "harness", "shims")
        if shim not in sys.path:
            sys.path.append(shim)
        from uxarray.utils import computing as C

        import pyfma  # noqa

        _C = (C, os.path.dirname(os.path.abspath(pyfma.__file__)) == shim)
    return _C


def to_float(f):
    if f["s"] == 0:
        return 0.0
    return f["s"] * math.ldexp(f["hi"] * 2**30 + f["lo"], f["e"])


def big(n):
    n = int(n)
    s = (n > 0) - (n < 0)
    n = abs(n)
    limbs = []
    while n:
        limbs.append(n & ((1 << B_BITS) - 1))
        n >>= B_BITS
    return {"s": s, "l": limbs}


def scale_of(vals):
    """K such that every v * 2^K is an integer (v exact dyadic rationals)."""
    k = 0
    for v in vals:
        d = Fr(v).denominator
        k = max(k, d.bit_length() - 1)
    return k


def ints(vals, k=None):
    vals = [Fr(v) for v in vals]
    if k is None:
        k = scale_of(vals)
    out = []
    for v in vals:
        w = v * (1 << k) if k >= 0 else v / (1 << -k)
        if w.denominator != 1:
            return None, k
        out.append(int(w))
    return out, k


def m1(c, n):
    return {"c": int(c), "f": [big(n)]}


def m2(c, n, m):
    return {"c": int(c), "f": [big(n), big(m)]}


def rec(rid, fn, clause, rel, lhs, rhs, scope=True, **extra):
    r = {"id": rid, "fn": fn, "clause": clause, "rel": rel, "lhs": lhs, "rhs": rhs, "scope": bool(scope), "ok": True}
    r.update(extra)
    return r


def flag(rid, fn, clause, ok, scope=True, **extra):
    r = {"id": rid, "fn": fn, "clause": clause, "rel": "flag", "lhs": [], "rhs": [], "scope": bool(scope), "ok": bool(ok)}
    r.update(extra)
    return r


def finite(*xs):
    return all(math.isfinite(float(x)) for x in xs)


def _sum_identity(rid, fn, clause, left, right, scope=True, **extra):
    """SUM left = SUM right for exact dyadic values."""
    if not finite(*left, *right):
        return flag(rid, fn, clause, False, scope, note="non-finite value", **extra)
    iv, _ = ints(list(left) + list(right))
    return rec(rid, fn, clause, "eq", [m1(1, v) for v in iv[: len(left)]], [m1(1, v) for v in iv[len(left) :]], scope, **extra)


def _prod_identity(rid, fn, clause, x, y, terms, extra_left=(), scope=True, **kw):
    """x*y + SUM extra_left = SUM terms, exactly."""
    vals = list(terms) + list(extra_left)
    if not finite(x, y, *vals):
        return flag(rid, fn, clause, False, scope, note="non-finite value", **kw)
    fx, fy = Fr(x), Fr(y)
    k = max(scale_of([fx]) + scale_of([fy]), scale_of(vals))
    kx = scale_of([fx])
    ix = int(fx * (1 << kx))
    iy_ = fy * (1 << (k - kx))
    if iy_.denominator != 1:
        return flag(rid, fn, clause, False, scope, note="scale", **kw)
    iv, _ = ints(vals, k)
    if iv is None:
        return flag(rid, fn, clause, False, scope, note="a term is not representable at the product's scale", **kw)
    nt = len(terms)
    return rec(rid, fn, clause, "eq", [m2(1, ix, int(iy_))] + [m1(1, v) for v in iv[nt:]], [m1(1, v) for v in iv[:nt]], scope, **kw)


def ulp_of(v):
    """2^(e-52) for 2^e <= |v| < 2^(e+1), as a Fraction (v exact, non-zero); clamped at the subnormal spacing."""
    v = abs(Fr(v))
    e = v.numerator.bit_length() - v.denominator.bit_length()
    if Fr(2) ** e > v:
        e -= 1
    e = max(e, -1022)
    return Fr(2) ** (e - 52)


def _within_ulps(rid, fn, clause, got, exact, num, den, scope=True, **kw):
    """den * |got - exact| <= num * ulp(exact), with the ulp witnessed: 2^52 ulp <= |exact| < 2^53 ulp (normal range)."""
    if not finite(got):
        return [flag(rid, fn, clause, False, scope, note="non-finite result", **kw)]
    exact = Fr(exact)
    if exact == 0:
        return [flag(rid, fn, clause, float(got) == 0.0, scope, note="exact value is zero", **kw)]
    u = ulp_of(exact)
    iv, _ = ints([Fr(got), exact, u, abs(exact)])
    g, x, ul, ax = iv
    out = [
        rec(rid + "/+", fn, clause, "le", [m1(den, g), m1(-den, x)], [m1(num, ul)], scope, **kw),
        rec(rid + "/-", fn, clause, "le", [m1(den, x), m1(-den, g)], [m1(num, ul)], scope, **kw),
        # witnesses: ax = |exact|, and ul is the ulp of its binade (or the subnormal spacing)
        rec(rid + "/abs", fn, clause + ":witness", "eq", [m1(1, ax)], [m1(1 if exact > 0 else -1, x)], scope),
        rec(rid + "/ulp<", fn, clause + ":witness", "lt", [m1(1, ax)], [m2(1, ul, 1 << 53)], scope),
    ]
    if u > Fr(2) ** -1074:
        out.append(rec(rid + "/ulp>", fn, clause + ":witness", "le", [m2(1, ul, 1 << 52)], [m1(1, ax)], scope))
    return out


# ----------------------------------------------------------------------------- pair / triple shapes
def pair_case(case):
    C, shim = computing()
    x, y, z = to_float(case["x"]), to_float(case["y"]), to_float(case["z"])
    t = case["id"]
    out = []
    todo = case["todo"]
    if "two_sum" in todo:
        try:
            s, e = C._two_sum(x, y)
            out.append(_sum_identity(t + "|two_sum", "_two_sum", "TwoSumExact", [s, e], [x, y]))
            out.append(flag(t + "|two_sum:rn", "_two_sum", "TwoSumIsRoundedSum", s == x + y))
        except Exception as ex:  # noqa
            out.append(flag(t + "|two_sum", "_two_sum", "TwoSumExact", False, note="%s: %s" % (type(ex).__name__, str(ex)[:80])))
        big_, small = (x, y) if case["x_ge_y"] else (y, x)
        try:
            s, e = C._fast_two_sum(big_, small)
            out.append(_sum_identity(t + "|fast_two_sum", "_fast_two_sum", "FastTwoSumExact", [s, e], [x, y]))
            out.append(flag(t + "|fast_two_sum:rn", "_fast_two_sum", "FastTwoSumIsRoundedSum", s == x + y))
        except Exception as ex:  # noqa
            out.append(flag(t + "|fast_two_sum", "_fast_two_sum", "FastTwoSumExact", False, note="%s: %s" % (type(ex).__name__, str(ex)[:80])))
        if abs(big_) != abs(small):
            try:
                C._fast_two_sum(small, big_)
                out.append(flag(t + "|fast_two_sum:guard", "_fast_two_sum", "FastTwoSumGuardsPremise", False))
            except ValueError:
                out.append(flag(t + "|fast_two_sum:guard", "_fast_two_sum", "FastTwoSumGuardsPremise", True))
            except Exception:  # noqa
                out.append(flag(t + "|fast_two_sum:guard", "_fast_two_sum", "FastTwoSumGuardsPremise", False))
    if "two_prod" in todo:
        for fn in ("_two_prod_fma", "_fast_two_mult"):
            try:
                p, e = getattr(C, fn)(x, y)
                out.append(_prod_identity(t + "|" + fn, fn, "TwoProdExact", x, y, [p, e], scope=case["prod_scope"], shim=shim))
                out.append(flag(t + "|" + fn + ":rn", fn, "TwoProdIsRoundedProduct", p == x * y, shim=shim))
            except Exception as ex:  # noqa
                out.append(flag(t + "|" + fn, fn, "TwoProdExact", False, case["prod_scope"], note="%s: %s" % (type(ex).__name__, str(ex)[:80])))
    if "unary" in todo:
        try:
            hi, lo = C._split(x)
            out.append(_sum_identity(t + "|split", "_split", "SplitExact", [hi, lo], [x], scope=case["split_scope"]))
            for name, v in (("hi", hi), ("lo", lo)):
                f = Fr(v)
                if f != 0:
                    n = abs(f.numerator)
                    odd = n >> ((n & -n).bit_length() - 1)
                    out.append(rec(t + "|split:" + name, "_split", "SplitHalfWidth", "lt", [m1(1, odd)], [m1(1, 1 << 26)], case["split_scope"]))
                    iv, _ = ints([f])
                    out.append(rec(t + "|split:" + name + ":w", "_split", "SplitHalfWidth:witness", "eq", [m1(1, abs(iv[0]))], [m2(1, odd, abs(iv[0]) // odd)], case["split_scope"]))
        except Exception as ex:  # noqa
            out.append(flag(t + "|split", "_split", "SplitExact", False, case["split_scope"], note="%s: %s" % (type(ex).__name__, str(ex)[:80])))
        try:
            P, p = C._two_square(x)
            out.append(_prod_identity(t + "|two_square", "_two_square", "TwoSquareExact", x, x, [float(P), float(p)], scope=case["square_scope"]))
            out.append(flag(t + "|two_square:rn", "_two_square", "TwoSquareIsRoundedSquare", float(P) == x * x, case["square_scope"]))
        except Exception as ex:  # noqa
            out.append(flag(t + "|two_square", "_two_square", "TwoSquareExact", False, case["square_scope"], note="%s: %s" % (type(ex).__name__, str(ex)[:80])))
    if "triple" in todo:
        sc = case["fma_scope"]
        d = 1.0 + 2.0**-52
        try:
            r = C._fmms(x, y, z, d)
            exact = Fr(x) * Fr(y) - Fr(z) * Fr(d)
            out += _within_ulps(t + "|fmms", "_fmms", "FmmsWithin1p5Ulp", r, exact, 3, 2, sc, shim=shim)
        except Exception as ex:  # noqa
            out.append(flag(t + "|fmms", "_fmms", "FmmsWithin1p5Ulp", False, sc, note="%s: %s" % (type(ex).__name__, str(ex)[:80])))
        try:
            r0, r1, r2 = C._err_fmac(x, y, z)
            out.append(flag(t + "|err_fmac:ret", "_err_fmac", "ErrFmacReturns", True, sc))
            out.append(_prod_identity(t + "|err_fmac", "_err_fmac", "ErrFmacExact", x, y, [r0, r1, r2], extra_left=[z], scope=sc, shim=shim))
            out.append(flag(t + "|err_fmac:rn", "_err_fmac", "ErrFmacFirstIsFma", r0 == float(Fr(x) * Fr(y) + Fr(z)), sc))
        except Exception as ex:  # noqa
            out.append(flag(t + "|err_fmac:ret", "_err_fmac", "ErrFmacReturns", False, sc, note="%s: %s" % (type(ex).__name__, str(ex)[:80]), raised=type(ex).__name__))
    return out


# ----------------------------------------------------------------------------- vectors
def _err_class(got, exact):
    """Observed error class (information only): in ulps of the exact value."""
    if not finite(got):
        return "non-finite"
    exact = Fr(exact)
    if exact == 0:
        return "exact" if float(got) == 0.0 else "nonzero-for-zero"
    e = abs(Fr(got) - exact) / ulp_of(exact)
    if e == 0:
        return "exact"
    if e <= Fr(1, 2):
        return "<=0.5ulp"
    if e < 1:
        return "<1ulp"
    if e <= 2:
        return "<=2ulp"
    return ">2ulp"


def _isqrt_floor(n):
    return math.isqrt(n)


def vec_case(case):
    import numpy as np

    C, shim = computing()
    v = [to_float(f) for f in case["v"]]
    w = [to_float(f) for f in case["w"]]
    n = len(v)
    t = case["id"]
    out, info = [], {}
    a, bvec = np.array(v, dtype=float), np.array(w, dtype=float)
    # --- _vec_sum: |res - s| <= u|s| + n^2 u^2 SUM|p_i|   (Ogita-Rump-Oishi Sum2; gamma_{n-1}^2 <= n^2 u^2)
    try:
        res = float(C._vec_sum(a))
        s = sum(Fr(x) for x in v)
        S = sum(abs(Fr(x)) for x in v)
        if finite(res):
            iv, _ = ints([Fr(res), s, abs(s), S])
            g, x, ax, T = iv
            U = 1 << U_BITS
            for sg, tag in ((1, "/+"), (-1, "/-")):
                out.append(rec(t + "|vec_sum" + tag, "_vec_sum", "VecSumTwiceWorkingPrecision", "le",
                               [m2(sg, g, U * U), m2(-sg, x, U * U)], [m2(1, ax, U), m1(n * n, T)]))
            out.append(rec(t + "|vec_sum/abs", "_vec_sum", "VecSumTwiceWorkingPrecision:witness", "eq", [m1(1, ax)], [m1(1 if s >= 0 else -1, x)]))
        else:
            out.append(flag(t + "|vec_sum", "_vec_sum", "VecSumTwiceWorkingPrecision", False, note="non-finite"))
        info["_vec_sum"] = _err_class(res, s)
    except Exception as ex:  # noqa
        out.append(flag(t + "|vec_sum", "_vec_sum", "VecSumTwiceWorkingPrecision", False, note="%s: %s" % (type(ex).__name__, str(ex)[:80])))
    # --- dot_fma: |res - d| <= u|d| + n^2 u^2 cond |d|,  cond = 2 SUM|x_i y_i| / |d|   (docstring)
    try:
        res = float(C.dot_fma(a, bvec))
        dd = sum(Fr(x) * Fr(y) for x, y in zip(v, w))
        T_ = sum(abs(Fr(x) * Fr(y)) for x, y in zip(v, w))
        if finite(res):
            iv, _ = ints([Fr(res), dd, abs(dd), T_])
            g, x, ax, T = iv
            U = 1 << U_BITS
            for sg, tag in ((1, "/+"), (-1, "/-")):
                out.append(rec(t + "|dot_fma" + tag, "dot_fma", "DotFmaTwiceWorkingPrecision", "le",
                               [m2(sg, g, U * U), m2(-sg, x, U * U)], [m2(1, ax, U), m1(2 * n * n, T)], shim=shim))
            out.append(rec(t + "|dot_fma/abs", "dot_fma", "DotFmaTwiceWorkingPrecision:witness", "eq", [m1(1, ax)], [m1(1 if dd >= 0 else -1, x)]))
        else:
            out.append(flag(t + "|dot_fma", "dot_fma", "DotFmaTwiceWorkingPrecision", False, note="non-finite"))
        info["dot_fma"] = _err_class(res, dd)
    except Exception as ex:  # noqa
        out.append(flag(t + "|dot_fma", "dot_fma", "DotFmaTwiceWorkingPrecision", False, note="%s: %s" % (type(ex).__name__, str(ex)[:80])))
    # --- norms: faithful rounding of sqrt(Q), Q = SUM x_i^2:  pred(res)^2 < Q < succ(res)^2
    Q = sum(Fr(x) * Fr(x) for x in v)
    for fn in ("_norm_l", "_norm_faithful"):
        try:
            res = float(getattr(C, fn)(a))
            if Q == 0:
                out.append(flag(t + "|" + fn, fn, "NormFaithful", res == 0.0, note="zero vector: %r" % res))
                continue
            if not finite(res) or res <= 0:
                out.append(flag(t + "|" + fn, fn, "NormFaithful", False, note="result %r" % res))
                continue
            m, e = math.frexp(res)
            M, k = int(m * 2**53), e - 53          # res = M * 2^k, 2^52 <= M < 2^53
            kq = -scale_of([Q])                    # Q is an integer multiple of 2^kq
            j = min(k - 1, kq // 2 if kq % 2 == 0 else (kq - 1) // 2)
            Mj = M << (k - j)
            step = 1 << (k - j)
            lo_step = step // 2 if M == 1 << 52 else step
            Qs = Q / Fr(2) ** (2 * j)
            if Qs.denominator != 1:
                out.append(flag(t + "|" + fn, fn, "NormFaithful", False, note="scale"))
                continue
            Qs = int(Qs)
            out.append(rec(t + "|" + fn + "/lo", fn, "NormFaithful", "lt", [m2(1, Mj - lo_step, Mj - lo_step)], [m1(1, Qs)]))
            out.append(rec(t + "|" + fn + "/hi", fn, "NormFaithful", "lt", [m1(1, Qs)], [m2(1, Mj + step, Mj + step)]))
            # witnesses: M is a 53-bit significand and Mj = M * step
            out.append(rec(t + "|" + fn + "/w1", fn, "NormFaithful:witness", "le", [m1(1, 1 << 52)], [m1(1, M)]))
            out.append(rec(t + "|" + fn + "/w2", fn, "NormFaithful:witness", "lt", [m1(1, M)], [m1(1, 1 << 53)]))
            out.append(rec(t + "|" + fn + "/w3", fn, "NormFaithful:witness", "eq", [m1(1, Mj)], [m2(1, M, step)]))
        except Exception as ex:  # noqa
            out.append(flag(t + "|" + fn, fn, "NormFaithful", False, note="%s: %s" % (type(ex).__name__, str(ex)[:80])))
    # --- information only: functions whose docstring states no bound
    sq = None
    if Q > 0:
        # reference for sqrt(Q) to 300 bits (classification only)
        sq = Fr(math.isqrt((Q.numerator << 600) // Q.denominator), 1 << 300)
    for fn, exact in (("_norm_g", sq), ("_sum_of_squares_re", Q), ("_comp_prod_fma", math.prod(Fr(x) for x in v))):
        try:
            res = float(getattr(C, fn)(a))
            info[fn] = _err_class(res, exact) if exact is not None else ("exact" if res == 0.0 else "nonzero-for-zero" if finite(res) else "non-finite")
        except Exception as ex:  # noqa
            info[fn] = "raises " + type(ex).__name__
    if Q > 0:
        try:
            S_, s_ = C._two_sum(float(Q), float(Q - Fr(float(Q))))
            info["_acc_sqrt"] = _err_class(float(C._acc_sqrt(S_, s_)), sq)
        except Exception as ex:  # noqa
            info["_acc_sqrt"] = "raises " + type(ex).__name__
    # --- the documented input type: "list of float"
    for fn in ("_norm_l", "_norm_faithful", "_norm_g", "_sum_of_squares_re", "_vec_sum", "_comp_prod_fma"):
        if case.get("list_input"):
            try:
                r1 = float(getattr(C, fn)(list(v)))
                r2 = float(getattr(C, fn)(a))
                out.append(flag(t + "|" + fn + ":list", fn, "AcceptsListOfFloat", r1 == r2 or (r1 != r1 and r2 != r2)))
            except Exception as ex:  # noqa
                out.append(flag(t + "|" + fn + ":list", fn, "AcceptsListOfFloat", False, note="%s: %s" % (type(ex).__name__, str(ex)[:80])))
    # --- thin wrappers and cross_fma
    try:
        ok = float(C.dot(a, bvec)) == float(np.dot(a, bvec))
        ok = ok and bool(C.all(a == a)) == bool(np.all(a == a))
        ok = ok and bool(C.allclose(a, bvec)) == bool(np.allclose(a, bvec)) and bool(np.array_equal(C.isclose(a, bvec), np.isclose(a, bvec)))
        if n == 3:
            ok = ok and bool(np.array_equal(C.cross(a, bvec), np.cross(a, bvec)))
        out.append(flag(t + "|wrappers", "wrappers", "WrapperIsNumpy", ok))
        # numba's norm goes through BLAS nrm2 and may differ from numpy's sqrt(dot) in the last place
        out += _within_ulps(t + "|norm", "norm", "WrapperNormNearNumpy", float(C.norm(a)), Fr(float(np.linalg.norm(a))), 4, 1)
    except Exception as ex:  # noqa
        out.append(flag(t + "|wrappers", "wrappers", "WrapperIsNumpy", False, note="%s: %s" % (type(ex).__name__, str(ex)[:80])))
    if n == 3:
        try:
            cr = C.cross_fma(a, bvec)
            ex_ = [Fr(v[1]) * Fr(w[2]) - Fr(v[2]) * Fr(w[1]), Fr(v[2]) * Fr(w[0]) - Fr(v[0]) * Fr(w[2]), Fr(v[0]) * Fr(w[1]) - Fr(v[1]) * Fr(w[0])]
            for q in range(3):
                out += _within_ulps(t + "|cross_fma:%d" % q, "cross_fma", "CrossFmaWithin1p5Ulp", float(cr[q]), ex_[q], 3, 2, shim=shim)
        except Exception as ex:  # noqa
            out.append(flag(t + "|cross_fma", "cross_fma", "CrossFmaWithin1p5Ulp", False, note="%s: %s" % (type(ex).__name__, str(ex)[:80])))
    return {"records": out, "info": info, "id": t}

"""The concrete operation alphabet of the Grid state machine (GridLazy.tla), bound to the
real public API.

* SOURCES      named grid sources; `open_source(name)` builds a brand-new Grid from it
* OPS          {op_id: Op}: a callable on a Grid plus the abstract description
               (action name and argument record) that the TLA+ machine uses
* fingerprint  canonical, comparable projection of any returned value
* Reference    per-process store of the value a freshly opened grid returns for an op
* project      projection of a live Grid onto the abstract state of GridLazy.tla

No uxarray helper is used to *decide* anything here: values are compared with values the
same public call returns on a fresh grid (that comparison is what C08 is about)."""

from __future__ import annotations

import hashlib
import os

import numpy as np

from . import catalog, lattice
from . import ux as hux

# ----------------------------------------------------------------------------- sources


def _cat(name, rot=0, cut=0):
    es = catalog.entries(name=name, rot=rot, cut=cut)
    if not es:
        raise KeyError((name, rot, cut))
    return es[0]


def _lonlat(nodes):
    ll = [lattice.lonlat_deg(v) for v in nodes]
    return np.array([p[0] for p in ll], dtype=float), np.array([p[1] for p in ll], dtype=float)


def _src_topology(name, rot, cut):
    def make():
        ux = hux.import_ux()
        e = _cat(name, rot, cut)
        lon, lat = _lonlat(e["nodes"])
        conn = hux.pad_table(e["faces"])
        return ux.Grid.from_topology(lon, lat, conn, fill_value=hux.consts()[1])

    return make


def _src_vertices_xyz(name, rot, cut):
    def make():
        ux = hux.import_ux()
        e = _cat(name, rot, cut)
        w = max(len(f) for f in e["faces"])
        if any(len(f) != w for f in e["faces"]):
            raise ValueError("xyz face-vertex source needs uniform faces")
        verts = np.array([[lattice.unit(e["nodes"][n]) for n in f] for f in e["faces"]], dtype=float)
        return ux.Grid.from_face_vertices(verts, latlon=False)

    return make


def _src_ugrid_with_edges(name, rot, cut):
    """In-memory UGRID dataset that ships its own edge_node_connectivity (in an order of its
    own) and 0..360 longitudes."""

    def make():
        import xarray as xr

        ux = hux.import_ux()
        e = _cat(name, rot, cut)
        lon, lat = _lonlat(e["nodes"])
        lon = np.where(lon < 0, lon + 360.0, lon)
        conn = hux.pad_table(e["faces"], fill=-1).astype(np.int32)
        edges = sorted({(min(f[i], f[(i + 1) % len(f)]), max(f[i], f[(i + 1) % len(f)])) for f in e["faces"] for i in range(len(f))}, reverse=True)
        ds = xr.Dataset()
        ds["Mesh2"] = xr.DataArray(
            -1,
            attrs={
                "cf_role": "mesh_topology",
                "topology_dimension": 2,
                "node_coordinates": "Mesh2_node_x Mesh2_node_y",
                "face_node_connectivity": "Mesh2_face_nodes",
                "edge_node_connectivity": "Mesh2_edge_nodes",
                "face_dimension": "nMesh2_face",
                "node_dimension": "nMesh2_node",
                "edge_dimension": "nMesh2_edge",
            },
        )
        ds["Mesh2_node_x"] = xr.DataArray(lon, dims=["nMesh2_node"], attrs={"standard_name": "longitude", "units": "degrees_east"})
        ds["Mesh2_node_y"] = xr.DataArray(lat, dims=["nMesh2_node"], attrs={"standard_name": "latitude", "units": "degrees_north"})
        ds["Mesh2_face_nodes"] = xr.DataArray(
            conn, dims=["nMesh2_face", "nMaxMesh2_face_nodes"], attrs={"cf_role": "face_node_connectivity", "start_index": 0, "_FillValue": -1}
        )
        ds["Mesh2_edge_nodes"] = xr.DataArray(
            np.array(edges, dtype=np.int32), dims=["nMesh2_edge", "Two"], attrs={"cf_role": "edge_node_connectivity", "start_index": 0}
        )
        return ux.open_grid(ds)

    return make


def _src_file(rel):
    def make():
        ux = hux.import_ux()
        return ux.open_grid(os.path.join(hux.REPO, "test", "meshfiles", rel))

    return make


SOURCES = {
    # mixed 3/4-gons, closed, rotated so that no face encloses a pole and some cross the antimeridian
    "cubo": _src_topology("cuboctahedron", 7, 0),
    # partial grid with boundary edges (every 3rd face dropped), mixed 4/6-gons
    "trocto_cut": _src_topology("truncated_octahedron", 3, 3),
    # xyz-only source (node lon/lat must be derived)
    "cube_xyz": _src_vertices_xyz("cube", 5, 0),
    # UGRID dataset with its own names, 0..360 longitudes and its own edge table
    "ugrid_edges": _src_ugrid_with_edges("rhombic_dodecahedron", 2, 0),
    # sample file: 4 faces (quad + hexagons), ships nothing but the minimum
    "quadhex": _src_file("ugrid/quad-hexagon/grid.nc"),
    # larger, pole-enclosing faces present (Grid.bounds known to assert there)
    "tetrakis": _src_topology("tetrakis_cube", 0, 0),
}

_INPUT_SNAP = {}


def open_source(name):
    return SOURCES[name]()


# ----------------------------------------------------------------------------- fingerprints
FLOAT_RTOL = 1e-12
FLOAT_ATOL = 1e-12


class FP:
    """Comparable projection of a value: a nested structure of tuples with numpy arrays at the leaves."""

    __slots__ = ("kind", "items")

    def __init__(self, kind, items):
        self.kind = kind
        self.items = items

    def __repr__(self):
        return "FP(%s, %d items)" % (self.kind, len(self.items))


def _arr(a):
    a = np.asarray(a)
    if a.dtype == object:
        a = np.array([repr(x) for x in a.ravel()])
    return a


def fp_equal(a, b, path=""):
    """-> (equal, where)"""
    if isinstance(a, FP) and isinstance(b, FP):
        if a.kind != b.kind:
            return False, path + ":kind %s != %s" % (a.kind, b.kind)
        if len(a.items) != len(b.items):
            return False, path + ":%s length %d != %d" % (a.kind, len(a.items), len(b.items))
        for k, (x, y) in enumerate(zip(a.items, b.items)):
            ok, w = fp_equal(x, y, path + "/%s[%d]" % (a.kind, k))
            if not ok:
                return ok, w
        return True, ""
    if isinstance(a, FP) or isinstance(b, FP):
        return False, path + ":structure"
    if isinstance(a, np.ndarray) and isinstance(b, np.ndarray):
        if a.shape != b.shape:
            return False, path + ":shape %s != %s" % (a.shape, b.shape)
        if a.dtype.kind in "fc" or b.dtype.kind in "fc":
            # equal values in float32 and float64 are equal values; the kind must agree
            if a.dtype.kind != b.dtype.kind:
                return False, path + ":dtype %s != %s" % (a.dtype, b.dtype)
            ok = np.allclose(a, b, rtol=FLOAT_RTOL, atol=FLOAT_ATOL, equal_nan=True)
            return bool(ok), ("" if ok else path + ":values differ (max abs %.3g)" % float(np.nanmax(np.abs(a - b))) if a.size else "")
        if a.dtype != b.dtype:
            return False, path + ":dtype %s != %s" % (a.dtype, b.dtype)
        ok = bool(np.array_equal(a, b))
        return ok, ("" if ok else path + ":values differ")
    if isinstance(a, (tuple, list)) and isinstance(b, (tuple, list)):
        if len(a) != len(b):
            return False, path + ":len"
        for k, (x, y) in enumerate(zip(a, b)):
            ok, w = fp_equal(x, y, path + "[%d]" % k)
            if not ok:
                return ok, w
        return True, ""
    ok = a == b
    return bool(ok), ("" if ok else path + ":%r != %r" % (a, b))


HELPER_ATTRS = {"inverse_indices", "fill_value_mask", "latitude_intervalsIndex", "latitude_intervals_name_map"}


def _fp_dataarray(da):
    vals = _arr(da.values)
    attrs = tuple(sorted((k, repr(v)) for k, v in da.attrs.items() if k not in HELPER_ATTRS))
    return FP("da", [tuple(da.dims), vals, attrs])


# wall-clock content of an export (the Exodus encoder stamps date and time)
VOLATILE_VARS = {"qa_records"}


def _fp_dataset(ds, skip=()):
    names = sorted(str(n) for n in ds.variables if n not in skip and str(n) not in VOLATILE_VARS)
    return FP("ds", [tuple(names)] + [_fp_dataarray(ds[n]) for n in names])


def _fp_grid(g):
    """A derived grid (subset, dual, copy): its defining variables."""
    return FP(
        "grid",
        [
            (int(g.n_node), int(g.n_face)),
            _arr(g.face_node_connectivity.values),
            _arr(g.node_lon.values),
            _arr(g.node_lat.values),
            tuple(sorted(str(v) for v in g._ds.variables if str(v).startswith("subgrid_"))),
        ]
        + [_arr(g._ds[v].values) for v in sorted(str(v) for v in g._ds.variables if str(v).startswith("subgrid_"))]
        + _fp_panel(g),
    )


# what a derived grid (subset, dual, cross-section) answers when asked: whatever state it inherited
# from a source that had been used before must not show in any of these
DERIVED_PANEL = (
    "n_nodes_per_face",
    "edge_node_connectivity",
    "face_edge_connectivity",
    "edge_face_connectivity",
    "face_face_connectivity",
    "node_face_connectivity",
    "hole_edge_indices",
    "node_x",
    "face_lon",
    "face_x",
    "edge_lon",
    "edge_node_distances",
    "edge_face_distances",
    "face_areas",
)


def _fp_panel(g):
    out = []
    for name in DERIVED_PANEL:
        try:
            v = getattr(g, name)
            out.append((name, _fp_dataarray(v) if hasattr(v, "dims") else _arr(np.asarray(v))))
        except Exception as e:  # noqa: some derived grids cannot answer (open boundary, degenerate faces): the same either way
            out.append((name, "raises", type(e).__name__))
    return out


def _fp_gdf(gdf):
    cols = [str(c) for c in gdf.columns]
    geoms = gdf["geometry"]
    out = []
    try:
        import shapely

        if hasattr(geoms, "values") and len(geoms) and hasattr(geoms.values[0], "exterior"):
            for p in geoms.values:
                out.append(np.asarray(shapely.get_coordinates(p), dtype=float))
        else:
            raise TypeError
    except TypeError:
        # spatialpandas
        arr = geoms.values
        for i in range(len(arr)):
            p = arr[i]
            out.append(np.asarray(p.data.as_py() if hasattr(p.data, "as_py") else p.data, dtype=object).astype(str))
    data = []
    for c in cols:
        if c != "geometry":
            data.append((c, _arr(np.asarray(gdf[c]))))
    return FP("gdf", [tuple(cols), len(out)] + out + data)


def _fp_polycollection(pc):
    paths = pc.get_paths()
    return FP("poly", [len(paths)] + [np.asarray(p.vertices, dtype=float) for p in paths])


def _fp_linecollection(lc):
    segs = lc.get_segments()
    return FP("line", [len(segs)] + [np.asarray(s, dtype=float) for s in segs])


# a fixed panel of query points (lon, lat degrees) used to observe trees behaviourally
PANEL = [(0.0, 0.0), (179.0, 10.0), (-179.0, -10.0), (45.0, 89.0), (-120.0, -60.0), (90.0, 35.0)]


def _fp_tree(tree):
    key = (str(tree._coordinates), str(tree.coordinate_system), str(tree.distance_metric))
    res = []
    for lon, lat in PANEL:
        if tree.coordinate_system == "spherical":
            q = [lon, lat]
        else:
            q = list(lattice.xyz_of_lonlat_deg(lon, lat))
        d, ind = tree.query(q, k=2)
        res.append(np.asarray(ind).astype(np.int64).ravel())
        res.append(np.asarray(d, dtype=float).ravel())
    return FP("tree", [key] + res)


def fingerprint(v):
    import xarray as xr

    if v is None or isinstance(v, (bool, int, float, str)):
        return v
    if isinstance(v, (np.generic,)):
        return v.item()
    if isinstance(v, np.ndarray):
        return _arr(v)
    if isinstance(v, xr.DataArray):
        return _fp_dataarray(v)
    if isinstance(v, xr.Dataset):
        return _fp_dataset(v)
    if isinstance(v, (tuple, list)):
        return FP("tuple", [fingerprint(x) for x in v])
    if isinstance(v, (set, frozenset)):
        return tuple(sorted(str(x) for x in v))
    if isinstance(v, dict):
        return FP("dict", [tuple(sorted(map(str, v)))] + [fingerprint(v[k]) for k in sorted(v, key=str)])
    cls = type(v).__name__
    if cls == "Grid":
        return _fp_grid(v)
    if cls in ("BallTree", "KDTree"):
        return _fp_tree(v)
    if cls == "GeoDataFrame":
        return _fp_gdf(v)
    if cls == "PolyCollection":
        return _fp_polycollection(v)
    if cls == "LineCollection":
        return _fp_linecollection(v)
    if cls in ("UxDataArray",):
        return _fp_dataarray(v)
    return ("repr", cls, repr(v)[:200])


# ----------------------------------------------------------------------------- operations
class Op:
    __slots__ = ("id", "action", "args", "fn", "reads")

    def __init__(self, id, action, args, fn):
        self.id = id
        self.action = action  # action name of GridLazy.tla
        self.args = args  # record of abstract arguments (strings / bools / ints)
        self.fn = fn  # callable(grid) -> value


LAZY_ATTRS = [
    "n_nodes_per_face",
    "edge_node_connectivity",
    "n_edge",
    "face_edge_connectivity",
    "edge_face_connectivity",
    "face_face_connectivity",
    "node_face_connectivity",
    "hole_edge_indices",
    "node_lon",
    "node_lat",
    "node_x",
    "node_z",
    "face_lon",
    "face_lat",
    "face_x",
    "face_z",
    "edge_lon",
    "edge_x",
    "edge_node_z",
    "face_areas",
    "face_jacobian",
    "bounds",
    "edge_node_distances",
    "edge_face_distances",
    "antimeridian_face_indices",
    "n_max_face_edges",
    "n_max_node_faces",
    "n_max_face_faces",
    "face_node_connectivity",
    "n_max_face_nodes",
]

AREA_ARGS = [("triangular", 4, True), ("triangular", 1, True), ("gaussian", 4, True), ("gaussian", 8, True), ("triangular", 8, False), ("gaussian", 2, False)]

_PROJ = {}


def projection(name):
    if name == "none":
        return None
    if name not in _PROJ:
        import cartopy.crs as ccrs

        _PROJ[name] = {"robinson": ccrs.Robinson(), "robinson180": ccrs.Robinson(central_longitude=180), "pc180": ccrs.PlateCarree(central_longitude=180)}[name]
    return _PROJ[name]


def _mk_ops():
    ops = {}

    def add(id, action, args, fn):
        ops[id] = Op(id, action, args, fn)

    for a in LAZY_ATTRS:
        add("get:" + a, "Access", {"v": a}, (lambda g, a=a: getattr(g, a)))
    for rule, order, latlon in AREA_ARGS:
        add(
            "areas:%s:%d:%s" % (rule, order, "ll" if latlon else "xyz"),
            "ComputeAreas",
            {"rule": rule, "order": order, "latlon": latlon},
            (lambda g, r=rule, o=order, l=latlon: g.compute_face_areas(r, o, l)),
        )
    add("total:gaussian:3", "TotalArea", {"rule": "gaussian", "order": 3}, lambda g: g.calculate_total_face_area("gaussian", 3))
    for fmt in ("ugrid", "exodus", "scrip"):
        add("export:" + fmt, "ToXarray", {"fmt": fmt}, (lambda g, f=fmt: g.to_xarray(f)))
    for pe in ("exclude", "split", "ignore"):
        for proj in ("none", "robinson"):
            if pe == "split" and proj != "none":
                continue
            for eng in ("spatialpandas", "geopandas"):
                add(
                    "gdf:%s:%s:%s" % (pe, proj, eng),
                    "ToGdf",
                    {"pe": pe, "proj": proj, "eng": eng, "cache": True, "override": False},
                    (lambda g, pe=pe, proj=proj, eng=eng: g.to_geodataframe(periodic_elements=pe, projection=projection(proj), engine=eng)),
                )
            add(
                "poly:%s:%s" % (pe, proj),
                "ToPoly",
                {"pe": pe, "proj": proj, "cache": True, "override": False},
                (lambda g, pe=pe, proj=proj: g.to_polycollection(periodic_elements=pe, projection=projection(proj))),
            )
            add(
                "line:%s:%s" % (pe, proj),
                "ToLine",
                {"pe": pe, "proj": proj, "cache": True, "override": False},
                (lambda g, pe=pe, proj=proj: g.to_linecollection(periodic_elements=pe, projection=projection(proj))),
            )
    # cache / override flag variants
    add(
        "gdf:exclude:none:geopandas:nocache",
        "ToGdf",
        {"pe": "exclude", "proj": "none", "eng": "geopandas", "cache": False, "override": False},
        lambda g: g.to_geodataframe(periodic_elements="exclude", engine="geopandas", cache=False),
    )
    add(
        "gdf:ignore:none:geopandas:override",
        "ToGdf",
        {"pe": "ignore", "proj": "none", "eng": "geopandas", "cache": True, "override": True},
        lambda g: g.to_geodataframe(periodic_elements="ignore", engine="geopandas", override=True),
    )
    add(
        "poly:ignore:robinson:nocache",
        "ToPoly",
        {"pe": "ignore", "proj": "robinson", "cache": False, "override": False},
        lambda g: g.to_polycollection(periodic_elements="ignore", projection=projection("robinson"), cache=False),
    )
    add(
        "poly:exclude:none:indices",
        "ToPoly",
        {"pe": "exclude", "proj": "none", "cache": True, "override": False},
        lambda g: g.to_polycollection(periodic_elements="exclude", return_indices=True),
    )
    add(
        "line:ignore:robinson:nocache",
        "ToLine",
        {"pe": "ignore", "proj": "robinson", "cache": False, "override": False},
        lambda g: g.to_linecollection(periodic_elements="ignore", projection=projection("robinson"), cache=False),
    )
    add(
        "line:exclude:none:override",
        "ToLine",
        {"pe": "exclude", "proj": "none", "cache": True, "override": True},
        lambda g: g.to_linecollection(periodic_elements="exclude", override=True),
    )
    kinds = {"nodes": "nodes", "faces": "face centers", "edges": "edge centers"}
    for kshort, kind in kinds.items():
        for sys_, metric_b, metric_k in (("spherical", "haversine", "minkowski"), ("cartesian", "minkowski", "minkowski")):
            for rec in (False, True):
                add(
                    "ball:%s:%s:%s" % (kshort, sys_, "re" if rec else "keep"),
                    "GetBallTree",
                    {"kind": kshort, "sys": sys_, "metric": metric_b, "reconstruct": rec},
                    (lambda g, kind=kind, s=sys_, m=metric_b, r=rec: g.get_ball_tree(kind, coordinate_system=s, distance_metric=m, reconstruct=r)),
                )
                add(
                    "kd:%s:%s:%s" % (kshort, sys_, "re" if rec else "keep"),
                    "GetKdTree",
                    {"kind": kshort, "sys": sys_, "metric": metric_k, "reconstruct": rec},
                    (lambda g, kind=kind, s=sys_, m=metric_k, r=rec: g.get_kd_tree(kind, coordinate_system=s, distance_metric=m, reconstruct=r)),
                )
    add("chunk", "Chunk", {}, lambda g: g.chunk(n_node=2, n_edge=3, n_face=2))
    add("isel:face", "Isel", {"dim": "n_face"}, lambda g: g.isel(n_face=[2, 0, 1]))
    add("isel:node", "Isel", {"dim": "n_node"}, lambda g: g.isel(n_node=[1, 3]))
    add("isel:edge", "Isel", {"dim": "n_edge"}, lambda g: g.isel(n_edge=[0, 2]))
    add("subset:bbox", "Subset", {"how": "bbox"}, lambda g: g.subset.bounding_box((-100.0, 100.0), (-50.0, 80.0), element="nodes"))
    add("subset:circle", "Subset", {"how": "circle"}, lambda g: g.subset.bounding_circle((30.0, 20.0), 70.0, element="face centers"))
    add("subset:nn", "Subset", {"how": "nn"}, lambda g: g.subset.nearest_neighbor((-60.0, -30.0), k=3, element="nodes"))
    add("xsec:lat", "CrossSection", {"lat": 12}, lambda g: g.cross_section.constant_latitude(12.5))
    add("faces_at_lat", "FacesAtLat", {"lat": -20}, lambda g: g.get_faces_at_constant_latitude(-20.25))
    add("dual", "GetDual", {}, lambda g: g.get_dual())
    add("copy", "Copy", {}, lambda g: g.copy())
    add("repr", "Repr", {}, lambda g: ("len", len(repr(g)) > 0))
    add("validate", "Validate", {}, lambda g: g.validate())
    add("sizes", "Sizes", {}, lambda g: dict(g.sizes))
    return ops


OPS = _mk_ops()

# read-only alphabet of C08 (every op above is read-only by the property's definition)
READ_OPS = sorted(OPS)

# a reduced alphabet for the quick tier: one representative per cache plus every lazy attribute
QUICK_OPS = sorted(
    [o for o in OPS if o.startswith("get:")]
    + [
        "areas:gaussian:4:ll",
        "areas:triangular:8:xyz",
        "total:gaussian:3",
        "export:ugrid",
        "export:exodus",
        "export:scrip",
        "gdf:exclude:none:geopandas",
        "gdf:ignore:robinson:geopandas",
        "gdf:split:none:spatialpandas",
        "poly:exclude:none",
        "poly:ignore:robinson",
        "line:exclude:none",
        "line:exclude:robinson",
        "line:split:none",
        "ball:nodes:spherical:keep",
        "ball:faces:cartesian:keep",
        "ball:edges:spherical:re",
        "kd:nodes:cartesian:keep",
        "kd:faces:spherical:keep",
        "chunk",
        "isel:face",
        "isel:node",
        "subset:bbox",
        "xsec:lat",
        "dual",
        "copy",
        "repr",
    ]
)


class Outcome:
    __slots__ = ("raised", "fp", "err", "value")

    def __init__(self, raised, fp, err, value=None):
        self.raised = raised
        self.fp = fp
        self.err = err
        self.value = value


def run_op(grid, op_id, keep_value=False):
    op = OPS[op_id]
    try:
        import io
        import contextlib

        with contextlib.redirect_stdout(io.StringIO()):
            v = op.fn(grid)
        return Outcome(False, fingerprint(v), None, v if keep_value else None)
    except Exception as e:  # noqa: the outcome class is part of the observation
        return Outcome(True, None, "%s: %s" % (type(e).__name__, str(e)[:160]))


# ----------------------------------------------------------------------------- templates
def template_snapshot():
    """Deep snapshot (repr) of every module-level dict/list in uxarray.conventions.* and constants."""
    import importlib

    snap = {}
    for modname in ("uxarray.conventions.ugrid", "uxarray.conventions.descriptors", "uxarray.constants"):
        mod = importlib.import_module(modname)
        for k, v in vars(mod).items():
            if k.startswith("__"):
                continue
            if isinstance(v, (dict, list, tuple, set, int, float, str)) or type(v).__module__ == "numpy":
                snap[modname.split(".")[-1] + "." + k] = _trepr(v)
    return snap


def _trepr(v):
    if isinstance(v, dict):
        return "{" + ",".join("%r:%s" % (k, _trepr(x)) for k, x in v.items()) + "}"
    if isinstance(v, np.ndarray):
        return "nd" + hashlib.sha1(v.tobytes()).hexdigest()[:12] + str(v.shape)
    return repr(v)


_TEMPLATE0 = None


def templates_changed():
    """Names of module-level constants that differ from their import-time value."""
    global _TEMPLATE0
    if _TEMPLATE0 is None:
        raise RuntimeError("call templates_init() right after importing uxarray")
    now = template_snapshot()
    return sorted(k for k in set(now) | set(_TEMPLATE0) if now.get(k) != _TEMPLATE0.get(k))


def templates_init():
    global _TEMPLATE0
    hux.import_ux()
    if _TEMPLATE0 is None:
        _TEMPLATE0 = template_snapshot()
        _TEMPLATE_OBJS.update(_template_objects())


_TEMPLATE_OBJS = {}


def _template_objects():
    import copy
    import importlib

    out = {}
    for modname in ("uxarray.conventions.ugrid", "uxarray.conventions.descriptors"):
        mod = importlib.import_module(modname)
        for k, v in vars(mod).items():
            if isinstance(v, (dict, list)) and not k.startswith("__"):
                out[(modname, k)] = copy.deepcopy(v)
    return out


def templates_restore():
    """Put module-level dicts/lists back to their import-time contents (in place)."""
    import copy
    import importlib

    for (modname, k), v in _TEMPLATE_OBJS.items():
        mod = importlib.import_module(modname)
        cur = getattr(mod, k)
        if isinstance(cur, dict):
            cur.clear()
            cur.update(copy.deepcopy(v))
        elif isinstance(cur, list):
            cur[:] = copy.deepcopy(v)


# ----------------------------------------------------------------------------- reference
class Reference:
    """What a freshly opened grid of a source returns for an op (one brand-new grid per op)."""

    def __init__(self):
        self._op = {}
        self._var = {}

    def op(self, source, op_id):
        key = (source, op_id)
        if key not in self._op:
            templates_restore()
            g = open_source(source)
            self._op[key] = run_op(g, op_id)
            templates_restore()
        return self._op[key]

    def var(self, source, name):
        """Fresh value of the variable `name` of Grid._ds (through the public attribute of the same name)."""
        key = (source, name)
        if key not in self._var:
            templates_restore()
            g = open_source(source)
            try:
                if name in g._ds.variables and not hasattr(type(g), name):
                    v = g._ds[name]
                else:
                    v = getattr(g, name)
                self._var[key] = Outcome(False, fingerprint(v), None)
            except Exception as e:  # noqa
                self._var[key] = Outcome(True, None, "%s: %s" % (type(e).__name__, str(e)[:160]))
            templates_restore()
        return self._var[key]


REF = Reference()

# variables that are bookkeeping of an export/slice, not derived quantities with a fresh value
UNJUDGED_VARS = {"grid_topology"}


# ----------------------------------------------------------------------------- projection
def _tree_key(t):
    if t is None:
        return None
    built = []
    for k, attr in (("nodes", "_tree_from_nodes"), ("faces", "_tree_from_face_centers"), ("edges", "_tree_from_edge_centers")):
        if getattr(t, attr, None) is not None:
            built.append(k)
    co = getattr(t, "_coordinates", None)
    kind = {"nodes": "nodes", "face centers": "faces", "edge centers": "edges"}.get(co, str(co))
    return {"kind": kind, "sys": str(getattr(t, "coordinate_system", None)), "metric": str(getattr(t, "distance_metric", None)), "built": built, "id": id(t) % 100000}


def _proj_name(p):
    if p is None:
        return "none"
    for k, v in _PROJ.items():
        if v is p or v == p:
            return k
    return "other"


def project(grid, source=None, judge_vars=True, digests=None):
    """Abstract state of one Grid for GridLazy.tla.

    judge_vars: compare every variable stored in Grid._ds with the value a fresh grid of
    `source` reports for it; the names that differ go to `bad`."""
    ds = grid._ds
    store = sorted(str(v) for v in ds.variables)
    bad = []
    detail = {}
    if judge_vars and source is not None:
        for name in store:
            if name in UNJUDGED_VARS or name.startswith("subgrid_"):
                continue
            try:
                cur = _fp_dataarray(ds[name])
            except Exception as e:  # noqa
                bad.append(name)
                detail[name] = "unreadable: %s" % e
                continue
            if digests is not None:
                dg = _digest(cur)
                if digests.get(name) == dg:
                    continue
            ref = REF.var(source, name)
            if ref.raised:
                # a fresh grid cannot produce this variable at all: nothing to compare with
                continue
            ok, where = fp_equal(cur, ref.fp)
            if not ok:
                bad.append(name)
                detail[name] = where
            elif digests is not None:
                digests[name] = dg
    chunked = sorted(str(v) for v in ds.variables if hasattr(ds[v].data, "dask"))
    # the cache slots are private and descriptive only (reported as drift, never judged): a tree that renames
    # or moves them must not break the projection
    _none = {"gdf": None, "poly_collection": None, "line_collection": None}
    gp = getattr(grid, "_gdf_cached_parameters", None) or _none
    pp = getattr(grid, "_poly_collection_cached_parameters", None) or _none
    lp = getattr(grid, "_line_collection_cached_parameters", None) or _none
    st = {
        "store": store,
        "bad": sorted(bad),
        "ball": _tree_key(getattr(grid, "_ball_tree", None)),
        "kd": _tree_key(getattr(grid, "_kd_tree", None)),
        "gdf": None if gp.get("gdf") is None else {"pe": str(gp["periodic_elements"]), "proj": _proj_name(gp["projection"]), "eng": str(gp["engine"]), "id": id(gp["gdf"]) % 100000},
        "poly": None if pp.get("poly_collection") is None else {"pe": str(pp["periodic_elements"]), "proj": _proj_name(pp["projection"])},
        "line": None if lp.get("line_collection") is None else {"pe": str(lp["periodic_elements"]), "proj": _proj_name(lp["projection"]), "id": id(lp["line_collection"]) % 100000},
        "am": getattr(grid, "_antimeridian_face_indices", None) is not None,
        "jac": getattr(grid, "_face_jacobian", None) is not None,
        "chunked": chunked,
        "ds": id(ds) % 100000,
    }
    return st, detail


def _digest(fp):
    h = hashlib.sha1()

    def rec(x):
        if isinstance(x, FP):
            h.update(x.kind.encode())
            for y in x.items:
                rec(y)
        elif isinstance(x, np.ndarray):
            h.update(str(x.dtype).encode() + str(x.shape).encode() + np.ascontiguousarray(x).tobytes())
        elif isinstance(x, (tuple, list)):
            for y in x:
                rec(y)
        else:
            h.update(repr(x).encode())

    rec(fp)
    return h.hexdigest()


# ----------------------------------------------------------------------------- constructor inputs (C19)
def _input_snapshot(obj):
    """Deep, comparable snapshot of a constructor input (array, list, dict, Dataset)."""
    import copy

    import xarray as xr

    if isinstance(obj, np.ndarray):
        return ("nd", str(obj.dtype), obj.shape, obj.tobytes())
    if isinstance(obj, xr.Dataset):
        return (
            "ds",
            repr(sorted(obj.attrs.items(), key=lambda kv: str(kv[0]))),
            tuple(sorted(str(d) for d in obj.dims)),
            tuple(
                (str(n), tuple(obj[n].dims), str(obj[n].dtype), np.asarray(obj[n].values).tobytes(), repr(sorted(obj[n].attrs.items(), key=lambda kv: str(kv[0]))))
                for n in sorted(obj.variables, key=str)
            ),
        )
    return ("py", repr(copy.deepcopy(obj)))


def _topo_inputs(name, rot, cut, container, fill, start_index, extra=False):
    e = _cat(name, rot, cut)
    lon, lat = _lonlat(e["nodes"])
    INT_DTYPE, FILL = hux.consts()
    fv = {"std": FILL, "m1": -1, "none": None}[fill]
    w = max(len(f) for f in e["faces"])
    if fv is None and any(len(f) != w for f in e["faces"]):
        raise ValueError("no fill value needs uniform faces")
    conn = np.full((len(e["faces"]), w), 0 if fv is None else fv, dtype=INT_DTYPE)
    for i, f in enumerate(e["faces"]):
        conn[i, : len(f)] = np.array(f) + start_index
    if container == "list":
        # coordinate lists; from_topology documents the connectivity as an ndarray
        return {"node_lon": lon.tolist(), "node_lat": lat.tolist(), "face_node_connectivity": conn}, fv
    return {"node_lon": lon.copy(), "node_lat": lat.copy(), "face_node_connectivity": conn}, fv


def _tracked_topology(name, rot, cut, container, fill, start_index):
    def make():
        ux = hux.import_ux()
        inp, fv = _topo_inputs(name, rot, cut, container, fill, start_index)
        return inp, lambda: ux.Grid.from_topology(inp["node_lon"], inp["node_lat"], inp["face_node_connectivity"], fill_value=fv, start_index=start_index)

    return make


def _tracked_vertices(name, rot, cut, container, latlon):
    def make():
        ux = hux.import_ux()
        e = _cat(name, rot, cut)
        if latlon:
            verts = [[list(lattice.lonlat_deg(e["nodes"][n])) for n in f] for f in e["faces"]]
        else:
            verts = [[list(lattice.unit(e["nodes"][n])) for n in f] for f in e["faces"]]
        if container == "nd":
            verts = np.array(verts, dtype=float)
        return {"face_vertices": verts}, lambda: ux.Grid.from_face_vertices(verts, latlon=latlon)

    return make


def _tracked_dataset(name, rot, cut):
    def make():
        import xarray as xr

        ux = hux.import_ux()
        e = _cat(name, rot, cut)
        lon, lat = _lonlat(e["nodes"])
        conn = hux.pad_table(e["faces"], fill=-1).astype(np.int32) + 1
        conn[conn == 0] = -1
        ds = xr.Dataset(attrs={"title": "caller's dataset", "history": ["a", "b"]})
        ds["mesh"] = xr.DataArray(
            -1, attrs={"cf_role": "mesh_topology", "topology_dimension": 2, "node_coordinates": "lon lat", "face_node_connectivity": "fnc"}
        )
        ds["lon"] = xr.DataArray(np.where(lon < 0, lon + 360, lon), dims=["nn"], attrs={"units": "degrees_east"})
        ds["lat"] = xr.DataArray(lat, dims=["nn"], attrs={"units": "degrees_north"})
        ds["fnc"] = xr.DataArray(conn, dims=["nf", "nmax"], attrs={"cf_role": "face_node_connectivity", "start_index": 1, "_FillValue": -1})
        return {"dataset": ds}, lambda: ux.open_grid(ds)

    return make


TRACKED = {
    "t_nd_std1": _tracked_topology("cuboctahedron", 7, 0, "nd", "std", 1),
    "t_nd_m1_0": _tracked_topology("cuboctahedron", 7, 2, "nd", "m1", 0),
    "t_nd_std0": _tracked_topology("truncated_octahedron", 3, 3, "nd", "std", 0),
    "t_list_m1_1": _tracked_topology("cuboctahedron", 4, 0, "list", "m1", 1),
    "t_nd_none1": _tracked_topology("cube", 5, 0, "nd", "none", 1),
    "v_nd_ll": _tracked_vertices("cube", 5, 0, "nd", True),
    "v_list_xyz": _tracked_vertices("octahedron", 3, 0, "list", False),
    "d_ugrid": _tracked_dataset("rhombic_dodecahedron", 2, 0),
}
_INPUTS = {}


def _mk_tracked(name):
    def make():
        inp, build = TRACKED[name]()
        snap = {k: _input_snapshot(v) for k, v in inp.items()}
        g = build()
        g._verif_inputs = (inp, snap)
        return g

    return make


for _n in TRACKED:
    SOURCES[_n] = _mk_tracked(_n)


def _scribble(v):
    """Overwrite a constructor input in place, the way a caller that goes on using its own arrays would."""
    if isinstance(v, np.ndarray):
        if v.dtype.kind == "f":
            v[...] = v * 0.5 + 0.25
        elif v.dtype.kind in "iu" and v.ndim >= 1 and v.shape[0] > 1:
            v[...] = v[::-1].copy()
        return
    if isinstance(v, list):
        for i, x in enumerate(v):
            if isinstance(x, (list, np.ndarray)):
                _scribble(x)
            elif isinstance(x, float):
                v[i] = x * 0.5 + 0.25
        return
    if hasattr(v, "variables"):  # the caller's xarray dataset
        for n in list(v.variables):
            try:
                _scribble(v[n].values)
            except Exception:  # noqa: read-only or scalar variables
                pass
        v.attrs["edited_by_caller"] = True


def edit_inputs(grid):
    ent = getattr(grid, "_verif_inputs", None)
    if ent is None:
        return False
    inp, _ = ent
    for v in inp.values():
        _scribble(v)
    return True


def inputs_changed(grid):
    """Names of the constructor inputs of `grid` whose contents differ from what they were
    right before construction."""
    ent = getattr(grid, "_verif_inputs", None)
    if ent is None:
        return []
    inp, snap = ent
    return sorted(k for k, v in inp.items() if _input_snapshot(v) != snap[k])

"""C06 replay driver: materialise the cases emitted by Integrate.tla as real UxDataArrays on real
Grids, call UxDataArray.integrate, project the outcome for the TLC judge.

Expected numbers are SUM coeff * area with the integer coefficients supplied by TLC and the areas
of a FRESH grid computed with the requested quadrature; the comparison itself (1e-12 relative) is
made by TLC on the quantised deviation.
"""

from __future__ import annotations

import math

from harness import ux as hux
from harness import x_c05 as X

_FRESH = {}


def _fresh_areas(mesh, quad):
    key = (mesh["id"], quad)
    if key not in _FRESH:
        rule, order = X.RULE_NAMES[quad]
        g = X.mesh_grid(mesh["nodes"], mesh["faces"])
        a, _ = g.compute_face_areas(rule, order)
        g2 = X.mesh_grid(mesh["nodes"], mesh["faces"])
        _FRESH[key] = ([float(v) for v in a], float(g2.calculate_total_face_area(rule, order)))
    return _FRESH[key]


OTHER = {"t4": ("gaussian", 2), "g3": ("triangular", 4), "g10": ("triangular", 1), "t8": ("gaussian", 5), "t1": ("triangular", 12), "g1": ("triangular", 8)}


def _array(ux, np, g, table, lead, dims, name, dtype, layout="last", storage="numpy"):
    a = np.array(table, dtype=np.int64).reshape(tuple(lead) + (len(table[0]),))
    a = a.astype({"int64": np.int64, "float32": np.float32, "float64": np.float64, "bool": np.bool_}[dtype])
    if layout == "first":
        a = np.ascontiguousarray(np.moveaxis(a, -1, 0))      # element dimension first, leading dims after it
    if storage == "dask":
        import dask.array as dsa

        a = dsa.from_array(a, chunks=tuple(max(1, (n + 1) // 2) for n in a.shape) if a.ndim else ())
    return ux.UxDataArray(a, dims=list(dims), name=name, uxgrid=g)


def _flat(np, r):
    return [float(v) for v in np.asarray(r.values, dtype=float).reshape(-1)]


def integrate_case(case):
    """case: the record printed by Integrate!CaseEmit plus "mesh" and "id"."""
    import numpy as np

    ux = hux.import_ux()
    mesh = case["mesh"]
    exact_areas = None
    if case.get("mult"):
        # the exact shrink map v -> (M-1)(v.c)c + (c.c)v, c the x axis, in unbounded integers; exact face areas
        # from the cancellation-free fan descriptor (validated against TLC's values at M = 1, 2, 5)
        M = int(case["mult"])
        nodes = [list(X.shrink_x(M, tuple(v))) for v in mesh["nodes"]]
        mesh = dict(mesh, id="%s@M%d" % (mesh["id"], M), nodes=nodes)
        exact_areas = [X.fan_excess(X.fan_descr([tuple(nodes[v]) for v in f])) for f in mesh["faces"]]
    exp = case["expected"]
    rec = {
        "id": case["id"],
        "coincident": bool(case["coincident"]),
        "expected": {k: exp[k] for k in exp if k != "coeff"},
        "raised": False,
        "dims": [],
        "name": "",
        "same_grid": False,
        "is_uxda": False,
        "shape": [],
        "q": [X.CAP, X.CAP],
        "api": case["api"],
        "layout": case["layout"],
        "storage": case["storage"],
        "square": bool(case["square"]),
        "prev": case["prev"],
        "mult": int(case.get("mult") or 0),
    }
    rule, order = X.RULE_NAMES[case["quad"]]
    try:
        g = X.mesh_grid(mesh["nodes"], mesh["faces"])
        sizes = {"n_face": int(g.n_face), "n_node": int(g.n_node), "n_edge": int(g.n_edge)}
        if sizes != {"n_face": mesh["nf"], "n_node": mesh["nn"], "n_edge": mesh["ne"]}:
            return {"machinery": "grid %s has sizes %r, the specification was given %r" % (mesh["id"], sizes, (mesh["nf"], mesh["nn"], mesh["ne"]))}
        if case["prev"] == "face_areas":
            _ = g.face_areas
        elif case["prev"] == "compute_other":
            g.compute_face_areas(*OTHER[case["quad"]])
        elif case["prev"] in ("edit_same_scale", "edit_same_zero", "edit_default_scale"):
            # the caller changes, in place, the arrays an earlier call returned to it
            a_, j_ = g.compute_face_areas(rule, order) if case["prev"] != "edit_default_scale" else g.compute_face_areas()
            for arr in (a_, j_):
                if isinstance(arr, np.ndarray) and arr.flags.writeable:
                    if case["prev"] == "edit_same_zero":
                        arr[...] = 0.0
                    else:
                        arr *= 6371.0**2
            if case["prev"] == "edit_default_scale":
                _ = g.face_areas
        da = _array(ux, np, g, case["table"], case["lead"], case["dims"], case["name"], case["dtype"], case["layout"], case["storage"])
        if case["storage"] == "dask" and not hasattr(da.data, "dask"):
            return {"machinery": "case %s: the array is not dask-backed" % case["id"]}
        if case["api"] == "dataset":
            da = ux.UxDataset({case["name"]: da}, uxgrid=g)
    except Exception as e:  # noqa
        return {"machinery": "could not set up case %s: %s: %s" % (case["id"], type(e).__name__, str(e)[:200])}
    src_grid = g
    try:
        if case["api"] == "isel":
            da = da.isel(n_face=list(case["sel_faces"]))
            src_grid = da.uxgrid
        r = da.integrate(quadrature_rule=rule, order=order)
    except Exception as e:  # noqa
        rec["raised"] = True
        rec["error"] = "%s: %s" % (type(e).__name__, str(e)[:160])
        return rec
    try:
        rec["is_uxda"] = isinstance(r, ux.UxDataArray)
        rec["dims"] = [str(d) for d in getattr(r, "dims", ())]
        rec["name"] = "" if getattr(r, "name", None) is None else str(r.name)
        rec["same_grid"] = getattr(r, "uxgrid", None) is src_grid
        rec["shape"] = [int(s) for s in np.shape(getattr(r, "values", r))]
        if exp["outcome"] != "Rejected" and rec["shape"] == list(exp["shape"]):
            areas, total = _fresh_areas(mesh, case["quad"])
            got = _flat(np, r) if hasattr(r, "values") else [float(v) for v in np.asarray(r, dtype=float).reshape(-1)]
            qs = []
            for row, v in zip(exp["coeff"], got):
                e = math.fsum(c * a for c, a in zip(row, areas))
                scale = math.fsum(abs(c) * a for c, a in zip(row, areas)) or 1.0
                qs.append(X.quant(v - e, scale))
            rec["q"] = X.qmax(qs)
            if exact_areas is not None:
                qx = []
                for row, v in zip(exp["coeff"], got):
                    e = math.fsum(c * a for c, a in zip(row, exact_areas))
                    scale = math.fsum(abs(c) * a for c, a in zip(row, exact_areas)) or 1.0
                    qx.append(X.quant(v - e, scale))
                rec["qx"] = X.qmax(qx)
            rec["value0"] = got[0] if got else None
            if case["api"] == "isel":
                # the parts of a partition add up to the integral over the parent (all from the same parent object)
                full = _array(ux, np, g, case["table"], case["lead"], case["dims"], case["name"], case["dtype"])
                comp = _flat(np, full.isel(n_face=list(case["comp_faces"])).integrate(rule, order))
                whole = _flat(np, full.integrate(rule, order))
                qp = []
                for k, v in enumerate(got):
                    scale = math.fsum(abs(c) * a for c, a in zip(case["table"][k], areas)) or 1.0
                    qp.append(X.quant(v + comp[k] - whole[k], scale))
                rec["qpart"] = X.qmax(qp)
            if case["pat"] == "ones" and case["api"] != "isel":
                rec["qone"] = X.qmax(X.quant(v - total, total) for v in got)
            if case["parts"]:
                a_, b_, tx, ty = case["parts"]
                ix = _flat(np, _array(ux, np, g, tx, case["lead"], case["dims"], "x", case["dtype"]).integrate(rule, order))
                iy = _flat(np, _array(ux, np, g, ty, case["lead"], case["dims"], "y", case["dtype"]).integrate(rule, order))
                ql = []
                for k, v in enumerate(got):
                    scale = abs(a_) * math.fsum(abs(c) * a for c, a in zip(tx[k], areas)) + abs(b_) * math.fsum(abs(c) * a for c, a in zip(ty[k], areas))
                    ql.append(X.quant(v - (a_ * ix[k] + b_ * iy[k]), scale or 1.0))
                rec["qlin"] = X.qmax(ql)
    except Exception as e:  # noqa
        return {"machinery": "could not project the result of case %s: %s: %s" % (case["id"], type(e).__name__, str(e)[:200])}
    return rec


# ----------------------------------------------------------------------------- two grids in one process (DimsProcess.tla)
TETRA = {"id": "tetrahedron", "nodes": [[1, 1, 1], [1, -1, -1], [-1, 1, -1], [-1, -1, 1]], "faces": [[0, 1, 2], [0, 3, 1], [0, 2, 3], [1, 3, 2]]}
FMT_DIMS = {"esmf": {"face": "elementCount", "node": "nodeCount"}, "ugrid": {"face": "b", "node": "a"}, "scrip": {"face": "grid_size"}}


def dims_grid_dataset(fmt):
    """In-memory source dataset of the tetrahedron (n_node = n_face = 4) in the given format."""
    import numpy as np
    import xarray as xr
    from harness import lattice as L

    _, FILL = hux.consts()
    ll = [L.lonlat_deg(tuple(v)) for v in TETRA["nodes"]]
    lon = np.array([p[0] for p in ll])
    lat = np.array([p[1] for p in ll])
    conn = np.array(TETRA["faces"], dtype=np.int64)
    ds = xr.Dataset()
    if fmt == "esmf":
        ds["nodeCoords"] = xr.DataArray(np.stack([lon, lat], axis=1), dims=["nodeCount", "coordDim"], attrs={"units": "degrees"})
        ds["elementConn"] = xr.DataArray((conn + 1).astype(np.int32), dims=["elementCount", "maxNodePElement"], attrs={"long_name": "Node indices that define the element connectivity", "start_index": np.int32(1)})
        ds["numElementConn"] = xr.DataArray(np.full(len(conn), 3, dtype=np.int32), dims=["elementCount"])
        ds.attrs["gridType"] = "unstructured mesh"
    elif fmt == "ugrid":
        ds["xs"] = xr.DataArray(lon, dims=["a"], attrs={"standard_name": "longitude", "units": "degrees_east"})
        ds["ys"] = xr.DataArray(lat, dims=["a"], attrs={"standard_name": "latitude", "units": "degrees_north"})
        ds["f2n"] = xr.DataArray(conn, dims=["b", "c"], attrs={"cf_role": "face_node_connectivity", "start_index": np.int32(0), "_FillValue": FILL})
        ds["Mesh2"] = xr.DataArray(np.int32(-1), attrs={"cf_role": "mesh_topology", "topology_dimension": np.int32(2), "node_coordinates": "xs ys", "face_node_connectivity": "f2n", "face_dimension": "b", "node_dimension": "a"})
    elif fmt == "scrip":
        cen = [L.lonlat_deg(tuple(sum(TETRA["nodes"][v][k] for v in f) for k in range(3))) for f in TETRA["faces"]]
        ds["grid_corner_lon"] = xr.DataArray(lon[conn], dims=["grid_size", "grid_corners"], attrs={"units": "degrees"})
        ds["grid_corner_lat"] = xr.DataArray(lat[conn], dims=["grid_size", "grid_corners"], attrs={"units": "degrees"})
        ds["grid_center_lon"] = xr.DataArray(np.array([c[0] for c in cen]), dims=["grid_size"], attrs={"units": "degrees"})
        ds["grid_center_lat"] = xr.DataArray(np.array([c[1] for c in cen]), dims=["grid_size"], attrs={"units": "degrees"})
        ds["grid_area"] = xr.DataArray(np.full(len(conn), math.pi), dims=["grid_size"], attrs={"units": "radians^2"})
        ds["grid_imask"] = xr.DataArray(np.ones(len(conn), dtype=np.int32), dims=["grid_size"])
        ds["grid_dims"] = xr.DataArray(np.array([len(conn)], dtype=np.int32), dims=["grid_rank"])
    else:
        raise KeyError(fmt)
    return ds


def dims_write_data(path, fmt, kinds):
    """A data file whose variables live on the format's own face / node dimension names (with a leading time)."""
    import numpy as np
    import xarray as xr

    ds = xr.Dataset()
    for k in sorted(kinds):
        n = 4
        ds["v_" + k] = xr.DataArray(np.arange(2 * n, dtype=float).reshape(2, n) + (1.0 if k == "face" else 3.0), dims=["time", FMT_DIMS[fmt][k]])
    ds.to_netcdf(path)


def _templates():
    import sys

    out = {}
    for name, mod in list(sys.modules.items()):
        if mod is not None and (name.startswith("uxarray.io") or name.startswith("uxarray.conventions")):
            for attr, val in vars(mod).items():
                if not attr.startswith("__") and isinstance(val, (dict, list, set)):
                    out[name + "." + attr] = repr(val)
    return out


def dims_case(item):
    """item: {"id", "opens": [[fmt, [kinds]]], "files": {"fmt|kinds": path}} -> trace for DimsProcess!TrJudge."""
    import numpy as np

    ux = hux.import_ux()
    areas, _ = _fresh_areas(dict(TETRA, nf=4, nn=4, ne=6), "t4")
    steps = []
    for fmt, kinds in item["opens"]:
        kinds = sorted(kinds)
        st = {"fmt": fmt, "data": kinds, "obs": [], "templates_changed": False, "changed": []}
        before = _templates()
        try:
            uxds = ux.open_dataset(dims_grid_dataset(fmt), item["files"]["%s|%s" % (fmt, "+".join(kinds))])
        except Exception as e:  # noqa
            return {"machinery": "open_dataset(%s, %s) raised %s: %s" % (fmt, kinds, type(e).__name__, str(e)[:200])}
        after = _templates()
        st["changed"] = sorted(k for k in after if before.get(k) != after[k])
        st["templates_changed"] = bool(st["changed"])
        for k in kinds:
            da = uxds["v_" + k]
            label = [str(d) for d in da.dims]
            try:
                r = da.integrate()
                got = [float(v) for v in np.asarray(r.values, dtype=float).reshape(-1)]
                src = np.arange(8, dtype=float).reshape(2, 4) + (1.0 if k == "face" else 3.0)
                exp = [math.fsum(float(c) * a for c, a in zip(row, areas)) for row in src]
                ok = len(got) == 2 and all(abs(g_ - e_) <= 1e-12 * abs(e_) for g_, e_ in zip(got, exp))
                outcome = "value" if (ok or k == "node") else "wrong_value"
            except ValueError:
                outcome = "rejected"
            except Exception as e:  # noqa
                outcome = "raised_other"
                st.setdefault("errors", []).append("%s: %s" % (type(e).__name__, str(e)[:120]))
            st["obs"].append([k, outcome])
            st.setdefault("labels", {})[k] = label
        steps.append(st)
    return {"id": item["id"], "steps": steps}

"""C06 replay driver: materialise the cases emitted by Integrate.tla as real UxDataArrays on real
Grids, call UxDataArray.integrate, project the outcome for the TLC judge.

Expected numbers are SUM coeff * area with the integer coefficients supplied by TLC and the areas
of a FRESH grid computed with the requested quadrature; the comparison itself (1e-12 relative) is
made by TLC on the quantised deviation.
"""

from __future__ import annotations

import math

from harness import ux as hux
from harness import x_c05 as X

_FRESH = {}


def _fresh_areas(mesh, quad):
    key = (mesh["id"], quad)
    if key not in _FRESH:
        rule, order = X.RULE_NAMES[quad]
        g = X.mesh_grid(mesh["nodes"], mesh["faces"])
        a, _ = g.compute_face_areas(rule, order)
        g2 = X.mesh_grid(mesh["nodes"], mesh["faces"])
        _FRESH[key] = ([float(v) for v in a], float(g2.calculate_total_face_area(rule, order)))
    return _FRESH[key]


OTHER = {"t4": ("gaussian", 2), "g3": ("triangular", 4), "g10": ("triangular", 1), "t8": ("gaussian", 5), "t1": ("triangular", 12), "g1": ("triangular", 8)}


def _array(ux, np, g, table, lead, dims, name, dtype, layout="last", storage="numpy"):
    a = np.array(table, dtype=np.int64).reshape(tuple(lead) + (len(table[0]),))
    a = a.astype({"int64": np.int64, "float32": np.float32, "float64": np.float64, "bool": np.bool_}[dtype])
    if layout == "first":
        a = np.ascontiguousarray(np.moveaxis(a, -1, 0))      # element dimension first, leading dims after it
    if storage == "dask":
        import dask.array as dsa

        a = dsa.from_array(a, chunks=tuple(max(1, (n + 1) // 2) for n in a.shape) if a.ndim else ())
    return ux.UxDataArray(a, dims=list(dims), name=name, uxgrid=g)


def _flat(np, r):
    return [float(v) for v in np.asarray(r.values, dtype=float).reshape(-1)]


def integrate_case(case):
    """case: the record printed by Integrate!CaseEmit plus "mesh" and "id"."""
    import numpy as np

    ux = hux.import_ux()
    mesh = case["mesh"]
    exp = case["expected"]
    rec = {
        "id": case["id"],
        "coincident": bool(case["coincident"]),
        "expected": {k: exp[k] for k in exp if k != "coeff"},
        "raised": False,
        "dims": [],
        "name": "",
        "same_grid": False,
        "is_uxda": False,
        "shape": [],
        "q": [X.CAP, X.CAP],
        "api": case["api"],
        "layout": case["layout"],
        "storage": case["storage"],
        "square": bool(case["square"]),
        "prev": case["prev"],
    }
    rule, order = X.RULE_NAMES[case["quad"]]
    try:
        g = X.mesh_grid(mesh["nodes"], mesh["faces"])
        sizes = {"n_face": int(g.n_face), "n_node": int(g.n_node), "n_edge": int(g.n_edge)}
        if sizes != {"n_face": mesh["nf"], "n_node": mesh["nn"], "n_edge": mesh["ne"]}:
            return {"machinery": "grid %s has sizes %r, the specification was given %r" % (mesh["id"], sizes, (mesh["nf"], mesh["nn"], mesh["ne"]))}
        if case["prev"] == "face_areas":
            _ = g.face_areas
        elif case["prev"] == "compute_other":
            g.compute_face_areas(*OTHER[case["quad"]])
        elif case["prev"] in ("edit_same_scale", "edit_same_zero", "edit_default_scale"):
            # the caller changes, in place, the arrays an earlier call returned to it
            a_, j_ = g.compute_face_areas(rule, order) if case["prev"] != "edit_default_scale" else g.compute_face_areas()
            for arr in (a_, j_):
                if isinstance(arr, np.ndarray) and arr.flags.writeable:
                    if case["prev"] == "edit_same_zero":
                        arr[...] = 0.0
                    else:
                        arr *= 6371.0**2
            if case["prev"] == "edit_default_scale":
                _ = g.face_areas
        da = _array(ux, np, g, case["table"], case["lead"], case["dims"], case["name"], case["dtype"], case["layout"], case["storage"])
        if case["storage"] == "dask" and not hasattr(da.data, "dask"):
            return {"machinery": "case %s: the array is not dask-backed" % case["id"]}
        if case["api"] == "dataset":
            da = ux.UxDataset({case["name"]: da}, uxgrid=g)
    except Exception as e:  # noqa
        return {"machinery": "could not set up case %s: %s: %s" % (case["id"], type(e).__name__, str(e)[:200])}
    src_grid = g
    try:
        if case["api"] == "isel":
            da = da.isel(n_face=list(case["sel_faces"]))
            src_grid = da.uxgrid
        r = da.integrate(quadrature_rule=rule, order=order)
    except Exception as e:  # noqa
        rec["raised"] = True
        rec["error"] = "%s: %s" % (type(e).__name__, str(e)[:160])
        return rec
    try:
        rec["is_uxda"] = isinstance(r, ux.UxDataArray)
        rec["dims"] = [str(d) for d in getattr(r, "dims", ())]
        rec["name"] = "" if getattr(r, "name", None) is None else str(r.name)
        rec["same_grid"] = getattr(r, "uxgrid", None) is src_grid
        rec["shape"] = [int(s) for s in np.shape(getattr(r, "values", r))]
        if exp["outcome"] != "Rejected" and rec["shape"] == list(exp["shape"]):
            areas, total = _fresh_areas(mesh, case["quad"])
            got = _flat(np, r) if hasattr(r, "values") else [float(v) for v in np.asarray(r, dtype=float).reshape(-1)]
            qs = []
            for row, v in zip(exp["coeff"], got):
                e = math.fsum(c * a for c, a in zip(row, areas))
                scale = math.fsum(abs(c) * a for c, a in zip(row, areas)) or 1.0
                qs.append(X.quant(v - e, scale))
            rec["q"] = X.qmax(qs)
            rec["value0"] = got[0] if got else None
            if case["api"] == "isel":
                # the parts of a partition add up to the integral over the parent (all from the same parent object)
                full = _array(ux, np, g, case["table"], case["lead"], case["dims"], case["name"], case["dtype"])
                comp = _flat(np, full.isel(n_face=list(case["comp_faces"])).integrate(rule, order))
                whole = _flat(np, full.integrate(rule, order))
                qp = []
                for k, v in enumerate(got):
                    scale = math.fsum(abs(c) * a for c, a in zip(case["table"][k], areas)) or 1.0
                    qp.append(X.quant(v + comp[k] - whole[k], scale))
                rec["qpart"] = X.qmax(qp)
            if case["pat"] == "ones" and case["api"] != "isel":
                rec["qone"] = X.qmax(X.quant(v - total, total) for v in got)
            if case["parts"]:
                a_, b_, tx, ty = case["parts"]
                ix = _flat(np, _array(ux, np, g, tx, case["lead"], case["dims"], "x", case["dtype"]).integrate(rule, order))
                iy = _flat(np, _array(ux, np, g, ty, case["lead"], case["dims"], "y", case["dtype"]).integrate(rule, order))
                ql = []
                for k, v in enumerate(got):
                    scale = abs(a_) * math.fsum(abs(c) * a for c, a in zip(tx[k], areas)) + abs(b_) * math.fsum(abs(c) * a for c, a in zip(ty[k], areas))
                    ql.append(X.quant(v - (a_ * ix[k] + b_ * iy[k]), scale or 1.0))
                rec["qlin"] = X.qmax(ql)
    except Exception as e:  # noqa
        return {"machinery": "could not project the result of case %s: %s: %s" % (case["id"], type(e).__name__, str(e)[:200])}
    return rec

"""Child process of the C08 thorough tier: the same replays with numba's JIT switched off.

    NUMBA_DISABLE_JIT=1 python -m harness.gridjitoff jobs.json out.json

Writes {"traces": [...], "panel": {source: {op: jsonable fingerprint}}}: the traces are judged by
TLC like the JIT-on ones (history independence must hold in this configuration too); the panel
(what a fresh grid returns for every operation of the quick alphabet) is compared by the parent
with its own JIT-on values (C08: "no matter whether JIT compilation is enabled")."""

from __future__ import annotations

import json
import sys


def jsonable(fp):
    import numpy as np

    from . import gridops as G

    if isinstance(fp, G.FP):
        return {"k": fp.kind, "i": [jsonable(x) for x in fp.items]}
    if isinstance(fp, np.ndarray):
        if fp.dtype.kind in "fc":
            return {"f": [None if not np.isfinite(v) else float(v) for v in fp.ravel().tolist()], "s": list(fp.shape)}
        if fp.dtype.kind in "iub":
            return {"n": [int(v) for v in fp.ravel().tolist()], "s": list(fp.shape)}
        return {"o": [str(v) for v in fp.ravel().tolist()], "s": list(fp.shape)}
    if isinstance(fp, (tuple, list)):
        return [jsonable(x) for x in fp]
    if isinstance(fp, (np.generic,)):
        return fp.item()
    return fp


def panel(sources, ops):
    from . import gridops as G

    out = {}
    for s in sources:
        out[s] = {}
        for op in ops:
            G.templates_restore()
            o = G.run_op(G.open_source(s), op)
            out[s][op] = {"raised": o.raised, "fp": None if o.raised else jsonable(o.fp)}
    return out


def main(argv):
    src, dst = argv
    from .x_c18 import freeze_jit_off

    freeze_jit_off()
    from . import gridcheck as gc
    from . import gridops as G
    from . import ux as hux

    hux.import_ux()
    G.templates_init()
    spec = json.load(open(src))
    traces = [gc._replay_one(tuple(j)) for j in spec["jobs"]]
    pan = panel(spec["panel_sources"], spec["panel_ops"])
    json.dump({"traces": traces, "panel": pan}, open(dst, "w"))
    return 0


if __name__ == "__main__":
    sys.exit(main(sys.argv[1:]))

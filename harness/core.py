"""Check context: scratch dir, TLC bookkeeping, violations vs known findings, evidence."""

from __future__ import annotations

import json
import os
import shutil
import sys
import time
import traceback

from . import tlc as _tlc

VERIF = os.path.dirname(os.path.dirname(os.path.abspath(__file__)))
# evidence and replay files describe /repo itself: a run against a scratch copy (seeded change,
# VERIF_REPO=...) writes its own elsewhere and never overwrites them
_SCRATCH = os.path.abspath(os.environ.get("VERIF_REPO", "/repo")) != "/repo"
EVIDENCE_DIR = os.path.join(VERIF, ".work", "scratch_evidence_%d" % os.getpid()) if _SCRATCH else os.path.join(VERIF, "evidence")
REPLAY_DIR = os.path.join(VERIF, ".work", "scratch_replays") if _SCRATCH else os.path.join(VERIF, "replays")
FINDINGS_FILE = os.path.join(VERIF, "known_findings.json")


class Machinery(RuntimeError):
    """Raised for harness failures; exit code 2, never a verdict."""


def _jsonable(v):
    import numpy as np

    if isinstance(v, dict):
        return {str(k): _jsonable(x) for k, x in v.items()}
    if isinstance(v, (list, tuple)):
        return [_jsonable(x) for x in v]
    if isinstance(v, (set, frozenset)):
        return sorted((_jsonable(x) for x in v), key=lambda x: json.dumps(x, sort_keys=True, default=str))
    if isinstance(v, np.generic):
        return v.item()
    if isinstance(v, np.ndarray):
        return v.tolist()
    if isinstance(v, float) and (v != v or v in (float("inf"), float("-inf"))):
        return repr(v)
    return v


class Ctx:
    def __init__(self, prop, tier, seed):
        self.prop = prop
        self.tier = tier
        self.seed = seed
        self.t0 = time.time()
        self.work = os.path.join(VERIF, ".work", "%s_%d" % (prop, os.getpid()))
        shutil.rmtree(self.work, ignore_errors=True)
        os.makedirs(self.work, exist_ok=True)
        # replay files of an earlier run of this property and tier are stale
        import glob

        for old in glob.glob(os.path.join(REPLAY_DIR, "%s_*_%s.json" % (prop, tier))):
            try:
                os.remove(old)
            except OSError:
                pass
        self.states = 0
        self.transitions = 0
        self.tlc_runs = []
        self.traces = 0  # records / behaviours of the implementation judged by the spec
        self.evaluations = 0
        self.nontrivial = set()
        self.samples = []
        self.assumptions = []
        self.violations = []  # dicts: key, clause, sig, detail
        self.known_hits = {}
        self.notes = {}
        self.rule = ""
        self.exhaustive = False
        self._findings = _load_findings(prop)

    # ---------------------------------------------------------------- TLC
    def tlc(self, module, cfg, what="", count=True, **kw):
        kw.setdefault("workers", 8)
        r = _tlc.run(module, cfg, self.work, **kw)
        if count:
            self.states += r.distinct
            self.transitions += r.generated
        self.tlc_runs.append(
            {
                "module": module,
                "what": what,
                "generated": r.generated,
                "distinct": r.distinct,
                "depth": r.depth,
                "wall_s": round(r.wall, 2),
                "ok": r.ok,
                "violated": r.violated,
            }
        )
        return r

    def tlc_ok(self, module, cfg, what="", **kw):
        r = self.tlc(module, cfg, what, **kw)
        if not r.ok:
            raise Machinery(
                "TLC run '%s' on %s failed: violated=%s rc=%s\n%s"
                % (what, module, r.violated, r.rc, r.out[-6000:])
            )
        return r

    # ---------------------------------------------------------------- bookkeeping
    def sample(self, obj, limit=6):
        if len(self.samples) < limit:
            self.samples.append(_jsonable(obj))

    def note(self, k, v):
        self.notes[k] = _jsonable(v)

    def count(self, n=1, nontrivial_key=None):
        self.evaluations += n
        if nontrivial_key is not None:
            self.nontrivial.add(nontrivial_key)

    # ---------------------------------------------------------------- verdicts
    def violation(self, key, clause, detail=None, sig=None, replay=None):
        """Record a violation.

        key: stable identifier of the failing input / call site / history
        clause: the named clause of the specification that is false
        sig: dict of abstract signature fields (decided by the specification) used to
             match known findings for sampled scopes
        replay: JSON-able object sufficient to reproduce against the real code
        """
        sig = dict(sig or {})
        sig.setdefault("clause", clause)
        v = {"key": key, "clause": clause, "sig": sig, "detail": _jsonable(detail), "replay": _jsonable(replay)}
        f = self._match(v)
        if f is not None:
            self.known_hits.setdefault(f["id"], []).append(key)
            return False
        self.violations.append(v)
        return True

    def _match(self, v):
        for f in self._findings:
            if f.get("status", "known") != "known":
                continue
            m = f.get("match", {})
            if "keys" in m and v["key"] in m["keys"]:
                return f
            if "key_prefix" in m and any(str(v["key"]).startswith(p) for p in m["key_prefix"]):
                return f
            if "sig" in m:
                if all(v["sig"].get(k) == x for k, x in m["sig"].items()):
                    return f
        return None

    # ---------------------------------------------------------------- finish
    def finish(self, level="model_checking"):
        wall = time.time() - self.t0
        os.makedirs(EVIDENCE_DIR, exist_ok=True)
        os.makedirs(REPLAY_DIR, exist_ok=True)
        for f in self._findings:
            if f.get("status", "known") == "known":
                hits = self.known_hits.get(f["id"], [])
                if hits:
                    print(
                        "KNOWN-FINDING: property=%s %s [%s; %d case(s) this run]"
                        % (self.prop, f["what"], f["id"], len(hits))
                    )
                else:
                    print(
                        "INFO: known finding %s of %s not hit in this run (%s)"
                        % (f["id"], self.prop, self.tier)
                    )
        rc = 0
        replay_paths = []
        if self.violations:
            rc = 1
            # group by clause for reporting; one replay file per (clause) with all cases
            by = {}
            for v in self.violations:
                by.setdefault(v["clause"], []).append(v)
            for clause, vs in by.items():
                path = os.path.join(REPLAY_DIR, "%s_%s_%s.json" % (self.prop, _safe(clause), self.tier))
                with open(path, "w") as fh:
                    json.dump({"property": self.prop, "clause": clause, "cases": vs[:200], "n_cases": len(vs)}, fh, indent=1, default=str)
                replay_paths.append(path)
                print("VIOLATION property=%s replay=%s" % (self.prop, path))
                print("  clause=%s cases=%d first=%s" % (clause, len(vs), json.dumps(vs[0]["key"], default=str)[:300]))
        cov = {
            "states": int(self.states),
            "transitions": int(self.transitions),
            "traces_validated_against_impl": int(self.traces),
            "samples": self.samples[:8] or ["(none)"],
            "evaluations": int(self.evaluations),
            "distinct_nontrivial": len(self.nontrivial),
            "rule": self.rule,
            "exhaustive": bool(self.exhaustive),
            "tlc_runs": self.tlc_runs,
            "known_findings_hit": {k: len(v) for k, v in self.known_hits.items()},
        }
        cov.update(self.notes)
        ev = {
            "property_id": self.prop,
            "tier": self.tier,
            "seed": int(self.seed),
            "level": level,
            "coverage": cov,
            "assumptions": self.assumptions,
            "wall_s": round(wall, 2),
            "violations": len(self.violations),
        }
        # extension checks (ids X01, X02, ... : behaviour of the system beyond the listed properties) keep
        # their evidence apart from the properties' evidence files
        ev_dir = os.path.join(EVIDENCE_DIR, "extensions") if self.prop.startswith("X") else EVIDENCE_DIR
        os.makedirs(ev_dir, exist_ok=True)
        with open(os.path.join(ev_dir, self.prop + ".json"), "w") as fh:
            json.dump(ev, fh, indent=1, default=str)
        shutil.rmtree(self.work, ignore_errors=True)
        print(
            "%s %s: %s  states=%d transitions=%d impl_records=%d evaluations=%d nontrivial=%d wall=%.1fs"
            % (
                self.prop,
                self.tier,
                "HELD" if rc == 0 else "VIOLATED",
                self.states,
                self.transitions,
                self.traces,
                self.evaluations,
                len(self.nontrivial),
                wall,
            )
        )
        return rc


def _safe(s):
    return "".join(c if c.isalnum() else "_" for c in str(s))[:60]


def _load_findings(prop):
    out = []
    paths = [FINDINGS_FILE]
    # development aid for check builders: extra (proposed) findings, never used by registered commands
    extra = os.environ.get("VERIF_EXTRA_FINDINGS")
    if extra:
        paths += extra.split(os.pathsep)
    for p in paths:
        if not os.path.exists(p):
            continue
        with open(p) as fh:
            data = json.load(fh)
        out += [f for f in data.get("findings", []) if f.get("property") == prop]
    return out


def main_wrapper(prop, fn):
    """Run check function fn(ctx) with the standard CLI contract."""
    import argparse

    ap = argparse.ArgumentParser()
    ap.add_argument("--tier", default=os.environ.get("VERIF_TIER", "quick"))
    ap.add_argument("--replay", default=None)
    a = ap.parse_args(sys.argv[2:] if len(sys.argv) > 1 and sys.argv[1] == prop else None)
    seed = int(os.environ.get("VERIF_SEED", "0") or 0)
    ctx = Ctx(prop, a.tier, seed)
    try:
        fn(ctx)
        return ctx.finish()
    except (Machinery, _tlc.TLCError) as e:
        print("MACHINERY-FAILURE property=%s: %s" % (prop, e), file=sys.stderr)
        shutil.rmtree(ctx.work, ignore_errors=True)
        return 2
    except Exception:
        traceback.print_exc()
        print("MACHINERY-FAILURE property=%s: unexpected exception" % prop, file=sys.stderr)
        shutil.rmtree(ctx.work, ignore_errors=True)
        return 2

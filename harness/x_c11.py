"""Shared machinery of C11 / C12: catalogue grids as real Grids, projection of element
positions to lattice directions, planning and judging of neighbour queries with TLC
(tla/JudgeNearest.tla), evaluation of the exact distance descriptors, and the float
oracle used where the order is not algebraic on the lattice (planar (lat, lon) metric,
Manhattan metric).

Python never decides an exact-order verdict here: ranks, distance classes and verdicts of
index answers come from TLC.  Python evaluates descriptors to floats, picks radii as float
midpoints between consecutive exact classes, and compares distances numerically.
"""

from __future__ import annotations

import json
import math
import os
from math import gcd

import numpy as np

from . import lattice
from . import ux as hux
from .core import Machinery

KINDS = ["nodes", "face centers", "edge centers"]
PREFIX = {"nodes": "node", "face centers": "face", "edge centers": "edge"}
DIMS = {"nodes": "n_node", "face centers": "n_face", "edge centers": "n_edge"}
RAD2DEG = 180.0 / math.pi
TOL = 1e-10  # radians / chord units; antipodes (ill-conditioned haversine) 1e-6
TOL_ANTI = 1e-6
TIE = 1e-9  # tie margin of the float oracle


def reduce3(v):
    g = gcd(gcd(abs(v[0]), abs(v[1])), abs(v[2]))
    if g == 0:
        return None
    return [v[0] // g, v[1] // g, v[2] // g]


def equal_norm(entry):
    return len({sum(c * c for c in p) for p in entry["nodes"]}) == 1


def node_lonlat(entry):
    ll = [lattice.lonlat_deg(v) for v in entry["nodes"]]
    return np.array([a for a, _ in ll], dtype=float), np.array([b for _, b in ll], dtype=float)


def face_dirs(entry):
    out = []
    for f in entry["faces"]:
        out.append(reduce3([sum(entry["nodes"][i][c] for i in f) for c in range(3)]))
    return out


OFF_VARIANTS = ("topology_offcentres", "ugrid_offcentres", "topology_offcentres_rev")


def off_face_dirs(entry):
    """Supplied face centres that are NOT the nodal centroid: the first corner counted twice
    (a lattice direction strictly inside the convex face)."""
    out = []
    for f in entry["faces"]:
        n0 = entry["nodes"][f[0]]
        out.append(reduce3([n0[c] + sum(entry["nodes"][i][c] for i in f) for c in range(3)]))
    return out


def edge_pairs(entry):
    return sorted({(min(a, b), max(a, b)) for f in entry["faces"] for a, b in zip(f, f[1:] + f[:1])})


def off_edge_dir(entry, a, b):
    """Supplied edge centre off the midpoint: twice the lower-numbered end plus the other end."""
    lo, hi = entry["nodes"][min(a, b)], entry["nodes"][max(a, b)]
    return reduce3([2 * lo[c] + hi[c] for c in range(3)])


def build_grid(entry, variant="topology"):
    """variant 'topology': Grid.from_topology(node_lon, node_lat, faces)
    variant 'ugrid_centres': in-memory UGRID dataset that also supplies face_lon / face_lat
    (the lattice centre directions), opened with ux.open_grid.
    variant 'topology_offcentres': from_topology with face_lon/face_lat, edge_node_connectivity,
    edge_lon/edge_lat supplied as keyword arguments, the centres being lattice directions that
    are NOT the nodal centroids / midpoints (off_face_dirs, off_edge_dir).
    variant 'ugrid_offcentres': the same content as an in-memory UGRID dataset.
    variant 'topology_offcentres_rev': as topology_offcentres, the supplied edge table in reverse order."""
    import xarray as xr

    ux = hux.import_ux()
    INT_DTYPE, FILL = hux.consts()
    lon, lat = node_lonlat(entry)
    conn = hux.pad_table(entry["faces"])
    if variant == "topology":
        return ux.Grid.from_topology(lon, lat, conn, fill_value=FILL)
    if variant in OFF_VARIANTS:
        fl = [lattice.lonlat_deg(d) for d in off_face_dirs(entry)]
        ep = edge_pairs(entry)
        if variant == "topology_offcentres_rev":
            ep = ep[::-1]  # the source numbers its edges in another order than the library would derive
        el = [lattice.lonlat_deg(off_edge_dir(entry, a, b)) for a, b in ep]
        f_lon, f_lat = np.array([a for a, _ in fl]), np.array([b for _, b in fl])
        e_lon, e_lat = np.array([a for a, _ in el]), np.array([b for _, b in el])
        en = np.array(ep, dtype=INT_DTYPE)
        if variant in ("topology_offcentres", "topology_offcentres_rev"):
            return ux.Grid.from_topology(lon, lat, conn, fill_value=FILL, face_lon=f_lon, face_lat=f_lat, edge_lon=e_lon, edge_lat=e_lat, edge_node_connectivity=en)
        ds = xr.Dataset(
            {
                "mesh": xr.DataArray(
                    -1,
                    attrs={
                        "cf_role": "mesh_topology",
                        "topology_dimension": 2,
                        "node_coordinates": "node_lon node_lat",
                        "face_node_connectivity": "face_node_connectivity",
                        "edge_node_connectivity": "edge_node_connectivity",
                        "face_coordinates": "face_lon face_lat",
                        "edge_coordinates": "edge_lon edge_lat",
                        "face_dimension": "n_face",
                        "edge_dimension": "n_edge",
                    },
                ),
                "node_lon": xr.DataArray(lon, dims=["n_node"], attrs={"units": "degrees_east"}),
                "node_lat": xr.DataArray(lat, dims=["n_node"], attrs={"units": "degrees_north"}),
                "face_lon": xr.DataArray(f_lon, dims=["n_face"], attrs={"units": "degrees_east"}),
                "face_lat": xr.DataArray(f_lat, dims=["n_face"], attrs={"units": "degrees_north"}),
                "edge_lon": xr.DataArray(e_lon, dims=["n_edge"], attrs={"units": "degrees_east"}),
                "edge_lat": xr.DataArray(e_lat, dims=["n_edge"], attrs={"units": "degrees_north"}),
                "face_node_connectivity": xr.DataArray(conn, dims=["n_face", "n_max_face_nodes"], attrs={"cf_role": "face_node_connectivity", "start_index": 0, "_FillValue": FILL}),
                "edge_node_connectivity": xr.DataArray(en, dims=["n_edge", "two"], attrs={"cf_role": "edge_node_connectivity", "start_index": 0, "_FillValue": FILL}),
            }
        )
        return ux.open_grid(ds)
    if variant == "ugrid_centres":
        fd = face_dirs(entry)
        if any(d is None for d in fd):
            raise Machinery("face centre direction undefined")
        fl = [lattice.lonlat_deg(d) for d in fd]
        ds = xr.Dataset(
            {
                "mesh": xr.DataArray(
                    -1,
                    attrs={
                        "cf_role": "mesh_topology",
                        "topology_dimension": 2,
                        "node_coordinates": "node_lon node_lat",
                        "face_node_connectivity": "face_node_connectivity",
                        "face_coordinates": "face_lon face_lat",
                        "face_dimension": "n_face",
                    },
                ),
                "node_lon": xr.DataArray(lon, dims=["n_node"], attrs={"units": "degrees_east"}),
                "node_lat": xr.DataArray(lat, dims=["n_node"], attrs={"units": "degrees_north"}),
                "face_lon": xr.DataArray(np.array([a for a, _ in fl]), dims=["n_face"], attrs={"units": "degrees_east"}),
                "face_lat": xr.DataArray(np.array([b for _, b in fl]), dims=["n_face"], attrs={"units": "degrees_north"}),
                "face_node_connectivity": xr.DataArray(
                    conn,
                    dims=["n_face", "n_max_face_nodes"],
                    attrs={"cf_role": "face_node_connectivity", "start_index": 0, "_FillValue": FILL},
                ),
            }
        )
        return ux.open_grid(ds)
    raise Machinery("unknown grid variant " + variant)


_WARM = False


def warm():
    """Compile the (non-parallel) jitted coordinate helpers once in the parent, so that forked
    workers inherit them instead of compiling each for themselves."""
    global _WARM
    if _WARM:
        return
    from . import catalog

    for variant in ("topology", "ugrid_centres", "topology_offcentres"):
        g = build_grid(catalog.entries(name="cuboctahedron", rot=0, cut=0)[0], variant)
        for p in ("node", "face", "edge"):
            for c in ("lon", "lat", "x", "y", "z"):
                getattr(g, "%s_%s" % (p, c)).values
        g.get_ball_tree("face centers").query([0.0, 0.0], k=1)
    _WARM = True


def reported(g, kind, system):
    """Element positions as the grid reports them in `system`: unit xyz rows, plus the raw
    (lon, lat) degrees for the spherical system."""
    p = PREFIX[kind]
    if system == "spherical":
        lon = np.asarray(getattr(g, p + "_lon").values, dtype=float)
        lat = np.asarray(getattr(g, p + "_lat").values, dtype=float)
        lo, la = np.deg2rad(lon), np.deg2rad(lat)
        xyz = np.stack([np.cos(la) * np.cos(lo), np.cos(la) * np.sin(lo), np.sin(la)], axis=-1)
        return xyz, lon, lat
    x = np.asarray(getattr(g, p + "_x").values, dtype=float)
    y = np.asarray(getattr(g, p + "_y").values, dtype=float)
    z = np.asarray(getattr(g, p + "_z").values, dtype=float)
    return np.stack([x, y, z], axis=-1), None, None


def candidate_dirs(entry, g, kind, variant="topology"):
    """Integer directions the elements of `kind` should have, in the grid's index order
    (None where the direction is not a lattice point).  For the off-centre variants these are
    the SUPPLIED centres."""
    if kind == "nodes":
        return [list(v) for v in entry["nodes"]]
    if variant in OFF_VARIANTS:
        if kind == "face centers":
            return off_face_dirs(entry)
        return [off_edge_dir(entry, a, b) for a, b in np.asarray(g.edge_node_connectivity.values).tolist()]
    if not equal_norm(entry):
        return None  # centres of unequal-length corners are not lattice directions
    if kind == "face centers":
        return face_dirs(entry)
    INT_DTYPE, FILL = hux.consts()
    en = np.asarray(g.edge_node_connectivity.values)
    out = []
    for a, b in en.tolist():
        va, vb = entry["nodes"][a], entry["nodes"][b]
        out.append(reduce3([va[c] + vb[c] for c in range(3)]))
    return out


def project(entry, g, kind, system, variant="topology"):
    """Lattice directions of the elements of `kind` as reported in `system`, or None when
    they do not lie on the lattice (then the exact oracle does not apply)."""
    cand = candidate_dirs(entry, g, kind, variant)
    if cand is None or any(c is None for c in cand):
        return None
    xyz, _, _ = reported(g, kind, system)
    if len(cand) != xyz.shape[0]:
        return None
    nrm = np.linalg.norm(xyz, axis=1)
    if np.any(np.abs(nrm - 1.0) > 1e-9):
        return None
    u = np.array([lattice.unit(c) for c in cand])
    if np.max(np.abs(u - xyz)) > 1e-9:
        return None
    return cand


def check_int_bounds(q, S):
    """NearCmp's largest intermediate is (a.q)^2 |b|^2; TLC traps overflow at 2^31."""
    ms = max(max(abs(c) for c in s) for s in S)
    mq = max(abs(c) for c in q)
    if 9 * (ms * mq) ** 2 * 3 * ms * ms >= 2**31:
        raise Machinery("lattice too large for exact comparison: %s %s" % (q, ms))


# ------------------------------------------------------------------ presentations of a query
def present(q, system, order, unit, alt=False):
    """A lattice direction as the coordinates a caller passes.
    spherical: order 'lonlat' (ball tree) or 'latlon' (k-d tree); unit 'deg' | 'rad'.
    alt: the other admissible presentation of a pole (another longitude) or of an
    antimeridian point (-180 instead of 180)."""
    if system == "cartesian":
        return list(lattice.unit(q))
    lon, lat = lattice.lonlat_deg(q)
    if alt:
        if q[0] == 0 and q[1] == 0:
            lon = 135.0
        elif q[1] == 0 and q[0] < 0:
            lon = -180.0
    if unit == "rad":
        lon, lat = math.radians(lon), math.radians(lat)
    return [lon, lat] if order == "lonlat" else [lat, lon]


def has_alt(q):
    return (q[0] == 0 and q[1] == 0) or (q[1] == 0 and q[0] < 0)


# ------------------------------------------------------------------ TLC plan / judge
def _write(path, recs):
    with open(path, "w") as fh:
        for r in recs:
            fh.write(json.dumps(r, separators=(",", ":")) + "\n")


CFG = "INIT Init\nNEXT Next\nINVARIANT %s\nCHECK_DEADLOCK FALSE\n"


MAX_BATCH = 25000  # recorded answers (or plan cases / histories) per TLC run


def run_batches(ctx, module, cfg, batches, what, count, weight=len):
    """One TLC run per batch of ndjson records, up to VERIF_NPROC/2 side by side, each in its own
    work directory.  Raises Machinery unless every run completes without error; returns the results."""
    from concurrent.futures import ThreadPoolExecutor

    from . import tlc as _tlc

    nproc = int(os.environ.get("VERIF_NPROC", "0")) or min(16, os.cpu_count() or 4)
    side = max(1, min(len(batches), nproc // 2))
    base = len(ctx.tlc_runs)

    def one(k):
        wd = os.path.join(ctx.work, "batch_%d_%d" % (base, k))
        os.makedirs(wd, exist_ok=True)
        path = os.path.join(wd, "recs.ndjson")
        _write(path, batches[k])
        r = _tlc.run(module, cfg, wd, workers=max(2, min(8, nproc // side)), env={"REC_FILE": path}, timeout=3000)
        try:
            os.remove(path)
        except OSError:
            pass
        return r

    with ThreadPoolExecutor(side) as ex:
        results = list(ex.map(one, range(len(batches))))
    for k, r in enumerate(results):
        if count:
            ctx.states += r.distinct
            ctx.transitions += r.generated
        ctx.tlc_runs.append({"module": module, "what": "%s [batch %d/%d: %d]" % (what, k + 1, len(batches), weight(batches[k])), "generated": r.generated, "distinct": r.distinct, "depth": r.depth, "wall_s": round(r.wall, 2), "ok": r.ok, "violated": r.violated})
        if not r.ok:
            raise Machinery("TLC run '%s' batch %d on %s failed: violated=%s rc=%s\n%s" % (what, k + 1, module, r.violated, r.rc, r.out[-4000:]))
        if r.distinct < len(batches[k]):
            raise Machinery("%s batch %d: TLC visited %d states for %d records" % (what, k + 1, r.distinct, len(batches[k])))
    return results


def chunks_by(records, weight, limit=MAX_BATCH):
    out, cur, w = [], [], 0
    for r in records:
        wr = weight(r)
        if cur and w + wr > limit:
            out.append(cur)
            cur, w = [], 0
        cur.append(r)
        w += wr
    if cur:
        out.append(cur)
    return out


def plan(ctx, cases, workers=8):
    """cases: [{id, q, S}] -> {id: {lt, cls, descr, anti, radii, zero, purity}} from TLC (exact ranks,
    distance classes, descriptors <<|q x s|^2, q.s>>, exact antipode flags, radius and purity plans)."""
    if not cases:
        return {}
    for c in cases:
        check_int_bounds(c["q"], c["S"])
    batches = chunks_by([{"id": c["id"], "q": c["q"], "S": c["S"]} for c in cases], lambda r: 5)
    out = {}
    for r in run_batches(ctx, "JudgeNearest", CFG % "Plan", batches, "plan neighbour cases (exact ranks, classes, descriptors, radius and purity plans)", True):
        for v in r.prints:
            if isinstance(v, tuple) and len(v) == 9 and v[0] == "P":
                out[v[1]] = {"lt": list(v[2]), "cls": list(v[3]), "descr": [tuple(d) for d in v[4]], "anti": list(v[5]), "radii": [dict(x) for x in v[6]], "zero": sorted(v[7]), "purity": {"container": v[8]["container"], "batched": bool(v[8]["batched"]), "repeats": int(v[8]["repeats"]), "ops": list(v[8]["ops"])}}
    if len(out) != len(cases):
        raise Machinery("plan: %d of %d cases came back" % (len(out), len(cases)))
    return out


def judge(ctx, records, workers=8):
    """records: [{id, q, S, ents}] -> {id: set((j, clause))} decided by TLC, in batches of at most
    MAX_BATCH recorded answers per TLC run."""
    records = [r for r in records if r["ents"]]
    if not records:
        return {}
    batches = chunks_by(records, lambda r: len(r["ents"]))
    out = {}
    for r in run_batches(ctx, "JudgeNearest", CFG % "Judge", batches, "judge recorded answers", False, weight=lambda b: sum(len(x["ents"]) for x in b)):
        for v in r.prints:
            if isinstance(v, tuple) and len(v) == 3 and v[0] == "V":
                out[v[1]] = {(int(x[0]), str(x[1])) for x in v[2]}
    ctx.traces += sum(len(x["ents"]) for x in records)
    return out


# ------------------------------------------------------------------ numeric side
def angle_of(descr):
    return lattice.geodesic(descr)


def dist_in_unit(descr, unit):
    """unit: 'rad' | 'deg' (great circle) | 'chord'"""
    a = lattice.geodesic(descr)
    if unit == "rad":
        return a
    if unit == "deg":
        return a * RAD2DEG
    return 2.0 * math.sin(a / 2.0)


def unit_scale(unit):
    return RAD2DEG if unit == "deg" else 1.0


def class_dists(pl, unit):
    """Float distance of each exact class (in unit), and consistency of evaluation with
    the exact order (a machinery check: the evaluated descriptors must be strictly
    increasing with the class index)."""
    ncls = max(pl["cls"]) + 1
    d = [None] * ncls
    for e, c in enumerate(pl["cls"]):
        v = dist_in_unit(pl["descr"][e], unit)
        if d[c] is None:
            d[c] = v
        elif abs(d[c] - v) > 1e-9 * unit_scale(unit):
            raise Machinery("descriptor evaluation disagrees inside an exact tie class")
    for a, b in zip(d, d[1:]):
        if not (b - a > 1e-7 * unit_scale(unit)):
            raise Machinery("descriptor evaluation not increasing with the exact class index: %r" % (d,))
    return d


def radius_for(pl, unit, c):
    """Float midpoint between class c and class c+1 (c = -1: between 0 and class 0, None when
    class 0 is at distance 0; c = last: beyond the last class)."""
    d = class_dists(pl, unit)
    if c == -1:
        if d[0] < 1e-6 * unit_scale(unit):
            return None
        return d[0] / 2.0
    if c == len(d) - 1:
        if unit == "chord":
            return d[-1] + 0.05
        # beyond the last class, but never beyond 180 degrees: no great-circle distance exceeds it, and
        # scikit-learn's haversine reduced distance sin^2(r/2) is not monotone there (not exercised)
        r = d[-1] + 0.05 * unit_scale(unit)
        return r if r < math.pi * unit_scale(unit) - 1e-6 else None
    return (d[c] + d[c + 1]) / 2.0


def class_of_radius(pl, unit, r):
    """Class index such that r lies strictly between class c and c+1, or None when r is
    within 1e-6 of a class distance (then the case is not judged)."""
    d = class_dists(pl, unit)
    m = 1e-6 * unit_scale(unit)
    if any(abs(r - x) < m for x in d):
        return None
    return sum(1 for x in d if x < r) - 1


def dist_errors(pl, unit, idx, dist):
    """Indices (positions in the answer) whose reported distance is not the evaluated exact one."""
    bad = []
    sc = unit_scale(unit)
    for pos, (e, dv) in enumerate(zip(idx, dist)):
        if not (0 <= e < len(pl["descr"])):
            continue
        exp = dist_in_unit(pl["descr"][e], unit)
        tol = (TOL_ANTI if pl["anti"][e] else TOL) * sc
        if not (abs(float(dv) - exp) <= tol):
            bad.append((pos, int(e), float(dv), exp))
    return bad


# ------------------------------------------------------------------ float oracle
def float_dists(coords, qc, metric):
    """coords: (n, d) array the tree was built from; qc: (d,) presented query (same units);
    metric 'minkowski' | 'euclidean' (L2) or 'manhattan' (L1)."""
    diff = np.asarray(coords, dtype=float) - np.asarray(qc, dtype=float)[None, :]
    if metric in ("minkowski", "euclidean", "l2"):
        return np.sqrt(np.sum(diff * diff, axis=1))
    if metric in ("manhattan", "cityblock", "l1"):
        return np.sum(np.abs(diff), axis=1)
    raise Machinery("float oracle: metric " + metric)


def float_knn_failed(d, k, res, scale=1.0):
    """Clauses false for a k-nearest answer under float distances d (tie margin TIE)."""
    n = len(d)
    out = set()
    res = list(res)
    if len(res) != k or any(not (0 <= e < n) for e in res) or len(set(res)) != len(res):
        out.add("KnnShape")
        res = [e for e in res if 0 <= e < n]
    m = TIE * scale
    for a, b in zip(res, res[1:]):
        if d[a] > d[b] + m:
            out.add("NearestFirst")
    if res:
        inside = set(res)
        worst = max(d[e] for e in res)
        for e in range(n):
            if e not in inside and d[e] < worst - m:
                out.add("TrueNearest")
                break
    return out


def float_radius_failed(d, r, res, scale=1.0):
    """Clauses false for a radius answer; elements within TIE of the radius are free."""
    n = len(d)
    out = set()
    res = list(res)
    if any(not (0 <= e < n) for e in res) or len(set(res)) != len(res):
        out.add("RadShape")
        res = [e for e in res if 0 <= e < n]
    m = TIE * scale
    inside = set(res)
    for e in range(n):
        if d[e] < r - m and e not in inside:
            out.add("RadiusMissing")
        if d[e] > r + m and e in inside:
            out.add("RadiusExtra")
    return out


def make_container(kind, rows, single):
    """A caller-owned coordinate container of the given kind holding `rows` (list of coordinate
    lists); single: one point passed as a 1-D container.  Returns (container, keepalive)."""
    a = np.array(rows[0] if single else rows, dtype=float)
    if kind == "f64":
        return np.array(a, dtype=np.float64, order="C"), None
    if kind == "f32":
        return np.array(a, dtype=np.float32), None
    if kind == "f64F":
        return np.asfortranarray(a, dtype=np.float64), None
    if kind == "view":
        if single:
            big = np.full(a.shape[0] + 4, 7.5)
            big[2 : 2 + a.shape[0]] = a
            return big[2 : 2 + a.shape[0]], big
        big = np.full((2 * a.shape[0] + 1, a.shape[1] + 2), 7.5)
        big[1::2, 1:-1] = a
        return big[1::2, 1:-1], big
    if kind == "list":
        return ([float(x) for x in a] if single else [[float(x) for x in r] for r in a]), None
    if kind == "tuple":
        return (tuple(float(x) for x in a) if single else tuple(tuple(float(x) for x in r) for r in a)), None
    raise Machinery("container kind " + kind)


def fingerprint(c, keep=None):
    """Deep fingerprint of a container (and of the array a view looks into)."""
    if isinstance(c, np.ndarray):
        fp = (str(c.dtype), c.shape, c.strides, c.tobytes())
        return fp + ((keep.tobytes(),) if keep is not None else ())
    return repr(c)


# ------------------------------------------------------------------ polar caps
def cap_mesh(pole, places, unit_inv, shift=(0, 0)):
    """Disjoint 3x3 patches of quads whose central face centre lies `place` units (1 unit = 1/unit_inv rad
    = 0.01 degree) from the pole, one patch per place, in different directions.  Nodes are the integer
    directions (x, y, pole * unit_inv) -- the gnomonic lattice at the pole; no element lies strictly between
    the pole and one unit.  Returns an entry-like dict (nodes, faces, place of each face)."""
    nodes, faces, fplace = [], [], []
    for k, r in enumerate(places):
        phi = math.radians(25.0 + 67.0 * k)
        cx, cy = int(round(r * math.cos(phi))) + shift[0], int(round(r * math.sin(phi))) + shift[1]
        if r == 1:
            cx, cy = 1 + shift[0], 0 + shift[1]
        base = len(nodes)
        for j in range(4):
            for i in range(4):
                nodes.append([cx + 2 * i - 3, cy + 2 * j - 3, pole * unit_inv])
        for j in range(3):
            for i in range(3):
                a = base + j * 4 + i
                quad = [a, a + 1, a + 5, a + 4]
                faces.append(quad if pole > 0 else quad[::-1])  # counter-clockwise seen from outside
                fplace.append(r)
    return {"name": "polar_cap_%s" % ("N" if pole > 0 else "S"), "rot": 0, "cut": -1, "nodes": nodes, "faces": faces, "face_place": fplace, "closed": False}


def cap_reference(entry, g, kind):
    """Exact element directions (unit vectors, float) of a cap mesh in the grid's index order, computed
    from the integer corner directions only: nodes; normalised mean of the corners' unit vectors."""
    if kind == "nodes":
        return np.array([lattice.unit(v) for v in entry["nodes"]])
    if kind == "face centers":
        return np.array([lattice.centroid_dir([entry["nodes"][i] for i in f]) for f in entry["faces"]])
    en = np.asarray(g.edge_node_connectivity.values).tolist()
    return np.array([lattice.centroid_dir([entry["nodes"][a], entry["nodes"][b]]) for a, b in en])


def angles_to(ref, qdir):
    """Great-circle angles (robust atan2 form) from the direction qdir to every row of ref."""
    u = lattice.unit(qdir)
    return np.array([lattice.ang_between(u, r) for r in ref])


def cap_queries(entry, unit_inv, pole, rng, per_patch=5):
    """Query directions inside the cap: half-unit lattice points around every patch, the pole itself."""
    out = [[0, 0, pole]]
    nf = len(entry["faces"])
    for p0 in range(0, nf, 9):
        c = [sum(entry["nodes"][i][k] for i in entry["faces"][p0 + 4]) for k in range(2)]  # 4 x the central face centre
        for _ in range(per_patch):
            out.append([2 * c[0] // 4 + rng.randint(-7, 7), 2 * c[1] // 4 + rng.randint(-7, 7), 2 * pole * unit_inv])
    return out


GRID_VARS = [p + "_" + c for p in ("node", "face", "edge") for c in ("lon", "lat", "x", "y", "z")] + ["face_node_connectivity", "edge_node_connectivity"]


def grid_fingerprint(g):
    """Values of every coordinate and of the two basic connectivity tables of a grid (all of
    them materialised by this call, so that a later lazy derivation is not mistaken for a change)."""
    return {v: (str(np.asarray(getattr(g, v).values).dtype), np.asarray(getattr(g, v).values).tobytes()) for v in GRID_VARS}


def flat_int(a):
    return [int(x) for x in np.atleast_1d(np.asarray(a)).ravel()]


def flat_float(a):
    return [float(x) for x in np.atleast_1d(np.asarray(a, dtype=float)).ravel()]

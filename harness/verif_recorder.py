"""pytest plugin (-p verif_recorder, PYTHONPATH=/verif/harness): records what the repository's own
tests do to Grid objects and checks, when each test ends, that every variable lazily derived on
every grid the test created equals the value a fresh grid built from the same dataset derives
(C08's StoredFresh clause on the histories the existing suite already performs), and that the
module-level constants are unchanged (Templates).

Switched on only with UXARRAY_VERIF=1; writes one ndjson record per test to $VERIF_RECORD_FILE.
No source hook: Grid.__init__ and the public mutators are wrapped from outside at import time."""

from __future__ import annotations

import json
import os
import sys
import weakref

_ON = os.environ.get("UXARRAY_VERIF") == "1" and os.environ.get("VERIF_RECORD_FILE")
_REG = []  # (weakref to grid, dataset copy, spec, dims)
_OUT = None
_T0 = None


def _install():
    sys.path.insert(0, "/verif")
    import uxarray  # noqa
    from uxarray.grid.grid import Grid

    from harness import gridops as G

    global _T0
    G.templates_init()
    orig_init = Grid.__init__

    def init(self, grid_ds, source_grid_spec=None, source_dims_dict={}):
        try:
            saved = grid_ds.copy(deep=True)
        except Exception:  # noqa
            saved = None
        orig_init(self, grid_ds, source_grid_spec, source_dims_dict)
        if saved is not None:
            _REG.append((self, saved, source_grid_spec, source_dims_dict))  # strong: the grid must outlive the test body

    Grid.__init__ = init

    def wrap_mut(name):
        f = getattr(Grid, name)

        def g(self, *a, **k):
            self.__dict__["_verif_mutated"] = True
            return f(self, *a, **k)

        g.__name__ = name
        setattr(Grid, name, g)

    for name in ("normalize_cartesian_coordinates", "construct_face_centers"):
        wrap_mut(name)

    # which variables were derived through the PUBLIC interface (tests also call private
    # helpers such as _populate_node_latlon directly; what those leave behind is not a
    # state the public API can reach and is not judged)
    def public(f):
        def w(self, *a, **k):
            d = self.__dict__
            outer = not d.get("_verif_depth")
            if outer:
                d["_verif_depth"] = 1
                try:
                    before = set(map(str, self._ds.variables))
                except Exception:  # noqa
                    before = None
            try:
                return f(self, *a, **k)
            finally:
                if outer:
                    d["_verif_depth"] = 0
                    if before is not None:
                        try:
                            d.setdefault("_verif_public", set()).update(set(map(str, self._ds.variables)) - before)
                        except Exception:  # noqa
                            pass

        w.__name__ = getattr(f, "__name__", "w")
        w.__doc__ = getattr(f, "__doc__", None)
        return w

    for name, attr in list(vars(Grid).items()):
        if name.startswith("_"):
            continue
        if isinstance(attr, property):
            setattr(Grid, name, property(public(attr.fget) if attr.fget else None, attr.fset, attr.fdel, attr.__doc__))
        elif callable(attr) and not isinstance(attr, (classmethod, staticmethod, type)) and type(attr).__name__ == "function":
            setattr(Grid, name, public(attr))
    for name, attr in list(vars(Grid).items()):
        if isinstance(attr, property) and attr.fset is not None:

            def mk(fset):
                def s(self, value):
                    self.__dict__["_verif_mutated"] = True
                    return fset(self, value)

                return s

            setattr(Grid, name, property(attr.fget, mk(attr.fset), attr.fdel, attr.__doc__))


def _judge_test(nodeid):
    from uxarray.grid.grid import Grid

    from harness import gridops as G

    checked = 0
    bad = []
    grids = 0
    for ref, saved, spec, dims in list(_REG):
        g = ref
        if g.__dict__.get("_verif_mutated"):
            continue
        pub = g.__dict__.get("_verif_public", set())
        derived = [str(v) for v in g._ds.variables if str(v) in pub and str(v) not in saved.variables and str(v) not in G.UNJUDGED_VARS and not str(v).startswith("subgrid_")]
        if not derived:
            continue
        grids += 1
        try:
            import warnings

            with warnings.catch_warnings():
                warnings.simplefilter("ignore")
                fresh = Grid(saved.copy(deep=True), spec, dims)
        except Exception:  # noqa
            continue
        for name in derived:
            if not isinstance(getattr(Grid, name, None), property):
                continue
            try:
                ref_fp = G._fp_dataarray(getattr(fresh, name))
                cur_fp = G._fp_dataarray(g._ds[name])
            except Exception:  # noqa: a fresh grid cannot derive it (or it is not an array): nothing to compare
                continue
            checked += 1
            ok, where = G.fp_equal(cur_fp, ref_fp)
            if not ok:
                bad.append("%s:%s" % (name, where[:80]))
    tmpl = G.templates_changed()
    if tmpl:
        G.templates_restore()
    return {"test": nodeid, "grids": grids, "checked": checked, "bad": sorted(bad), "tmpl": tmpl}


if _ON:
    _install()

    def pytest_runtest_teardown(item, nextitem):
        global _OUT
        try:
            rec = _judge_test(item.nodeid)
        except Exception as e:  # noqa
            rec = {"test": item.nodeid, "grids": 0, "checked": 0, "bad": [], "tmpl": [], "recorder_error": "%s: %s" % (type(e).__name__, e)}
        if _OUT is None:
            _OUT = open(os.environ["VERIF_RECORD_FILE"], "a")
        _OUT.write(json.dumps(rec) + "\n")
        _OUT.flush()
        _REG.clear()

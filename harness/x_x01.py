"""X01 helpers: TLC scope runs (IntersectScope.tla), replay into uxarray.grid.intersections and its users,
judging with JudgeIntersect.tla.  Python materialises float inputs, applies the metamorphic maps, evaluates
float residuals of returned points against the *float inputs it passed* and turns them into 0/1 tokens with a
stated tolerance; every classification, count and verdict is TLC's."""

from __future__ import annotations

import json
import math
import os

from . import x_c14 as XC
from .core import Machinery

TOL = 1e-10        # returned points of gca_const_lat_intersection: unit length, z = c, on the arc
TOL_TOUCH = 1e-8   # returned points of gca_gca_intersection in touching / coplanar configurations (ERROR_TOLERANCE)
Z_MARGIN = 1e-6

LAWS_P = ["InvInterAtMostOne", "InvInterSubset", "InvInterSwapArcs", "InvInterReverse", "InvInterRot", "InvInterSigns", "InvCoplanar"]
LAWS_Z = ["InvLatReverse", "InvLatRotZ", "InvLatFlipC", "InvLatRange", "InvLatParity", "InvLatLattice"]
LAWS_T = ["InvLatShrunk"]

P_VARIANTS = ["base", "swapArcs", "reverseFirst", "jitter", "rotG"]
Z_VARIANTS = ["base", "swapEnds", "rotZ", "flipNS", "jitter", "rotG"]
SZ_VARIANTS = ["base", "swapEnds", "jitter"]
S_KS = [1, 3, 5]


def scope(ctx, K, stages, stride=1, emit_pairs=True, emit_lats=True, first_canon=False, workers=8, what=""):
    invs = ["TypeOK"]
    if "P" in stages:
        invs += LAWS_P
    if "Z" in stages:
        invs += LAWS_Z
    if "T" in stages:
        invs += LAWS_T
    invs += ["EmitPair", "EmitLat", "EmitShrunk"]
    cfg = (
        "SPECIFICATION Spec\nCONSTANTS\n K = %d\n Stages = {%s}\n FirstCanon = %s\n PairStride = %d\n EmitPairs = %s\n EmitLats = %s\n"
        % (K, ",".join('"%s"' % s for s in stages), "TRUE" if first_canon else "FALSE", stride,
           "TRUE" if emit_pairs else "FALSE", "TRUE" if emit_lats else "FALSE")
        + "".join("INVARIANT %s\n" % i for i in invs)
        + "CHECK_DEADLOCK FALSE\n"
    )
    r = ctx.tlc_ok("IntersectScope", cfg, what=what or "intersection laws + cases on |c|<=%d stages=%s" % (K, list(stages)), workers=workers, timeout=3000)
    pairs, lats, shr = [], [], []
    for v in XC.extract_prints(r.out):
        if v[0] == "P":
            pairs.append({"a": list(v[1]), "b": list(v[2]), "c": list(v[3]), "d": list(v[4]), "config": v[5]})
        elif v[0] == "Z":
            lats.append({"a": list(v[1]), "b": list(v[2]), "cz": list(v[3]), "count": v[4], "judged": bool(v[5]), "straddles": bool(v[6])})
        elif v[0] == "T":
            shr.append({"a": list(v[1]), "b": list(v[2]), "p": list(v[3]), "cz": list(v[4])})
    pairs.sort(key=lambda e: (e["a"], e["b"], e["c"], e["d"]))
    lats.sort(key=lambda e: (e["a"], e["b"], e["cz"]))
    shr.sort(key=lambda e: (e["a"], e["b"], e["p"]))
    return r, pairs, lats, shr


def judge(ctx, records, what, workers=8):
    if not records:
        return [], []
    path = os.path.join(ctx.work, "x01_%d.ndjson" % len(ctx.tlc_runs))
    with open(path, "w") as fh:
        for r in records:
            fh.write(json.dumps(r, separators=(",", ":")) + "\n")
    res = ctx.tlc_ok("JudgeIntersect", "INIT Init\nNEXT Next\nINVARIANT Judge\nCHECK_DEADLOCK FALSE\n", what=what,
                     env={"REC_FILE": path}, workers=workers, count=False, timeout=3000)
    os.remove(path)
    pr = XC.extract_prints(res.out)
    V = [v for v in pr if v[0] == "V"]
    S = [v for v in pr if v[0] == "S"]
    if len(S) != len(records):
        raise Machinery("JudgeIntersect answered %d of %d records (%s)" % (len(S), len(records), what))
    return V, S


# ------------------------------------------------------------------------------- floats
def cval(c):
    s, num, den = c
    return s * math.sqrt(num / den)


def flip_ns(v):
    return [v[0], -v[1], -v[2]]


def on_arc(q, A, B, tol):
    """float point q within tol of the closed float arc (A, B): unit length, in the plane, not behind an endpoint"""
    import numpy as np

    if q.shape != (3,) or not np.all(np.isfinite(q)):
        return 0
    n = np.cross(A, B)
    n = n / np.linalg.norm(n)
    if abs(float(np.linalg.norm(q)) - 1.0) > tol or abs(float(np.dot(n, q))) > tol:
        return 0
    if float(np.dot(np.cross(A, q), n)) < -tol or float(np.dot(np.cross(q, B), n)) < -tol:
        return 0
    return 1


_FN = {}


def fns():
    if not _FN:
        from . import ux as hux

        hux.import_ux()
        from uxarray.grid.intersections import fast_constant_lat_intersections, gca_const_lat_intersection, gca_gca_intersection

        _FN.update(gi=gca_gca_intersection, cl=gca_const_lat_intersection, fast=fast_constant_lat_intersections)
        _FN["needs_pyfma"] = _probe_optional_dependency(gca_const_lat_intersection)
    return _FN


def _probe_optional_dependency(cl):
    """Does the default path still need the *optional* package pyfma (extra "math" in pyproject.toml)?

    `uxarray.utils.computing._fmms` is called directly, then gca_const_lat_intersection (fma_disabled=True) on an arc
    that crosses the parallel.  Only if one of them raises ModuleNotFoundError for pyfma is an exact fused-multiply-add
    stand-in installed (so that everything else can still be judged); the check then reports the clause "Raises/pyfma",
    which no known finding suppresses.  Returns the error text or None."""
    import sys

    import numpy as np
    from uxarray.utils.computing import _fmms

    err = None
    try:
        _fmms(3.0, 2.0, 1.0, 1.0)
        cl(np.array([XC.unit([1, 0, 0]), XC.unit([0, 1, 1])]), 0.5)
    except ModuleNotFoundError as e:
        if "pyfma" not in str(e):
            raise
        err = "%s: %s" % (type(e).__name__, e)
    if err is not None and "pyfma" not in sys.modules:
        import types
        from fractions import Fraction

        shim = types.ModuleType("pyfma")
        shim.fma = lambda a, b, c: float(Fraction(float(a)) * Fraction(float(b)) + Fraction(float(c)))  # one rounding
        sys.modules["pyfma"] = shim
    return err


def warm_up():
    import numpy as np

    f = fns()
    a, b = XC.unit([1, 0, 1]), XC.unit([0, 1, 1])
    try:
        f["gi"](np.array([a, b]), np.array([XC.unit([1, 1, 1]), XC.unit([1, 1, -1])]))
        f["cl"](np.array([a, b]), 0.8)
    except Exception:  # noqa
        pass


# ------------------------------------------------------------------------------- "P"
def p_inputs(a, b, c, d, v, th, rng):
    import numpy as np

    u = XC.unit
    if v == 0:
        return np.array([u(a), u(b)]), np.array([u(c), u(d)])
    if v == 1:
        return np.array([u(c), u(d)]), np.array([u(a), u(b)])
    if v == 2:
        return np.array([u(b), u(a)]), np.array([u(c), u(d)])
    if v == 3:
        g = lambda w: XC.jitter(u(w), rng)  # noqa
        return np.array([g(a), g(b)]), np.array([g(c), g(d)])
    g = lambda w: XC.rotg(u(w), th)  # noqa
    return np.array([g(a), g(b)]), np.array([g(c), g(d)])


def replay_p(rec):
    import numpy as np

    gi = fns()["gi"]
    a, b, th, js = rec["a"], rec["b"], rec["theta"], rec["jseed"]
    out = []
    for j, (c, d) in enumerate(rec["o"]):
        row = []
        for v in range(len(P_VARIANTS)):
            g1, g2 = p_inputs(a, b, c, d, v, th, XC.jrng(js, rec.get("j0", 0) + j))
            try:
                res = np.asarray(gi(g1, g2), dtype=float)
                if res.size == 0:
                    row.append([0, 0, 0])
                else:
                    res = res.reshape(-1, 3)
                    t = [1 if on_arc(q, g1[0], g1[1], TOL_TOUCH) and on_arc(q, g2[0], g2[1], TOL_TOUCH) else 0 for q in res[:2]] + [0, 0]
                    row.append([int(res.shape[0]), t[0], t[1]])
            except Exception:  # noqa
                row.append([-1, 0, 0])
        out.append(row)
    return {"kind": "P", "id": rec["id"], "a": a, "b": b, "o": rec["o"], "r": out, "nx": 3, "jv": 4}


# ------------------------------------------------------------------------------- "Z", "SZ"
def _project_cl(res, gca, c, tol_arc):
    import numpy as np

    res = np.asarray(res, dtype=float)
    if res.size == 0:
        return [0, 0, 0, 0, 0, 0, 0, 0]
    res = res.reshape(-1, 3)
    out = [int(res.shape[0])]
    for q in list(res[:2]) + [None] * (2 - min(2, res.shape[0])):
        if q is None or not np.all(np.isfinite(q)):
            out += [0, 0, 0]
            continue
        out += [1 if abs(float(np.linalg.norm(q)) - 1.0) <= TOL else 0,
                1 if abs(float(q[2]) - c) <= TOL else 0,
                on_arc(q / np.linalg.norm(q), gca[0], gca[1], tol_arc)]
    out.append(1 if res.shape[0] >= 2 and float(np.max(np.abs(res[0] - res[1]))) > 1e-8 else 0)
    return out


def z_inputs(a, b, c, v, kz, th, rng):
    import numpy as np

    u = XC.unit
    if v == 0:
        return np.array([u(a), u(b)]), c
    if v == 1:
        return np.array([u(b), u(a)]), c
    if v == 2:
        return np.array([u(XC.rotz_int(a, kz)), u(XC.rotz_int(b, kz))]), c
    if v == 3:
        return np.array([u(flip_ns(a)), u(flip_ns(b))]), -c
    if v == 4:
        return np.array([XC.jitter(u(a), rng), XC.jitter(u(b), rng)]), c
    return np.array([XC.rotg(u(a), th), XC.rotg(u(b), th)]), c


def replay_z(rec):
    cl = fns()["cl"]
    a, b, kz, th, js = rec["a"], rec["b"], rec["kz"], rec["theta"], rec["jseed"]
    out = []
    for j, cd in enumerate(rec["cs"]):
        c = cval(cd)
        row = []
        for v in range(len(Z_VARIANTS)):
            gca, cv = z_inputs(a, b, c, v, kz, th, XC.jrng(js, rec.get("j0", 0) + j))
            try:
                row.append(_project_cl(cl(gca, cv), gca, cv, TOL))
            except Exception:  # noqa
                row.append([-1, 0, 0, 0, 0, 0, 0, 0])
        out.append(row)
    return {"kind": "Z", "id": rec["id"], "a": a, "b": b, "cs": rec["cs"], "r": out, "nx": 4, "jv": 5}


def replay_sz(rec):
    import numpy as np

    from . import lattice

    cl = fns()["cl"]
    a, b, p, js = rec["a"], rec["b"], rec["p"], rec["jseed"]
    c = p[2] / math.sqrt(p[0] * p[0] + p[1] * p[1] + p[2] * p[2])
    out, zm = [], []
    for ki, k in enumerate(rec["ks"]):
        A, B = XC.shr(10 ** k, p, a), XC.shr(10 ** k, p, b)
        za = A[2] / math.sqrt(A[0] * A[0] + A[1] * A[1] + A[2] * A[2])
        zb = B[2] / math.sqrt(B[0] * B[0] + B[1] * B[1] + B[2] * B[2])
        zm.append(1 if abs(za - c) >= Z_MARGIN and abs(zb - c) >= Z_MARGIN else 0)
        ln = lattice.ang_between(XC.unit(A), XC.unit(B))
        tol_arc = TOL + 2e-15 / ln
        row = []
        for v in range(len(SZ_VARIANTS)):
            if v == 0:
                gca = np.array([XC.unit(A), XC.unit(B)])
            elif v == 1:
                gca = np.array([XC.unit(B), XC.unit(A)])
            else:
                rng = XC.jrng(js, ki)
                gca = np.array([XC.jitter(XC.unit(A), rng), XC.jitter(XC.unit(B), rng)])
            try:
                row.append(_project_cl(cl(gca, c), gca, c, tol_arc))
            except Exception:  # noqa
                row.append([-1, 0, 0, 0, 0, 0, 0, 0])
        out.append(row)
    return {"kind": "SZ", "id": rec["id"], "a": a, "b": b, "p": p, "ks": rec["ks"], "zm": zm, "r": out, "nx": 2, "jv": 3}


# ------------------------------------------------------------------------------- "F", "G"
def lat_deg_of(c):
    return math.degrees(math.asin(max(-1.0, min(1.0, cval(c)))))


def replay_f(rec):
    import numpy as np

    fast = fns()["fast"]
    z = np.array([[XC.unit(a)[2], XC.unit(b)[2]] for a, b in rec["arcs"]], dtype=float)
    try:
        ret = [_small(x) for x in np.atleast_1d(np.asarray(fast(lat_deg_of(rec["cz"]), z, len(rec["arcs"])))).ravel()]
        err = 0
    except Exception:  # noqa
        ret, err = [], 1
    return {"kind": "F", "id": rec["id"], "cz": rec["cz"], "arcs": rec["arcs"], "ret": ret, "err": err}


def _small(x):
    """indices as JSON-safe integers: anything absurd (a fill value that leaked out) becomes -7, which no spec set contains"""
    x = int(x)
    return x if abs(x) < 2 ** 30 else -7


def replay_g(rec):
    import numpy as np

    from . import lattice
    from . import ux as hux

    ux = hux.import_ux()
    INT_DTYPE, FILL = hux.consts()
    out = []
    try:
        ll = [lattice.lonlat_deg(v) for v in rec["nodes"]]
        g = ux.Grid.from_topology(np.array([x[0] for x in ll], dtype=float), np.array([x[1] for x in ll], dtype=float),
                                  hux.pad_table(rec["faces"]), fill_value=FILL)
        en = np.asarray(g.edge_node_connectivity.values)
    except Exception as e:  # noqa
        return {"kind": "G", "id": rec["id"], "nodes": rec["nodes"], "faces": rec["faces"], "cs": rec["cs"],
                "r": [[[], [], [], [1, 1, 1, 0]] for _ in rec["cs"]], "error": "%s: %s" % (type(e).__name__, str(e)[:120])}
    for cd in rec["cs"]:
        lat = lat_deg_of(cd)
        flags = [0, 0, 0, 0]
        ep, fs, cs = [], [], []
        try:
            e = np.atleast_1d(np.asarray(g.get_edges_at_constant_latitude(lat))).astype(int).ravel()
            ep = [[_small(en[k][0]), _small(en[k][1])] for k in e]
        except Exception:  # noqa
            flags[0] = 1
        try:
            fs = [_small(x) for x in np.atleast_1d(np.asarray(g.get_faces_at_constant_latitude(lat))).ravel()]
        except Exception:  # noqa
            flags[1] = 1
        try:
            sub, idx = g.cross_section.constant_latitude(lat, return_face_indices=True)
            cs = [_small(x) for x in np.atleast_1d(np.asarray(idx)).ravel()]
            flags[3] = int(sub.n_face)
        except Exception:  # noqa
            flags[2] = 1
        out.append([ep, fs, cs, flags])
    return {"kind": "G", "id": rec["id"], "nodes": rec["nodes"], "faces": rec["faces"], "cs": rec["cs"], "r": out}

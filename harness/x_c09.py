"""C09 replay driver: builds a source grid, replays one selection (or one SliceLazy behaviour)
into the public API, and projects what the result reports into the record JudgeSubset.tla reads.

Nothing here decides a combinatorial or geometric verdict.  Python materialises inputs (float
bounds placed strictly between consecutive classes of reference points; the judge re-verifies
every such gap exactly), projects outputs (index tables, the source position each result node
sits on), and evaluates float equalities with the tolerance 1e-12 into boolean flags.
"""

from __future__ import annotations

import math
import os
import random

# idle OpenMP workers sleep instead of spinning: with a dozen processes sharing the machine a 16-thread
# scan otherwise costs ~0.2 s per call.  Waiting policy only; the schedule of the scan is untouched.
os.environ.setdefault("OMP_WAIT_POLICY", "PASSIVE")

import numpy as np

from . import catalog, lattice, meshgen
from . import ux as hux

VARS = [
    "npf",
    "edge_node",
    "face_edge",
    "edge_face",
    "node_face",
    "face_face",
    "holes",
    "face_centres",
    "edge_centres",
    "areas",
    "edge_z",
    "edge_dist",
    "edge_face_dist",
    "bounds",
]
ATTR = {
    "npf": "n_nodes_per_face",
    "edge_node": "edge_node_connectivity",
    "face_edge": "face_edge_connectivity",
    "edge_face": "edge_face_connectivity",
    "node_face": "node_face_connectivity",
    "face_face": "face_face_connectivity",
    "holes": "hole_edge_indices",
    "face_centres": "face_lon",
    "edge_centres": "edge_lon",
    "areas": "face_areas",
    "edge_z": "edge_node_z",
    "edge_dist": "edge_node_distances",
    "edge_face_dist": "edge_face_distances",
    "bounds": "bounds",
}
TABLE_KEY = {
    "edge_node": "edges",
    "face_edge": "face_edges",
    "edge_face": "edge_faces",
    "node_face": "node_faces",
    "face_face": "face_faces",
}
THREADS = [1, 2, 4, 16]
TOL = 1e-12
UNIFORM = {"octahedron", "tetrahedron", "cube", "cuboctahedron", "truncated_octahedron", "truncated_cube", "rhombicuboctahedron"}

_ENTRY = {}


def entry(key):
    if not _ENTRY:
        for e in catalog.entries():
            _ENTRY[catalog.eid(e)] = e
    return _ENTRY[key]


# --------------------------------------------------------------------------- sources
def own_edges(faces, seed):
    """The harness's own edge table of a mesh: every side once, numbering and end order scrambled."""
    seen = {}
    for f in faces:
        for j in range(len(f)):
            a, b = f[j], f[(j + 1) % len(f)]
            seen.setdefault((min(a, b), max(a, b)), None)
    rows = [list(k) for k in seen]
    rng = random.Random(seed * 7919 + 13)
    rng.shuffle(rows)
    return [r if rng.random() < 0.5 else r[::-1] for r in rows]


def source_geometry(src):
    """-> dict(lon, lat, faces, nodes (int dirs or None), latint or None)"""
    if src["t"] == "cat":
        e = entry(src["eid"])
        ll = [lattice.lonlat_deg(v) for v in e["nodes"]]
        return {"lon": [a for a, _ in ll], "lat": [b for _, b in ll], "faces": e["faces"], "nodes": e["nodes"], "name": e["name"]}
    if src["t"] == "fine":
        # the part of a catalogue mesh inside an 80-degree cap around `centre`, shrunk by 1/M about it: in exact
        # integers v -> (M-1)(v.c) c + (c.c) v (gnomonic projection, homothety of the tangent plane).  The map is
        # linear, keeps incidence, convexity and orientation, keeps the ORDER OF DISTANCES from c (tan t' = tan t / M),
        # and for c a pole also every longitude and the order of latitudes (SubsetGen.tla: ShrinkLaws), so TLC decides
        # the selections on the base vectors; the judge refuses any other use (precondition fine_not_scale_free)
        e = entry(src["eid"])
        c, M = src["centre"], src["M"]
        cc = sum(x * x for x in c)
        dot = lambda v: sum(v[k] * c[k] for k in range(3))
        inside = lambda v: dot(v) > 0 and 100 * dot(v) ** 2 > 3 * cc * sum(x * x for x in v)  # within ~80 degrees
        faces = [f for f in e["faces"] if all(inside(e["nodes"][k]) for k in f)]
        used = sorted({k for f in faces for k in f})
        new = {old: i for i, old in enumerate(used)}
        faces = [[new[k] for k in f] for f in faces]
        nodes = [list(e["nodes"][k]) for k in used]
        geo = {"faces": faces, "nodes": nodes, "name": e["name"], "fine": {"c": list(c), "M": M, "cc": cc}}
        ll = [lattice.lonlat_deg(image(geo, v)) for v in nodes]
        geo["lon"], geo["lat"] = [a for a, _ in ll], [b for _, b in ll]
        return geo
    if src["t"] == "planar":
        rng = random.Random(src["seed"])
        lon, lat, faces = meshgen.planar_mixed(src["nx"], src["ny"], rng, holes=src.get("holes", 0.0))
        return {"lon": lon, "lat": lat, "faces": faces, "nodes": None, "name": "planar"}
    if src["t"] == "latlon":
        # quads of a regular longitude-latitude grid between the polar caps, integer degrees
        nx, ny, dlat = src["nx"], src["ny"], src["dlat"]
        lat0 = -dlat * ny // 2
        lon, lat, latint = [], [], []
        for j in range(ny + 1):
            for i in range(nx):
                lon.append(-180.0 + 360.0 * i / nx + (0.5 if src.get("shift") else 0.0))
                lat.append(float(lat0 + dlat * j))
                latint.append(2 * (lat0 + dlat * j))
        faces = []
        for j in range(ny):
            for i in range(nx):
                a, b = j * nx + i, j * nx + (i + 1) % nx
                faces.append([a, b, b + nx, a + nx])
        rng = random.Random(src.get("seed", 0))
        rng.shuffle(faces)
        return {"lon": lon, "lat": lat, "faces": faces, "nodes": None, "latint": latint, "name": "latlon"}
    if src["t"] == "file":
        # a sample file of the repository (code -> spec direction): geometry is read back from the grid itself
        ux = hux.import_ux()
        INT_DTYPE, FILL = hux.consts()
        g = ux.open_grid(os.path.join(hux.REPO, src["path"]))
        conn = np.asarray(g.face_node_connectivity.values)
        faces = [[int(x) for x in row if x != FILL] for row in conn]
        return {"lon": [float(x) for x in g.node_lon.values], "lat": [float(x) for x in g.node_lat.values], "faces": faces, "nodes": None, "name": src["path"], "path": os.path.join(hux.REPO, src["path"])}
    raise ValueError(src)


def image(geo, v):
    """Where the source puts the lattice direction v (identity except for fine sources)."""
    f = geo.get("fine")
    if not f:
        return list(v)
    c, M, cc = f["c"], f["M"], f["cc"]
    d = sum(v[k] * c[k] for k in range(3))
    return [(M - 1) * d * c[k] + cc * v[k] for k in range(3)]


def supplied_refs(geo, E):
    """Lattice reference points a source may SUPPLY as its face / edge centres: strictly inside the face / on the
    edge, but deliberately not the centroid / midpoint (sum of the corners plus the first corner; 2a + b)."""
    n = geo["nodes"]
    fr = [[sum(n[c][k] for c in f) + n[f[0]][k] for k in range(3)] for f in geo["faces"]]
    er = [[2 * n[a][k] + n[b][k] for k in range(3)] for a, b in E]
    return fr, er


def mpas_dataset(geo, E):
    """In-memory MPAS primal mesh: 1-based tables padded with 0, radians in 0..2pi, its own edge numbering."""
    import xarray as xr

    faces = geo["faces"]
    nf, nn, ne = len(faces), len(geo["lon"]), len(E)
    w = max(len(f) for f in faces)
    i32 = np.int32
    voc = np.zeros((nf, w), dtype=i32)
    eoc = np.zeros((nf, w), dtype=i32)
    coe = np.zeros((ne, 2), dtype=i32)
    eid = {(min(a, b), max(a, b)): k for k, (a, b) in enumerate(E)}
    for i, f in enumerate(faces):
        voc[i, : len(f)] = np.array(f) + 1
        for j in range(len(f)):
            a, b = f[j], f[(j + 1) % len(f)]
            k = eid[(min(a, b), max(a, b))]
            eoc[i, j] = k + 1
            coe[k, 0 if coe[k, 0] == 0 else 1] = i + 1
    nfo = [[i + 1 for i, f in enumerate(faces) if n in f] for n in range(nn)]
    cov = np.zeros((nn, max(1, max(len(x) for x in nfo))), dtype=i32)
    for n, x in enumerate(nfo):
        cov[n, : len(x)] = x
    ds = xr.Dataset()
    ds["lonVertex"] = xr.DataArray(np.radians(np.array(geo["lon"], dtype=float) % 360.0), dims=["nVertices"])
    ds["latVertex"] = xr.DataArray(np.radians(np.array(geo["lat"], dtype=float)), dims=["nVertices"])
    ds["verticesOnCell"] = xr.DataArray(voc, dims=["nCells", "maxEdges"])
    ds["nEdgesOnCell"] = xr.DataArray(np.array([len(f) for f in faces], dtype=i32), dims=["nCells"])
    ds["cellsOnVertex"] = xr.DataArray(cov, dims=["nVertices", "vertexDegree"])
    ds["verticesOnEdge"] = xr.DataArray(np.array(E, dtype=i32) + 1, dims=["nEdges", "TWO"])
    ds["edgesOnCell"] = xr.DataArray(eoc, dims=["nCells", "maxEdges"])
    ds["cellsOnEdge"] = xr.DataArray(coe, dims=["nEdges", "TWO"])
    ds.attrs["on_a_sphere"] = "YES"
    return ds


def build_grid(geo, prov, seed):
    ux = hux.import_ux()
    INT_DTYPE, FILL = hux.consts()
    if prov == "file":
        return ux.open_grid(geo["path"])
    lon = np.array(geo["lon"], dtype=float)
    lat = np.array(geo["lat"], dtype=float)
    faces = geo["faces"]
    if prov == "derived":
        return ux.Grid.from_topology(lon, lat, hux.pad_table(faces), fill_value=FILL)
    E = own_edges(faces, seed)
    if prov == "supplied":
        return ux.Grid.from_topology(
            lon, lat, hux.pad_table(faces), fill_value=FILL, edge_node_connectivity=np.array(E, dtype=INT_DTYPE)
        )
    if prov == "mpas":
        return ux.open_grid(mpas_dataset(geo, E))
    if prov == "supplied_c":
        fr, er = supplied_refs(geo, E)
        kw = {}
        for tag, refs in (("face", fr), ("edge", er)):
            img = [image(geo, r) for r in refs]
            ll = [lattice.lonlat_deg(v) for v in img]
            u = [lattice.unit(v) for v in img]
            kw[tag + "_lon"] = np.array([a for a, _ in ll])
            kw[tag + "_lat"] = np.array([b for _, b in ll])
            for k, ax in enumerate("xyz"):
                kw["%s_%s" % (tag, ax)] = np.array([x[k] for x in u])
        return ux.Grid.from_topology(
            lon, lat, hux.pad_table(faces), fill_value=FILL, edge_node_connectivity=np.array(E, dtype=INT_DTYPE), **kw
        )
    if prov in ("ugrid", "ugrid_ec", "ugrid_plain"):
        import xarray as xr

        w = max(len(f) for f in faces)
        conn = np.full((len(faces), w), -1, dtype=np.int32)
        for k, f in enumerate(faces):
            conn[k, : len(f)] = np.array(f) + 1
        topo = {
            "cf_role": "mesh_topology",
            "topology_dimension": 2,
            "node_coordinates": "Mesh2_node_x Mesh2_node_y",
            "face_node_connectivity": "Mesh2_face_nodes",
            "edge_node_connectivity": "Mesh2_edge_nodes",
            "edge_dimension": "nMesh2_edge",
        }
        if prov == "ugrid_plain":
            del topo["edge_dimension"]  # optional in the conventions when the dimension order is the default one
        ds = xr.Dataset()
        ds["Mesh2_node_x"] = xr.DataArray(lon, dims=["nMesh2_node"], attrs={"standard_name": "longitude", "units": "degrees_east"})
        ds["Mesh2_node_y"] = xr.DataArray(lat, dims=["nMesh2_node"], attrs={"standard_name": "latitude", "units": "degrees_north"})
        ds["Mesh2_face_nodes"] = xr.DataArray(
            conn, dims=["nMesh2_face", "nMaxMesh2_face_nodes"], attrs={"cf_role": "face_node_connectivity", "start_index": 1, "_FillValue": -1}
        )
        ds["Mesh2_edge_nodes"] = xr.DataArray(
            np.array(E, dtype=np.int32) + 1, dims=["nMesh2_edge", "Two"], attrs={"cf_role": "edge_node_connectivity", "start_index": 1}
        )
        if prov == "ugrid_ec":
            # edge coordinates supplied by the source (exact for corners of equal norm)
            cen = [lattice.lonlat_deg([geo["nodes"][a][k] + geo["nodes"][b][k] for k in range(3)]) for a, b in E]
            ds["Mesh2_edge_x"] = xr.DataArray(np.array([c[0] for c in cen]), dims=["nMesh2_edge"], attrs={"standard_name": "longitude", "units": "degrees_east"})
            ds["Mesh2_edge_y"] = xr.DataArray(np.array([c[1] for c in cen]), dims=["nMesh2_edge"], attrs={"standard_name": "latitude", "units": "degrees_north"})
            topo["edge_coordinates"] = "Mesh2_edge_x Mesh2_edge_y"
        ds["Mesh2"] = xr.DataArray(0, attrs=topo)
        return ux.open_grid(ds)
    raise ValueError(prov)


def unit_xyz(lon, lat):
    lo, la = np.deg2rad(np.asarray(lon, dtype=float)), np.deg2rad(np.asarray(lat, dtype=float))
    return np.stack([np.cos(la) * np.cos(lo), np.cos(la) * np.sin(lo), np.sin(la)], axis=1)


def match_positions(xyz, src_xyz):
    """For each row of xyz the index of the source position it coincides with (1e-9), else -2."""
    out = []
    for p in xyz:
        d = np.max(np.abs(src_xyz - p), axis=1)
        k = int(np.argmin(d))
        out.append(k if d[k] < 1e-9 else -2)
    return out


# --------------------------------------------------------------------------- classes of reference points
def ref_dirs(kind, geo, srcE, supplied=False):
    """Base lattice directions of the reference points of the selection kind."""
    n = geo["nodes"]
    if kind == "node":
        return [list(v) for v in n]
    if supplied:
        fr, er = supplied_refs(geo, srcE)
        return fr if kind == "face" else er
    if kind == "face":
        return [[sum(n[c][k] for c in f) for k in range(3)] for f in geo["faces"]]
    return [[n[a][k] + n[b][k] for k in range(3)] for a, b in srcE]


def classes(values, ids):
    """Group ids by value (ascending); values closer than 1e-9 are one class.  -> [(value, [ids])]"""
    order = sorted(ids, key=lambda i: values[i])
    out = []
    for i in order:
        if out and abs(values[i] - out[-1][0]) < 1e-9:
            out[-1][1].append(i)
        else:
            out.append((values[i], [i]))
    return out


def norm180(x):
    m = (x + 180.0) % 360.0 - 180.0
    return 180.0 if m == -180.0 else m


def box_from_pick(dirs, pick):
    ll = [lattice.lonlat_deg(d) for d in dirs]
    nonpole = [i for i, d in enumerate(dirs) if d[0] != 0 or d[1] != 0]
    lonc = classes([a for a, _ in ll], nonpole)
    latc = classes([b for _, b in ll], list(range(len(dirs))))
    if len(lonc) < 2 or len(latc) < 1:
        return None
    lgaps = []
    for c in range(len(lonc)):
        a, b = lonc[c], lonc[(c + 1) % len(lonc)]
        mid = norm180(a[0] + ((b[0] - a[0]) % 360.0) / 2.0)
        if abs(abs(mid) - 180.0) < 1e-6:
            continue
        lgaps.append((mid, a[1][0], b[1][0]))
    if len(lgaps) < 2:
        return None
    gl = lgaps[pick[0] % len(lgaps)]
    gr = lgaps[pick[1] % len(lgaps)]
    if gl == gr:
        gr = lgaps[(pick[1] + 1) % len(lgaps)]
    tgaps = []
    if latc[0][0] > -90.0 + 1e-6:
        tgaps.append(((-90.0 + latc[0][0]) / 2.0, -1, latc[0][1][0]))
    for c in range(len(latc) - 1):
        tgaps.append(((latc[c][0] + latc[c + 1][0]) / 2.0, latc[c][1][0], latc[c + 1][1][0]))
    if latc[-1][0] < 90.0 - 1e-6:
        tgaps.append(((latc[-1][0] + 90.0) / 2.0, latc[-1][1][0], -1))
    if len(tgaps) < 2:
        return None
    jb = pick[2] % (len(tgaps) - 1)
    jt = jb + 1 + pick[3] % (len(tgaps) - 1 - jb)
    gb, gt = tgaps[jb], tgaps[jt]
    sel = {
        "t": "box",
        "lonL": [gl[1], gl[2]],
        "lonR": [gr[1], gr[2]],
        "latB": [gb[1], gb[2]],
        "latT": [gt[1], gt[2]],
        "span": bool(gl[0] > gr[0]),
    }
    return sel, (gl[0], gr[0]), (gb[0], gt[0])


def dist_classes(dirs, c):
    cu = lattice.unit(c)
    dist = [math.degrees(lattice.ang_between(cu, lattice.unit(d))) for d in dirs]
    return classes(dist, list(range(len(dirs))))


def circle_from_pick(dirs, c, pick):
    dc = dist_classes(dirs, c)
    gaps = []
    for k in range(len(dc) - 1):
        gaps.append(((dc[k][0] + dc[k + 1][0]) / 2.0, dc[k][1][0], dc[k + 1][1][0]))
    if dc[-1][0] < 180.0 - 1e-3:
        gaps.append(((dc[-1][0] + 180.0) / 2.0, dc[-1][1][0], -1))
    g = gaps[pick % len(gaps)]
    return {"t": "circle", "c": list(c), "gap": [g[1], g[2]]}, g[0]


def knn_from_pick(dirs, c, pick):
    dc = dist_classes(dirs, c)
    cum = []
    s = 0
    for _, ids in dc:
        s += len(ids)
        cum.append(s)
    if pick % 4 == 3:
        # any k: the judge detects an exact tie at the k-th place and does not judge the case
        return {"t": "knn", "c": list(c), "k": 1 + (pick // 4) % len(dirs)}
    return {"t": "knn", "c": list(c), "k": cum[pick % len(cum)]}


def lat_from_pick(geo, grid, pick, mode):
    """-> (sel, lat float) or None.  mode 'gap': strictly between two consecutive node latitude classes;
    'at': exactly a node's latitude, only if the implementation's own sin(deg2rad(lat)) reproduces the stored z
    of every node of that class bit for bit (probed through the implementation's jitted scan itself)."""
    vals = geo["lat"]  # the latitudes the source was given (catalogue: of the lattice directions themselves)
    lc = classes(vals, list(range(len(vals))))
    z = np.asarray(grid.node_z.values)
    if mode == "band":
        # the thin band between a row of nodes and the top of a great-circle edge joining two nodes of that row:
        # the edge bulges polewards over the parallel although both its ends are below it (lattice sources only)
        if geo["nodes"] is None or geo.get("fine"):
            return None
        n = geo["nodes"]
        bands = []
        for ci, (L, ids) in enumerate(lc):
            if abs(L) < 1e-6 or abs(L) > 90.0 - 1e-6:
                continue
            nb = ci + 1 if L > 0 else ci - 1
            if not 0 <= nb < len(lc):
                continue
            sides = {(min(f[j], f[(j + 1) % len(f)]), max(f[j], f[(j + 1) % len(f)])) for f in geo["faces"] for j in range(len(f))}
            for a, b in sorted(sides):
                if a in ids and b in ids:
                    c = [n[a][1] * n[b][2] - n[a][2] * n[b][1], n[a][2] * n[b][0] - n[a][0] * n[b][2], n[a][0] * n[b][1] - n[a][1] * n[b][0]]
                    h = c[0] * c[0] + c[1] * c[1]
                    if h == 0:
                        continue
                    top = math.degrees(math.asin(math.sqrt(h / float(h + c[2] * c[2])))) * (1 if L > 0 else -1)
                    lim = min(top, lc[nb][0]) if L > 0 else max(top, lc[nb][0])
                    if abs(lim - L) > 1e-3:
                        gap = [ids[0], lc[nb][1][0]] if L > 0 else [lc[nb][1][0], ids[0]]
                        bands.append(((L + lim) / 2.0 if pick % 2 else L + 0.2 * (lim - L), gap, [a, b]))
        if not bands:
            return None
        lat, gap, band = bands[(pick // 2) % len(bands)]
        if np.min(np.abs(z - math.sin(math.radians(lat)))) < 1e-12:
            return None
        return {"t": "lat", "gap": gap, "band": band}, lat
    if mode == "gap":
        if len(lc) < 2:
            return None
        k = pick % (len(lc) - 1)
        lat = (lc[k][0] + lc[k + 1][0]) / 2.0
        # fine meshes: the z-classes of neighbouring latitudes nearly coincide in floating point; judged only when
        # the parallel's z clears every stored node z by 1e-12 (z is of order one: relative = absolute)
        if np.min(np.abs(z - math.sin(math.radians(lat)))) < 1e-12:
            return None
        if geo["nodes"] is not None:
            return {"t": "lat", "gap": [lc[k][1][0], lc[k + 1][1][0]]}, lat
        return {"t": "lat", "pint": (geo["latint"][lc[k][1][0]] + geo["latint"][lc[k + 1][1][0]]) // 2}, lat
    k = pick % len(lc)
    lat, ids = lc[k]
    if abs(lat) > 90.0 - 1e-6:
        return None
    from uxarray.grid.intersections import fast_constant_lat_intersections

    others = [n for n in range(len(vals)) if n not in ids]
    if others and np.min(np.abs(z[others] - math.sin(math.radians(lat)))) < 1e-12:
        return None
    for n in ids:
        probe = np.array([[z[n], 2.0], [z[n], -2.0]])
        # z != z_parallel: exactly one of the two probe edges straddles, whether the test is strict or not;
        # z == z_parallel: both products are zero, so none (strict test) or both (non-strict) are reported
        if len(fast_constant_lat_intersections(lat, probe, 2)) == 1:
            return None  # the implementation's z of the parallel is not this node's z: not judged
    if geo["nodes"] is not None:
        return {"t": "lat", "at": ids[0]}, lat
    return {"t": "lat", "pint": geo["latint"][ids[0]]}, lat


# --------------------------------------------------------------------------- data
T_LEN, L_LEN = 2, 3


# --------------------------------------------------------------------------- every derived attribute, by introspection
# inventories of what happens to be materialised (legitimately history-dependent), not derived values
INVENTORY = {"dims", "sizes", "coordinates", "connectivity", "descriptors", "parsed_attrs", "attrs"}


def grid_attributes():
    """Every public property of the Grid class except the inventories, in definition order: a newly added or newly
    cached attribute is included automatically."""
    ux = hux.import_ux()
    return [n for n, v in vars(ux.Grid).items() if isinstance(v, property) and not n.startswith("_") and n not in INVENTORY]


def read_attr(g, name):
    """-> ('value', normalised) | ('raises', exception class name)."""
    try:
        v = getattr(g, name)
        if hasattr(v, "values") and hasattr(v, "dims"):
            return "value", (tuple(v.dims), np.asarray(v.values))
        if isinstance(v, np.ndarray) or isinstance(v, (list, tuple)):
            return "value", ((), np.asarray(v))
        if isinstance(v, (int, float, str, bool, np.generic)) or v is None:
            return "value", ((), np.asarray(v))
        return "value", ((), np.asarray(type(v).__name__))
    except Exception as e:  # noqa
        return "raises", type(e).__name__


def same_read(a, b):
    """Two reads agree: same outcome class; values with equal dims, shape and entries (floats to 1e-12, NaN = NaN)."""
    if a[0] != b[0]:
        return False
    if a[0] == "raises":
        return True
    (da, va), (db, vb) = a[1], b[1]
    if da != db or va.shape != vb.shape:
        return False
    if va.dtype.kind == "f" or vb.dtype.kind == "f":
        x, y = va.astype(float), vb.astype(float)
        return bool(np.all((np.abs(x - y) <= TOL) | (np.isnan(x) & np.isnan(y))))
    return bool(np.array_equal(va, vb))


def make_dataset(ux, grid, specs):
    """A UxDataset holding face-, node- and edge-centred tracer variables together."""
    import xarray as xr

    parts, meta = {}, []
    for j, spec in enumerate(specs):
        da, dim, L, dims_in = make_data(ux, grid, spec)
        # inner dimensions get their own names per variable so that ranks can differ
        ren = {d: "%s_%d" % (d, j) for d in da.dims if d not in ("n_face", "n_node", "n_edge")}
        name = "t_%s_%d" % (spec["kind"], j)
        parts[name] = xr.DataArray(da.values, dims=[ren.get(d, d) for d in da.dims])
        meta.append((name, dim, L, [ren.get(d, d) for d in dims_in], spec["kind"]))
    return ux.UxDataset(xr.Dataset(parts), uxgrid=grid), meta


def make_data(ux, grid, spec):
    """Tracer data: value = 100 * element index + 10 * t + l.  spec: kind, rank, axis (position of the grid dim)."""
    dim = {"face": "n_face", "node": "n_node", "edge": "n_edge"}[spec["kind"]]
    n = {"face": grid.n_face, "node": grid.n_node, "edge": grid.n_edge}[spec["kind"]]
    rank = spec["rank"]
    inner = [("time", T_LEN), ("lev", L_LEN)][: rank - 1]
    idx = 100 * np.arange(n, dtype=np.int64)
    if rank == 1:
        arr, dims = idx, [dim]
    elif rank == 2:
        arr = idx[:, None] + 10 * np.arange(T_LEN)[None, :]
        dims = [dim, "time"]
    else:
        arr = idx[:, None, None] + 10 * np.arange(T_LEN)[None, :, None] + np.arange(L_LEN)[None, None, :]
        dims = [dim, "time", "lev"]
    axis = spec["axis"] % rank
    arr = np.moveaxis(arr, 0, axis)
    dims = dims[1:]
    dims.insert(axis, dim)
    return ux.UxDataArray(arr.copy(), dims=dims, uxgrid=grid, name="tracer"), dim, (L_LEN if rank == 3 else 1), dims


def project_data(ux, r, dim, L, dims_in, g2, kind):
    flags = {
        "is_uxdataarray": isinstance(r, ux.UxDataArray),
        "dims_kept": list(r.dims) == list(dims_in),
    }
    n2 = {"face": g2.n_face, "node": g2.n_node, "edge": g2.n_edge}[kind]
    ax = list(r.dims).index(dim) if dim in r.dims else 0
    vals = np.asarray(r.values)
    flags["length_matches_grid"] = bool(vals.shape[ax] == n2)
    v = np.moveaxis(vals, ax, 0).reshape(vals.shape[ax], -1)
    return {"kind": kind, "vals": [[int(x) for x in row] for row in v], "L": int(L), "flags": flags}


# --------------------------------------------------------------------------- projection of a result grid
def store_of(g):
    present = set(g._ds.variables)
    return sorted(v for v in VARS if ATTR[v] in present)


def access(g, v, rec, raised, flags):
    """Access variable v on grid g; project its value into rec.  Returns the outcome class."""
    try:
        val = getattr(g, ATTR[v])
        if v in TABLE_KEY:
            rows, dt, fl = hux.table(val)
            rec[TABLE_KEY[v]] = rows
            flags["dtype_" + v] = dt
            flags["fill_" + v] = fl
        elif v == "npf":
            rec["npf"] = [int(x) for x in np.asarray(val.values)]
        elif v == "holes":
            rec["holes"] = [int(x) for x in np.asarray(val.values).ravel()]
        elif v == "face_centres":
            rec["_fc"] = [np.asarray(getattr(g, a).values, dtype=float) for a in ("face_lon", "face_lat", "face_x", "face_y", "face_z")]
        elif v == "edge_centres":
            rec["_ec"] = [np.asarray(getattr(g, a).values, dtype=float) for a in ("edge_lon", "edge_lat", "edge_x", "edge_y", "edge_z")]
        elif v == "areas":
            rec["_areas"] = np.asarray(val.values, dtype=float)
        elif v == "edge_z":
            rec["_ez"] = np.asarray(val.values, dtype=float)
        elif v == "edge_dist":
            rec["_ed"] = np.asarray(val.values, dtype=float)
        elif v == "edge_face_dist":
            rec["_efd"] = np.asarray(val.values, dtype=float)
        elif v == "bounds":
            rec["_bounds"] = np.asarray(val.values, dtype=float)
        return "value"
    except Exception as e:  # noqa: the property promises a value
        raised.append(v)
        rec.setdefault("_errors", {})[v] = "%s: %s" % (type(e).__name__, str(e)[:120])
        return "raises"


def close(a, b):
    a, b = np.asarray(a, dtype=float), np.asarray(b, dtype=float)
    return bool(a.shape == b.shape and np.all(np.abs(a - b) <= TOL))


def centres_equal(res5, ref5, pick):
    """lon/lat/x/y/z of the result vs the source's rows `pick`: positions compared as directions."""
    if any(p < 0 for p in pick):
        return False
    pick = np.asarray(pick, dtype=int)
    if len(res5[0]) != len(pick):
        return False
    ok = all(close(res5[k], ref5[k][pick]) for k in (2, 3, 4))
    ok = ok and close(unit_xyz(res5[0], res5[1]), unit_xyz(ref5[0][pick], ref5[1][pick]))
    return ok


def side_keys(g, npos):
    """Every edge row of g as the pair of source positions of its end nodes."""
    rows, _, _ = hux.table(g.edge_node_connectivity)
    return [tuple(sorted((npos[a], npos[b]))) if 0 <= a < len(npos) and 0 <= b < len(npos) else None for a, b in rows]


def project_grid(g2, ctxt, order, first=()):
    """ctxt: src_xyz, fresh (reference source grid), srcE, edge_id (side -> source edge id),
    ref (the same selection made on a pristine source: what a result must report whatever the history was)."""
    res = {}
    raised = []
    flags = {}
    ds = g2._ds
    res["src"] = [int(x) for x in np.asarray(ds["subgrid_face_indices"].values).ravel()]
    res["snode"] = [int(x) for x in np.asarray(ds["subgrid_node_indices"].values).ravel()]
    res["sedge"] = [int(x) for x in np.asarray(ds["subgrid_edge_indices"].values).ravel()]
    rows, dt, fl = hux.table(g2.face_node_connectivity)
    res["fn"] = rows
    flags["dtype_face_node"] = dt
    flags["fill_face_node"] = fl
    npos = match_positions(unit_xyz(g2.node_lon.values, g2.node_lat.values), ctxt["src_xyz"])
    res["npos"] = npos
    flags["n_face_matches"] = bool(g2.n_face == len(res["src"]) == len(rows))
    flags["n_node_matches"] = bool(g2.n_node == len(npos))
    outcomes = {}
    stores = []
    width_before = None
    if not first:
        # read before anything is materialised on the result (not in replayed histories: it would change them)
        try:
            width_before = int(g2.n_max_face_edges)
        except Exception:  # noqa
            raised.append("n_max_face_edges")
    for v in list(first) + [w for w in order if w not in first]:
        outcomes[v] = access(g2, v, res, raised, flags)
        if v in first:
            stores.append(store_of(g2))
    if width_before is not None and "face_edges" in res and res["face_edges"]:
        # the reported width of the face-edge table is that of the table, before and after it exists
        try:
            flags["n_max_face_edges_stable"] = bool(width_before == int(g2.n_max_face_edges) == len(res["face_edges"][0]))
        except Exception:  # noqa
            flags["n_max_face_edges_stable"] = False
    if "edge_node" not in raised:
        try:
            res["n_edge"] = int(g2.n_edge)
        except Exception:  # noqa
            raised.append("n_edge")
    # float quantities: equal to the (fresh) source's, restricted to the selection, within 1e-12
    fresh = ctxt["fresh"]
    src = res["src"]
    nf = fresh.n_face
    fpick = [s if 0 <= s < nf else -1 for s in src]
    if "_fc" in res:
        ref = [np.asarray(getattr(fresh, a).values, dtype=float) for a in ("face_lon", "face_lat", "face_x", "face_y", "face_z")]
        flags["eq_face_centres"] = centres_equal(res.pop("_fc"), ref, fpick)
    if "_areas" in res:
        a = res.pop("_areas")
        flags["eq_areas"] = bool(all(p >= 0 for p in fpick) and len(a) == len(fpick) and close(a, np.asarray(fresh.face_areas.values)[np.asarray(fpick, dtype=int)]))
    epick = None
    if "edges" in res:
        epick = []
        for row in res["edges"]:
            try:
                a, b = npos[row[0]], npos[row[1]]
                epick.append(ctxt["edge_id"].get((min(a, b), max(a, b)), -1))
            except Exception:  # noqa
                epick.append(-1)
    if "_ec" in res:
        ec = res.pop("_ec")
        ref = [np.asarray(getattr(fresh, a).values, dtype=float) for a in ("edge_lon", "edge_lat", "edge_x", "edge_y", "edge_z")]
        flags["eq_edge_centres"] = bool(epick is not None and centres_equal(ec, ref, epick))
    if "_ed" in res:
        ed = res.pop("_ed")
        flags["eq_edge_dist"] = bool(
            epick is not None and all(p >= 0 for p in epick) and len(ed) == len(epick)
            and close(ed, np.asarray(fresh.edge_node_distances.values)[np.asarray(epick, dtype=int)])
        )
    if "_ez" in res:
        ez = res.pop("_ez")
        ok = "edges" in res and ez.shape == (len(res["edges"]), 2)
        if ok:
            zsrc = np.asarray(fresh.node_z.values)
            for k, row in enumerate(res["edges"]):
                a, b = npos[row[0]], npos[row[1]]
                if a < 0 or b < 0 or abs(ez[k, 0] - zsrc[a]) > TOL or abs(ez[k, 1] - zsrc[b]) > TOL:
                    ok = False
                    break
        flags["eq_edge_z"] = bool(ok)
    # neighbourhood-dependent and per-face quantities: equal to what the subset of a PRISTINE source derives
    ref = ctxt.get("ref")
    if "_efd" in res:
        efd = res.pop("_efd")
        res["efd_zero"] = [bool(x == 0.0) for x in efd]
        ok = "edges" in res and len(efd) == len(res["edges"])
        if ref is None:
            ok = None  # no reference: not compared
        elif ok:
            try:
                rpos = match_positions(unit_xyz(ref.node_lon.values, ref.node_lat.values), ctxt["src_xyz"])
                want = dict(zip(side_keys(ref, rpos), np.asarray(ref.edge_face_distances.values, dtype=float)))
                for key, x in zip(side_keys(g2, npos), efd):
                    if key is None or key not in want or abs(want[key] - x) > TOL:
                        ok = False
                        break
            except Exception:  # noqa: the reference itself cannot derive it: another property's business
                ok = None
        if ok is not None:
            flags["eq_edge_face_dist"] = bool(ok)
        # descriptive: is it the source's own array, restricted?
        parent = ctxt.get("parent_efd")
        res["efd_carried"] = bool(
            parent is not None and epick is not None and len(epick) == len(efd) and all(p >= 0 for p in epick)
            and np.array_equal(efd, parent[np.asarray(epick, dtype=int)])
        )
    if "_bounds" in res:
        b = res.pop("_bounds")
        try:
            rb = np.asarray(ref.bounds.values, dtype=float) if ref is not None else None
        except Exception:  # noqa
            rb = None
        if rb is not None:
            rsrc = [int(x) for x in np.asarray(ref._ds["subgrid_face_indices"].values).ravel()]
            flags["eq_bounds"] = bool(rsrc == src and close(b, rb))
    res["raised"] = raised
    res["flags"] = flags
    errors = res.pop("_errors", {})
    return res, outcomes, stores, errors


# --------------------------------------------------------------------------- one case
def index_arg(idx, form):
    if form == "scalar" and len(idx) == 1:
        return int(idx[0])
    if form == "npscalar" and len(idx) == 1:
        return np.int64(idx[0])
    if form == "array":
        return np.array(idx, dtype=np.int64)
    if form == "tuple":
        return tuple(idx)
    return list(idx)


ELEMENT = {"node": "nodes", "face": "face centers", "edge": "edge centers"}


def record_case(case):
    """Replays one case; returns the record for JudgeSubset.tla (plus '_info' for the harness).
    Whatever the tree under test does, a record comes back: '_machinery' marks a case in which the implementation
    could not even provide the source grid or a projectable result (reported as clause Unusable, never a crash)."""
    try:
        if case.get("seq"):
            return record_seq(case)
        return _record_case(case)
    except Exception as e:  # noqa
        return {"id": case["id"], "_machinery": "replay: %s: %s" % (type(e).__name__, str(e)[:200])}


def record_seq(case):
    """A history of selections on ONE grid object (SubsetHist.tla): every step is recorded and judged like a single
    selection; only the source grid object is shared, so whatever an earlier selection left behind is in play."""
    geo = source_geometry(case["src"])
    seed = case.get("seed", 0)
    shared = {"geo": geo, "grid": build_grid(geo, case["prov"], seed)}
    out = []
    for k, op in enumerate(case["seq"]):
        step = dict(case, id="%s:s%d" % (case["id"], k), op=op, seed=seed, rot=case.get("rot", 0) + k)
        step.pop("seq")
        try:
            out.append(_record_case(step, shared))
        except Exception as e:  # noqa
            out.append({"id": step["id"], "_machinery": "replay: %s: %s" % (type(e).__name__, str(e)[:200])})
    return {"id": case["id"], "_multi": out}


def _record_case(case, shared=None):
    import numba

    ux = hux.import_ux()
    rec = {"id": case["id"], "prov": "derived" if case["prov"] in ("derived", "file") else "supplied", "err": "", "op": "grid"}
    info = {"prov": case["prov"]}
    try:
        seed = case.get("seed", 0)
        if shared:
            geo, grid = shared["geo"], shared["grid"]
        else:
            geo = source_geometry(case["src"])
            grid = build_grid(geo, case["prov"], seed)
        fresh = build_grid(geo, case["prov"], seed)
    except Exception as e:  # noqa
        return {"id": case["id"], "_machinery": "source: %s: %s" % (type(e).__name__, str(e)[:200])}
    rec["mesh"] = geo["faces"]
    if geo.get("fine"):
        rec["fine"] = geo["fine"]["c"]
    if geo["nodes"] is not None:
        rec["nodes"] = geo["nodes"]
    elif "latint" in geo:
        rec["latint"] = geo["latint"]
    srcE, _, _ = hux.table(fresh.edge_node_connectivity)
    rec["srcE"] = srcE
    edge_id = {(min(a, b), max(a, b)): k for k, (a, b) in enumerate(srcE)}
    ctxt = {"src_xyz": unit_xyz(geo["lon"], geo["lat"]), "fresh": fresh, "srcE": srcE, "edge_id": edge_id}
    if geo["nodes"] is None and len({tuple(np.round(p, 8)) for p in ctxt["src_xyz"]}) != len(ctxt["src_xyz"]):
        return {"id": case["id"], "_skip": "source has coincident nodes: positions do not identify nodes"}
    rng = random.Random(seed)
    op = case["op"]
    kind = op.get("kind", "face")
    rec["kind"] = kind
    # ---- history: materialise derived variables on the source first
    stores = []
    pre = []
    for step in case.get("pre", []):
        try:
            getattr(grid, ATTR[step])
        except Exception as e:  # noqa: another property's business; the history is not usable
            return {"id": case["id"], "_skip": "materialise %s on the source raised %s" % (step, type(e).__name__)}
        pre.append(step)
        stores.append(store_of(grid))
    for name in case.get("pre_attrs", []):
        read_attr(grid, name)  # whatever it does (value or exception) is part of the history
    if pre:
        rec["pre"] = pre
        if "holes" in pre:
            rec["srcholes"] = [int(x) for x in np.asarray(grid.hole_edge_indices.values).ravel()]
    # ---- the selection
    t = op["t"]
    call = None
    nthreads = case.get("threads")
    try:
        if t == "idx":
            idx = op["idx"]
            if kind == "edge" and op.get("sides"):
                idx = [edge_id[(min(a, b), max(a, b))] for a, b in op["sides"]]
            if op.get("shape"):
                idx = shape_indices(op["shape"], kind, geo, srcE, rng)
            if op.get("slice"):
                # a slice object on the grid dimension of a UxDataArray denotes the index set Python's slicing gives
                n_el = {"face": len(geo["faces"]), "node": len(geo["lon"]), "edge": len(srcE)}[kind]
                idx = list(range(n_el))[slice(*op["slice"])]
                if not idx:
                    return {"id": case["id"], "_skip": "empty slice"}
            rec["sel"] = {"t": "idx", "idx": [int(x) for x in idx]}
            arg = slice(*op["slice"]) if op.get("slice") else index_arg(idx, op.get("form", "list"))
            call = ("isel", {"n_" + kind: arg})
        elif t in ("box", "circle", "knn"):
            if geo["nodes"] is None:
                raise ValueError("coordinate selections need a lattice source")
            supplied = case["prov"] == "supplied_c" and kind != "node"
            if geo.get("fine") and kind != "node" and not supplied:
                raise ValueError("centres of a shrunk mesh are not images of lattice points unless the source supplies them")
            dirs = ref_dirs(kind, geo, own_edges(geo["faces"], seed) if supplied else srcE, supplied)
            if supplied:
                rec["refs"] = dirs
            fdirs = [image(geo, d) for d in dirs]  # where the source puts them: used for float bounds only
            cart = bool(op.get("cart"))
            if "c" in op:
                fc = image(geo, op["c"])
                centre = list(lattice.unit(fc)) if cart else lattice.lonlat_deg(fc)
            if t == "box":
                got = box_from_pick(fdirs, op["pick"])
                if got is None:
                    return {"id": case["id"], "_skip": "no box"}
                sel, lonb, latb = got
                rl = np.asarray(getattr(grid, {"node": "node_lon", "face": "face_lon", "edge": "edge_lon"}[kind]).values)
                sel["am180"] = [int(k) for k in np.nonzero(rl == 180.0)[0]]
                rec["sel"] = sel
                call = ("bounding_box", {"lon_bounds": lonb, "lat_bounds": latb, "element": ELEMENT[kind]})
            elif t == "circle":
                sel, r = circle_from_pick(fdirs, fc, op["pick"])
                sel["c"] = list(op["c"])
                rec["sel"] = sel
                if cart:
                    # a Cartesian centre goes to the k-d tree, whose metric is the chord: the radius is handed over in
                    # the tree's own unit (the accessor documents degrees for longitude-latitude centres only)
                    r = 2.0 * math.sin(math.radians(r) / 2.0)
                call = ("bounding_circle", {"center_coord": centre, "r": r, "element": ELEMENT[kind]})
            else:
                sel = knn_from_pick(fdirs, fc, op["pick"])
                sel["c"] = list(op["c"])
                rec["sel"] = sel
                call = ("nearest_neighbor", {"center_coord": centre, "k": sel["k"], "element": ELEMENT[kind]})
        elif t == "lat":
            got = lat_from_pick(geo, grid, op["pick"], op["mode"])
            if got is None:
                return {"id": case["id"], "_skip": "latitude not exactly representable in the implementation's pipeline"}
            rec["sel"], lat = got
            info["lat"] = lat
            call = ("constant_latitude", {"lat": lat})
            if op.get("faces_only"):
                rec["op"] = "faces"
        else:
            raise ValueError(t)
    except KeyError as e:
        return {"id": case["id"], "_machinery": "selection arguments: %r" % (e,)}
    info["call"] = [call[0], {k: (v.tolist() if hasattr(v, "tolist") else repr(v) if isinstance(v, slice) else v) for k, v in call[1].items()}]
    # ---- run it
    data = case.get("data")
    try:
        if rec["op"] == "faces":
            runs = []
            for nt in nthreads or [numba.get_num_threads()]:
                numba.set_num_threads(min(nt, numba.config.NUMBA_NUM_THREADS))
                runs.append([int(x) for x in np.atleast_1d(grid.get_faces_at_constant_latitude(call[1]["lat"]))])
            rec["faces"] = runs[0]
            rec["runs"] = runs
            rec["edges_at"] = [int(x) for x in np.atleast_1d(grid.get_edges_at_constant_latitude(call[1]["lat"]))]
            if case.get("pre_attrs") is not None:
                pristine = build_grid(geo, case["prov"], seed)
                rec["fresh_faces"] = [int(x) for x in np.atleast_1d(pristine.get_faces_at_constant_latitude(call[1]["lat"]))]
            return finish(rec, info, stores, case)
        dataset = case.get("dataset")
        if dataset:
            target, ds_meta = make_dataset(ux, grid, dataset)
        elif data:
            uxda, dim, L, dims_in = make_data(ux, grid, data)
            target = uxda
        else:
            target = grid
        if call[0] == "isel":
            out = target.isel(**call[1])
        elif call[0] == "constant_latitude":
            out = target.cross_section.constant_latitude(**call[1])
        else:
            out = getattr(target.subset, call[0])(**call[1])
        if nthreads and call[0] == "constant_latitude":
            runs = []
            for nt in nthreads:
                numba.set_num_threads(min(nt, numba.config.NUMBA_NUM_THREADS))
                o2 = build_grid(geo, case["prov"], seed).cross_section.constant_latitude(**call[1])
                runs.append([int(x) for x in np.asarray(o2._ds["subgrid_face_indices"].values).ravel()])
            rec["runs"] = runs
    except Exception as e:  # noqa: a verdict only if the specification expects a non-empty selection
        rec["err"] = "select"
        info["error"] = "%s: %s" % (type(e).__name__, str(e)[:160])
        return finish(rec, info, stores, case)
    g2 = out.uxgrid if (data or dataset) else out
    stores.append(store_of(grid))
    stores.append(store_of(g2))
    order = VARS[case.get("rot", 0) % len(VARS):] + VARS[: case.get("rot", 0) % len(VARS)]
    if not case.get("bounds"):
        order = [v for v in order if v != "bounds"]  # its JIT costs ~11 s per process: only where asked for
    # the same selection on a pristine source: what the result must report whatever was materialised before
    try:
        pristine = build_grid(geo, case["prov"], seed)
        if call[0] == "isel":
            # (a slice object is a UxDataArray indexer: the grid takes the index list it denotes)
            ctxt["ref"] = pristine.isel(**{k: (rec["sel"]["idx"] if isinstance(v, slice) else v) for k, v in call[1].items()})
        elif call[0] == "constant_latitude":
            ctxt["ref"] = pristine.cross_section.constant_latitude(**call[1])
        else:
            ctxt["ref"] = getattr(pristine.subset, call[0])(**call[1])
    except Exception:  # noqa
        ctxt["ref"] = None
    if "edge_face_dist" in pre:
        ctxt["parent_efd"] = np.asarray(grid.edge_face_distances.values, dtype=float)
    # the pristine subset is a reference for derived quantities only if it is the same selection (if it is not,
    # SelExact reports that; comparing quantities of different selections would only repeat it)
    try:
        if ctxt.get("ref") is not None and not np.array_equal(
            np.asarray(ctxt["ref"]._ds["subgrid_face_indices"].values), np.asarray(g2._ds["subgrid_face_indices"].values)
        ):
            ctxt["ref"] = None
    except Exception:  # noqa
        ctxt["ref"] = None
    try:
        res, outcomes, st2, errors = project_grid(g2, ctxt, order, first=case.get("acc", ()))
    except Exception as e:  # noqa
        return {"id": case["id"], "_machinery": "projection: %s: %s" % (type(e).__name__, str(e)[:200])}
    stores.append(st2)
    rec["res"] = res
    if errors:
        info["access_errors"] = errors
    if dataset:
        rec["datas"] = []
        for name, dim, L, dims_in, dkind in ds_meta:
            try:
                d = project_data(ux, out[name], dim, L, dims_in, g2, dkind)
                d["flags"]["dataset_is_uxdataset"] = isinstance(out, ux.UxDataset)
            except Exception as e:  # noqa: the variable is missing or cannot be laid out along its own dimension
                d = {"kind": dkind, "vals": [], "L": int(L), "flags": {"projectable": False}}
                info.setdefault("data_errors", {})[name] = "%s: %s" % (type(e).__name__, str(e)[:120])
            rec["datas"].append(d)
    elif data:
        try:
            rec["data"] = project_data(ux, out, dim, L, dims_in, g2, data["kind"])
        except Exception as e:  # noqa
            return {"id": case["id"], "_machinery": "data projection: %s: %s" % (type(e).__name__, str(e)[:200])}
    same_selection = False
    if ctxt.get("ref") is not None:
        try:
            same_selection = [int(x) for x in np.asarray(ctxt["ref"]._ds["subgrid_face_indices"].values).ravel()] == rec["res"]["src"]
        except Exception:  # noqa
            same_selection = False
    # (when the selection itself differs from the pristine one, SelExact says so; comparing attributes would only repeat it)
    if case.get("read_all") and same_selection:
        # every lazily derived public attribute: the result reports what the same selection on a pristine source reports
        names = grid_attributes()
        k0 = case.get("rot", 0) % len(names)
        for name in names[k0:] + names[:k0]:
            rec["res"]["flags"]["same_" + name] = same_read(read_attr(g2, name), read_attr(ctxt["ref"], name))
    if "pred" in case:
        rec["pred"] = case["pred"]
    return finish(rec, info, stores, case)


def finish(rec, info, stores, case):
    info["stores"] = stores
    rec["_info"] = info
    return rec


def shape_indices(shape, kind, geo, srcE, rng):
    """Index sets realising the abstract slice shapes of SliceLazy."""
    nf = len(geo["faces"])
    if kind == "face":
        if shape == "identity":
            return list(range(nf))
        if shape == "perm":
            p = list(range(nf))
            while p == list(range(nf)):
                rng.shuffle(p)
            return p
        k = rng.randint(1, max(1, nf - 1))
        return rng.sample(range(nf), k)
    n = len(geo["lon"]) if kind == "node" else len(srcE)
    if shape == "identity":
        return list(range(n))
    # proper: few elements, so that some face is left out
    return rng.sample(range(n), 1 if nf <= 8 else 2)

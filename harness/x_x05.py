"""X05 materialiser / projector: the API entry points (open_grid, open_dataset, open_mfdataset, UxDataset).

A case emitted by ApiDispatch.tla names a content (mesh, format, the stored source of one fixed dialect), the KIND of
object it is handed over as, options, and the data files.  This module writes the files under the work directory,
calls the public API and projects what comes back; JudgeApi.tla decides.  The grid builders and the grid projection
are those of C01 (harness/x_c01.py)."""

from __future__ import annotations

import io
import os
import pathlib
import shutil

import numpy as np

from . import ux as hux
from . import x_c01 as X


def parse_cases(prints, out):
    cases = []
    for p in list(prints) + list(X._pretty_prints(out, "API")):
        if isinstance(p, tuple) and len(p) == 2 and p[0] == "API":
            c = X._plain(p[1])
            c["d"] = X._rec(p[1]["d"])
            if "attrs" in c["src"]:
                c["src"]["attrs"] = X._rec(p[1]["src"]["attrs"])
            c["id"] = "%s:%s:%s:data=%s:kw=%s%s%s%s" % (c["mesh"], c["fmt"], c["gk"], c["dk"], c["kw"], ":dual" if c["dual"] else "",
                                                    ":latlon" if c["latlon"] else "", ":bad" if c["bad"] else "")
            cases.append(c)
    cases.sort(key=lambda c: c["id"])
    return cases


def _grid_dataset(case, mesh):
    pc = {"src": case["src"], "d": case["d"], "route": case["fmt"], "carried": {}, "id": case["id"]}
    ds = {"ugrid": X._ugrid_ds, "mpas": X._mpas_ds, "esmf": X._esmf_ds, "scrip": X._scrip_ds, "exodus": X._exodus_ds}[case["fmt"]](pc, mesh)
    return ds


def _bad_dataset():
    import xarray as xr

    return xr.Dataset({"foo": (("x",), np.arange(4.0)), "bar": (("y", "x"), np.zeros((2, 4)))})


def _data_dataset(f, with_time=True):
    import xarray as xr

    ds = xr.Dataset()
    for v in f["vars"]:
        ds[v["name"]] = xr.DataArray(np.array([v["vals"]], dtype=np.int64), dims=["time", v["dim"]])
    ds["time"] = xr.DataArray(np.array([f["time"]], dtype=np.int32), dims=["time"], attrs={"units": "days since 2000-01-01", "calendar": "standard"})
    return ds


def _ints(a):
    a = np.asarray(a)
    if a.dtype.kind == "f":
        if not np.all(np.isfinite(a)) or not np.all(a == np.round(a)):
            return "non-integer"
    return np.asarray(a).astype(np.int64).tolist()


def _grid_projection(g, case, mesh, order=("conn", "lon", "lat", "xyz")):
    pc = {"src": case["src"], "carried": {}}
    got, _, d_ok, f_ok = X.project_core(g, pc, mesh, order)
    got["dtype_ok"], got["fill_ok"] = {"face_node": d_ok}, {"face_node": f_ok}
    got["n_edge"] = int(g.n_edge)
    return got


def run_case(arg):
    case, work = arg
    ux = hux.import_ux()
    import xarray as xr

    mesh = {"nodes": case["nodes"], "centres": case["centres"]}
    rec = {"kind": "api", "id": case["id"], "outcome": case["outcome"], "mode": case["mode"], "exp": case["exp"], "complete": case["complete"],
           "orient": case["orient"], "keeps_ids": case["keeps_ids"], "nn": case["nn"], "counts": case["counts"], "exp_data": case["data"],
           "dk": case["dk"], "kw": case["kw"], "modes": [case["mode"], case["mode"]], "exps": [case["exp"], case["exp"]]}
    cdir = os.path.join(work, "x05_%d_%s" % (os.getpid(), abs(hash(case["id"])) % 10**9))
    os.makedirs(cdir, exist_ok=True)
    opened = []
    try:
        fmt, gk = case["fmt"], case["gk"]
        # ---- the grid input, as the kind says
        gpath = None
        if fmt in ("ugrid", "mpas", "esmf", "scrip", "exodus"):
            gds = _bad_dataset() if case["bad"] else _grid_dataset(case, mesh)
            if case["dk"] == "same":
                for v in case["same_vars"]:
                    gds[v["name"]] = xr.DataArray(np.array([v["vals"]], dtype=np.int64), dims=["time", v["dim"]])
                gds["time"] = xr.DataArray(np.array([1], dtype=np.int32), dims=["time"], attrs={"units": "days since 2000-01-01"})
            if gk in ("str", "pathlike", "dataset_disk"):
                gpath = os.path.join(cdir, "grid.nc")
                enc = X._disk_encoding(gds)
                gds.to_netcdf(gpath, encoding=enc)
                ginput = gpath if gk == "str" else pathlib.Path(gpath) if gk == "pathlike" else xr.open_dataset(gpath)
                if gk == "dataset_disk":
                    opened.append(ginput)
            else:
                ginput = gds
        elif fmt == "topology":
            pc = {"src": case["src"], "d": case["d"]}
            ginput = X._topology_kwargs(pc, mesh)
        else:
            pc = {"src": case["src"], "d": case["d"]}
            ginput = X._verts_input(pc, mesh)
        gopts = {}
        if fmt == "verts":
            gopts["latlon"] = bool(case["latlon"])
        if case["dual"]:
            gopts["use_dual"] = True
        fp0 = X.fingerprint(ginput) if case["in_memory"] else None
        # ---- open_grid
        try:
            g = ux.open_grid(ginput, **gopts)
            rec["raised"] = False
        except Exception as e:
            g = None
            rec["raised"] = True
            rec["raise_msg"] = "%s: %s" % (type(e).__name__, str(e)[:120])
        if g is not None:
            rec["got"] = _grid_projection(g, case, mesh)
            if fp0 is not None:
                kept = [X.fingerprint(ginput) == fp0]
                g2 = ux.open_grid(ginput, **gopts)
                rec["later"] = [_grid_projection(g2, case, mesh, ("lat", "conn", "lon", "xyz"))]
                kept.append(X.fingerprint(ginput) == fp0)
                rec["kept"] = kept
        # ---- data
        if case["dk"] != "none":
            paths = []
            for f in case["files"]:
                p = os.path.join(cdir, "data_%d.nc" % f["time"])
                _data_dataset(f).to_netcdf(p)
                paths.append(p)
            kw = {}
            if case["kw"] == "chunks":
                kw["chunks"] = {"n_face": 2}
            elif case["kw"] == "chunks_int":
                kw["chunks"] = 2
            elif case["kw"] == "decode_times":
                kw["decode_times"] = False
            elif case["kw"] == "drop":
                kw["drop_variables"] = ["vl"]
            kw0 = {k: (dict(v) if isinstance(v, dict) else list(v) if isinstance(v, list) else v) for k, v in kw.items()}
            dk = case["dk"]
            try:
                if dk in ("path", "pathlike", "same"):
                    dinput = gpath if dk == "same" else paths[0] if dk == "path" else pathlib.Path(paths[0])
                    if dk == "same" and gk == "pathlike":
                        dinput = pathlib.Path(gpath)
                    D = ux.open_dataset(ginput, dinput, **gopts, **kw)
                    expect_src = str(dinput)
                elif dk in ("list", "list_rev", "glob"):
                    dinput = paths if dk == "list" else list(reversed(paths)) if dk == "list_rev" else os.path.join(cdir, "data_*.nc")
                    D = ux.open_mfdataset(ginput, dinput, **gopts, **kw)
                    expect_src = str(dinput)
                else:  # the constructor, on the grid opened above
                    xds = xr.open_dataset(paths[0])
                    opened.append(xds)
                    D = ux.UxDataset(xds, uxgrid=g)
                    expect_src = None
                rec["ds_raised"] = False
            except Exception as e:
                D = None
                rec["ds_raised"] = True
                rec["ds_raise_msg"] = "%s: %s%s" % (type(e).__name__, str(e)[:140], X._where(e))
            if D is not None:
                opened.append(D)
                dsr = {"is_uxds": isinstance(D, ux.UxDataset), "has_grid": D.uxgrid is not None}
                if D.uxgrid is not None:
                    dsr["grid"] = _grid_projection(D.uxgrid, case, mesh)
                names = sorted(str(k) for k in D.data_vars)
                dsr["vars"] = names
                dsr["is_ux"] = {n: isinstance(D[n], ux.UxDataArray) for n in names}
                dsr["same_grid"] = {n: (D[n].uxgrid is D.uxgrid) for n in names}
                dsr["dims"] = {n: [str(x) for x in D[n].dims] for n in names}
                dsr["vals"] = {n: _ints(D[n].values) for n in names}
                dsr["source_ok"] = D.source_datasets == expect_src
                dsr["kw_kept"] = kw == kw0  # the caller's option objects are inputs too
                ch = D["vf"].chunks if "vf" in D else None
                dsr["chunk_face"] = int(max(ch[-1])) if ch else -1
                try:
                    arr = D.to_array()
                    dsr["to_array"] = bool(isinstance(arr, ux.UxDataArray) and arr.uxgrid is D.uxgrid)
                except Exception as e:
                    dsr["to_array"] = False
                    dsr["to_array_msg"] = "%s: %s" % (type(e).__name__, str(e)[:100])
                try:
                    buf = io.StringIO()
                    D.info(buf=buf)
                    text = buf.getvalue()
                    dsr["info_vars"] = sorted(n for n in names if ("%s(" % n) in text)
                    dsr["info_n_face"] = ("n_face = %d" % int(D.uxgrid.n_face)) in text
                except Exception as e:
                    dsr["info_vars"] = []
                    dsr["info_n_face"] = False
                    dsr["info_msg"] = "%s: %s" % (type(e).__name__, str(e)[:100])
                if case["dk"] == "path" and case["kw"] == "none" and gk == "str" and not case["dual"] and case["closed"]:
                    # get_dual: faces and nodes change places, the data goes with them
                    try:
                        DD = D.get_dual()
                        dsr["dual"] = {"is_uxds": isinstance(DD, ux.UxDataset), "n_face": int(DD.uxgrid.n_face), "n_node": int(DD.uxgrid.n_node),
                                       "dims": {n: [str(x) for x in DD[n].dims] for n in sorted(map(str, DD.data_vars))},
                                       "vals": {n: _ints(DD[n].values) for n in sorted(map(str, DD.data_vars))},
                                       "same_grid": all(DD[n].uxgrid is DD.uxgrid for n in map(str, DD.data_vars))}
                    except Exception as e:
                        dsr["dual"] = {"error": "%s: %s%s" % (type(e).__name__, str(e)[:120], X._where(e))}
                if fp0 is not None:
                    rec["kept"] = rec.get("kept", []) + [X.fingerprint(ginput) == fp0]
                rec["ds"] = dsr
    except Exception as e:  # the harness itself
        import traceback

        rec["harness_error"] = "%s: %s\n%s" % (type(e).__name__, e, traceback.format_exc()[-600:])
    finally:
        for o in opened:
            try:
                o.close()
            except Exception:
                pass
        shutil.rmtree(cdir, ignore_errors=True)
    return rec


def misc_record():
    """from_dict / from_dataframe: the classmethods keep the UxDataset type."""
    ux = hux.import_ux()
    import pandas as pd

    rec = {"kind": "misc", "id": "misc:from_dict/from_dataframe"}
    try:
        a = ux.UxDataset.from_dict({"a": [1, 2, 3], "b": [4, 5, 6]})
        rec["from_dict"] = {"is_uxds": isinstance(a, ux.UxDataset), "vars": sorted(map(str, a.data_vars)), "vals": [_ints(a["a"].values), _ints(a["b"].values)],
                            "is_ux": isinstance(a["a"], ux.UxDataArray)}
    except Exception as e:
        rec["from_dict"] = {"is_uxds": False, "vars": [], "vals": [], "is_ux": False, "msg": "%s: %s" % (type(e).__name__, str(e)[:120])}
    try:
        b = ux.UxDataset.from_dataframe(pd.DataFrame({"a": [1, 2, 3], "b": [4, 5, 6]}))
        rec["from_dataframe"] = {"is_uxds": isinstance(b, ux.UxDataset), "vars": sorted(map(str, b.data_vars)), "vals": [_ints(b["a"].values), _ints(b["b"].values)],
                                 "is_ux": isinstance(b["a"], ux.UxDataArray)}
    except Exception as e:
        rec["from_dataframe"] = {"is_uxds": False, "vars": [], "vals": [], "is_ux": False, "msg": "%s: %s" % (type(e).__name__, str(e)[:120])}
    return rec

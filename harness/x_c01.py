"""C01 materialiser and projector.

Turns a source emitted by TLC (Dialects.tla: stored integer tables + metadata) and the lattice
directions of the mesh's nodes into a real input of the route (in-memory xr.Dataset / arrays /
dict, or a NetCDF / GeoJSON / shapefile on disk), opens it through the public API, and projects
the resulting Grid to the record JudgeReaders.tla judges.  Nothing here decides a verdict.
"""

from __future__ import annotations

import json
import math
import os

import numpy as np

from . import lattice
from . import ux as hux

NANCODE = -99999
BIGFILL = -88888
NOFILL = -77777
TOL = 1e-9  # rad, nearest lattice point
AREA_SCALE = 4096.0  # abstract tag -> stored area (exactly representable)
DIST_SCALE = 1024.0  # abstract tag -> stored edge length


# ----------------------------------------------------------------------------- TLC output -> python
def _plain(v):
    """tlaval images -> JSON-able (tuples -> lists, MV/str -> str, {} for the empty function)."""
    if isinstance(v, dict):
        return {str(k): _plain(x) for k, x in v.items()}
    if isinstance(v, (tuple, list)):
        return [_plain(x) for x in v]
    if isinstance(v, (set, frozenset)):
        return sorted(_plain(x) for x in v)
    if isinstance(v, bool):
        return v
    if isinstance(v, int):
        return v
    return str(v)


def _rec(v):
    v = _plain(v)
    return {} if v == [] else v


def _pretty_prints(out, tag):
    """TLC pretty-prints short PrintT values as '<< "TAG",' (with a blank), which the shared
    runner's scanner does not pick up; collect those here."""
    from . import tlaval

    key = '<< "%s"' % tag
    i = 0
    while True:
        j = out.find(key, i)
        if j < 0:
            return
        if j == 0 or out[j - 1] == "\n":
            try:
                v, end = tlaval.parse_prefix(out, j)
                yield v
                i = end
                continue
            except tlaval.ParseError:
                pass
        i = j + len(key)


def parse_prints(prints, out=""):
    meshes, cases = {}, []
    prints = list(prints) + list(_pretty_prints(out, "MESH")) + list(_pretty_prints(out, "CASE"))
    for p in prints:
        if not (isinstance(p, tuple) and len(p) == 2):
            continue
        if p[0] == "MESH":
            m = _plain(p[1])
            meshes[m["mi"]] = m
        elif p[0] == "CASE":
            c = _plain(p[1])
            c["carried"] = _rec(p[1]["carried"])
            c["d"] = _rec(p[1]["d"])
            if "attrs" in c["src"]:
                c["src"]["attrs"] = _rec(p[1]["src"]["attrs"])
            c["id"] = "%s:%s:%s" % (c["mesh"], c["route"], ",".join("%s=%s" % kv for kv in sorted(c["d"].items())))
            if c.get("first", "conn") != "conn":
                c["id"] += "|first=" + c["first"]
            c["between"] = _rec(p[1]["between"]) if "between" in p[1] else {"kind": "none"}
            if c["between"].get("kind") == "sweep":
                b = c["between"]
                c["id"] += "|bw=%d.%d.%s" % (b["start"], b["step"], "R" if b["reverse"] else "F")
            cases.append(c)
    cases.sort(key=lambda c: c["id"])
    return meshes, cases


# ----------------------------------------------------------------------------- coordinates
def lonlat(dirs, conv="pm180"):
    lon, lat = [], []
    for v in dirs:
        lo, la = lattice.lonlat_deg(v)
        if conv == "p360":
            lo = lo % 360.0
        lon.append(lo)
        lat.append(la)
    return np.array(lon, dtype=float), np.array(lat, dtype=float)


def units(dirs):
    return np.array([lattice.unit(v) for v in dirs], dtype=float)


def _np_dtype(name):
    return {"int32": np.int32, "int64": np.int64, "uint32": np.uint32, "float64": np.float64}[name]


QUANTITIES = {"areaCell", "areaTriangle", "dvEdge", "dcEdge", "grid_area", "elementArea"}  # abstract tags: kept exact


def is_f32(src):
    return src.get("ftype") == "f32" or str(src.get("store", "")).endswith("f32")


def apply_storage(ds, src):
    """The storage knobs of the dialect, applied to a built dataset: coordinate arrays as float32 (ftype / store
    '..f32'), and - for the routes whose index tables have one common type (ICON, ESMF) - the integer type."""
    import xarray as xr

    if is_f32(src):
        for k in list(ds.variables):
            v = ds[k]
            if v.dtype == np.float64 and "cf_role" not in v.attrs and k not in QUANTITIES:
                ds[k] = xr.DataArray(v.values.astype(np.float32), dims=v.dims, attrs=dict(v.attrs))
    st = str(src.get("store", ""))
    if src["route"] in ("icon", "esmf") and st[:3] in ("i32", "i64", "u32"):
        it = {"i32": np.int32, "i64": np.int64, "u32": np.uint32}[st[:3]]
        for k in list(ds.variables):
            v = ds[k]
            if v.dtype.kind in "iu" and v.dtype != it and v.ndim >= 1:
                ds[k] = xr.DataArray(v.values.astype(it), dims=v.dims, attrs=dict(v.attrs))
    return ds


def _table(tbl, dtype, fill_map=None):
    """Integer table from the spec -> ndarray of the dialect's dtype; codes substituted."""
    _, FILL = hux.consts()
    a = np.array(tbl, dtype=np.int64)
    if a.ndim == 1:
        a = a.reshape(len(tbl), 0)
    if dtype == "float64":
        out = a.astype(np.float64)
        out[a == NANCODE] = np.nan
        out[a == BIGFILL] = float(FILL)
        return out
    if (a == NANCODE).any():
        raise ValueError("NaN fill in integer storage: ill-formed case")
    a = np.where(a == BIGFILL, FILL, a)
    return a.astype(_np_dtype(dtype))


class NotRepresentable(Exception):
    """The trusted writer cannot hold this source as described (never a verdict)."""


# ----------------------------------------------------------------------------- per-route sources
def _ugrid_ds(case, mesh):
    import xarray as xr

    src = case["src"]
    std = src["names"] == "standard"
    N = (
        dict(topo="grid_topology", lon="node_lon", lat="node_lat", fn="face_node_connectivity", en="edge_node_connectivity",
             fe="face_edge_connectivity", ef="edge_face_connectivity", flon="face_lon", flat="face_lat",
             dn="n_node", df="n_face", dw="n_max_face_nodes", de="n_edge", d2="two")
        if std
        else dict(topo="Mesh2", lon="xs", lat="ys", fn="f2n", en="e2n", fe="f2e", ef="e2f", flon="cx", flat="cy",
                  dn="a", df="b", dw="c", de="e", d2="t")
    )
    lon, lat = lonlat(mesh["nodes"], src["lon"])
    attrs = {}
    enc = {}
    if "start_index" in src["attrs"]:
        attrs["start_index"] = np.int32(src["attrs"]["start_index"])
    fv = None
    if "fill_value" in src["attrs"]:
        fvi = src["attrs"]["fill_value"]
        fv = _np_dtype(src["dtype"])(hux.consts()[1] if fvi == BIGFILL else fvi)
        attrs["_FillValue"] = fv
    ds = xr.Dataset()
    ds[N["lon"]] = xr.DataArray(lon, dims=[N["dn"]], attrs={"standard_name": "longitude", "units": "degrees_east"})
    ds[N["lat"]] = xr.DataArray(lat, dims=[N["dn"]], attrs={"standard_name": "latitude", "units": "degrees_north"})
    topo = {
        "cf_role": "mesh_topology",
        "topology_dimension": np.int32(2),
        "node_coordinates": "%s %s" % (N["lon"], N["lat"]),
        "face_node_connectivity": N["fn"],
    }
    if not std:
        topo["face_dimension"] = N["df"]
        topo["node_dimension"] = N["dn"]
    declare = src["topo"] == "attr"

    def conn(key, role, tbl, dims):
        a = dict(attrs)
        a["cf_role"] = role
        ds[N[key]] = xr.DataArray(_table(tbl, src["dtype"]), dims=dims, attrs=a)
        if declare or role == "face_node_connectivity":
            topo[role] = N[key]

    conn("fn", "face_node_connectivity", src["face_node"], [N["df"], N["dw"]] if src["face_axis"] == 1 else [N["dw"], N["df"]])
    if src["edge_node"]:
        conn("en", "edge_node_connectivity", src["edge_node"], [N["de"], N["d2"]])
        if src["face_edge"]:
            conn("fe", "face_edge_connectivity", src["face_edge"], [N["df"], N["dw"]])
        if declare and not std:
            topo["edge_dimension"] = N["de"]
    if src["edge_face"]:
        conn("ef", "edge_face_connectivity", src["edge_face"], [N["de"], N["d2"]])
    if src["centres"]:
        clon, clat = lonlat(mesh["centres"], src["lon"])
        ds[N["flon"]] = xr.DataArray(clon, dims=[N["df"]], attrs={"standard_name": "longitude", "units": "degrees_east"})
        ds[N["flat"]] = xr.DataArray(clat, dims=[N["df"]], attrs={"standard_name": "latitude", "units": "degrees_north"})
        topo["face_coordinates"] = "%s %s" % (N["flon"], N["flat"])
    ds[N["topo"]] = xr.DataArray(np.int32(-1), attrs=topo)
    return ds


def _disk_encoding(ds):
    """_FillValue attrs become netCDF encodings (that is where a file keeps them)."""
    enc = {}
    for k in list(ds.variables):
        v = ds[k]
        if "_FillValue" in v.attrs:
            a = dict(v.attrs)
            fv = a.pop("_FillValue")
            ds[k].attrs = a
            enc[k] = {"_FillValue": fv}
        else:
            enc[k] = {"_FillValue": None}
    return enc


MPAS_STORES = {"i32f64": (np.int32, np.float64), "i64f64": (np.int64, np.float64), "u32f32": (np.uint32, np.float32)}


def mpas_dataset(src, nodes, centres):
    """PUBLIC (also used by other checks; keep the signature): the in-memory MPAS xr.Dataset of a stored source.

    src: dict of the tables Dialects.tla emits for the routes "mpas" / "mpas_dual" (MpasStored / MpasDualStored):
         route, verticesOnCell, nEdgesOnCell, cellsOnVertex (1-based, 0 = absent, padding as the dialect says),
         optional verticesOnEdge, cellsOnEdge, edgesOnCell, cellsOnCell, edgesOnVertex (lists, empty = not
         supplied), areaCell / areaTriangle / dvEdge / dcEdge (integer tags, stored as tag / AREA_SCALE resp.
         tag / DIST_SCALE), xyz (bool), centres (bool), store ("i32f64" | "i64f64" | "u32f32", default int32/float64).
    nodes:   integer direction vectors of the grid's nodes (route "mpas": the MPAS vertices; "mpas_dual": the cells).
    centres: integer direction vectors of the grid's faces (route "mpas": the cells; "mpas_dual": the vertices).
    Longitudes / latitudes are stored the MPAS way: radians, longitude in [0, 2 pi).
    """
    import xarray as xr

    dual = src["route"] == "mpas_dual"
    ds = xr.Dataset()
    ity, fty = MPAS_STORES[src.get("store", "i32f64")]

    def radians_0_2pi(dirs):
        lo, la = lonlat(dirs, "p360")
        return np.radians(lo).astype(fty), np.radians(la).astype(fty)

    def itab(name, dims):
        ds[name] = xr.DataArray(np.array(src[name], dtype=np.int64).astype(ity), dims=dims)

    if not dual:
        vlon, vlat = radians_0_2pi(nodes)
        ds["lonVertex"] = xr.DataArray(vlon, dims=["nVertices"])
        ds["latVertex"] = xr.DataArray(vlat, dims=["nVertices"])
        if src["xyz"]:
            u = units(nodes)
            for k, n in enumerate(["xVertex", "yVertex", "zVertex"]):
                ds[n] = xr.DataArray(u[:, k].astype(fty), dims=["nVertices"])
        if src["centres"]:
            clon, clat = radians_0_2pi(centres)
            ds["lonCell"] = xr.DataArray(clon, dims=["nCells"])
            ds["latCell"] = xr.DataArray(clat, dims=["nCells"])
    else:
        # the dual's nodes are the MPAS cells, its faces the MPAS vertices
        clon, clat = radians_0_2pi(nodes)
        ds["lonCell"] = xr.DataArray(clon, dims=["nCells"])
        ds["latCell"] = xr.DataArray(clat, dims=["nCells"])
        if src["xyz"]:
            u = units(nodes)
            for k, n in enumerate(["xCell", "yCell", "zCell"]):
                ds[n] = xr.DataArray(u[:, k].astype(fty), dims=["nCells"])
        vdirs = centres
        if len(vdirs) != len(src["cellsOnVertex"]):
            # regional file: also vertices some of whose cells are absent; place them amid their present cells
            U = units(nodes)
            vdirs = [tuple(np.sum([U[c - 1] for c in row if c != 0], axis=0)) for row in src["cellsOnVertex"]]
        vlon, vlat = radians_0_2pi(vdirs)
        ds["lonVertex"] = xr.DataArray(vlon, dims=["nVertices"])
        ds["latVertex"] = xr.DataArray(vlat, dims=["nVertices"])
    itab("verticesOnCell", ["nCells", "maxEdges"])
    itab("nEdgesOnCell", ["nCells"])
    itab("cellsOnVertex", ["nVertices", "vertexDegree"])
    if src.get("verticesOnEdge"):
        itab("verticesOnEdge", ["nEdges", "TWO"])
        itab("cellsOnEdge", ["nEdges", "TWO"])
        if src.get("edgesOnVertex"):
            itab("edgesOnVertex", ["nVertices", "vertexDegree"])
        if src.get("edgesOnCell"):
            itab("edgesOnCell", ["nCells", "maxEdges"])
        if src.get("cellsOnCell"):
            itab("cellsOnCell", ["nCells", "maxEdges"])
        if src.get("areaTriangle"):
            ds["areaTriangle"] = xr.DataArray(np.array(src["areaTriangle"], dtype=float) / AREA_SCALE, dims=["nVertices"])
        if src.get("areaCell"):
            ds["areaCell"] = xr.DataArray(np.array(src["areaCell"], dtype=float) / AREA_SCALE, dims=["nCells"])
        if src.get("dvEdge"):
            ds["dvEdge"] = xr.DataArray(np.array(src["dvEdge"], dtype=float) / DIST_SCALE, dims=["nEdges"])
            ds["dcEdge"] = xr.DataArray(np.array(src["dcEdge"], dtype=float) / DIST_SCALE, dims=["nEdges"])
        ds.attrs["sphere_radius"] = 1.0
    ds.attrs["on_a_sphere"] = "YES"
    return ds


def _mpas_ds(case, mesh):
    return mpas_dataset(case["src"], mesh["nodes"], mesh["centres"])


def _scrip_ds(case, mesh):
    import xarray as xr

    src = case["src"]
    lon, lat = lonlat(mesh["nodes"], src["lon"])
    c = np.array(src["corners"], dtype=np.int64)
    clon, clat = lonlat(mesh["centres"], src["lon"])
    un = src["units"]
    if un == "radians":
        lon, lat, clon, clat = np.radians(lon), np.radians(lat), np.radians(clon), np.radians(clat)
    ds = xr.Dataset()
    ds["grid_corner_lon"] = xr.DataArray(lon[c], dims=["grid_size", "grid_corners"], attrs={"units": un})
    ds["grid_corner_lat"] = xr.DataArray(lat[c], dims=["grid_size", "grid_corners"], attrs={"units": un})
    ds["grid_center_lon"] = xr.DataArray(clon, dims=["grid_size"], attrs={"units": un})
    ds["grid_center_lat"] = xr.DataArray(clat, dims=["grid_size"], attrs={"units": un})
    ds["grid_area"] = xr.DataArray(np.array(src["grid_area"], dtype=float) / AREA_SCALE, dims=["grid_size"], attrs={"units": "radians^2"})
    ds["grid_imask"] = xr.DataArray(np.ones(len(c), dtype=np.int32), dims=["grid_size"])
    ds["grid_dims"] = xr.DataArray(np.array([len(c)], dtype=np.int32), dims=["grid_rank"])
    return ds


def _exodus_ds(case, mesh):
    import xarray as xr

    src = case["src"]
    u = units(mesh["nodes"])
    ds = xr.Dataset()
    ds["coor_names"] = xr.DataArray(np.array([list("x   "), list("y   "), list("z   ")], dtype="S1"), dims=["num_dim", "len_name"])
    for k, blk in enumerate(src["blocks"], start=1):
        ds["connect%d" % k] = xr.DataArray(
            np.array(blk, dtype=_np_dtype(src["dtype"])),
            dims=["num_el_in_blk%d" % k, "num_nod_per_el%d" % k],
            attrs={"elem_type": "SHELL%d" % len(blk[0])},
        )
    if src["coord"] == "coord":
        ds["coord"] = xr.DataArray(u.T.copy(), dims=["num_dim", "num_nodes"])
    else:
        for k, n in enumerate(["coordx", "coordy", "coordz"]):
            ds[n] = xr.DataArray(u[:, k].copy(), dims=["num_nodes"])
    ds.attrs["api_version"] = np.float32(5.0)
    return ds


def _esmf_ds(case, mesh, disk=False):
    import xarray as xr

    src = case["src"]
    lon, lat = lonlat(mesh["nodes"], src["lon"])
    ds = xr.Dataset()
    ds["nodeCoords"] = xr.DataArray(np.stack([lon, lat], axis=1), dims=["nodeCount", "coordDim"], attrs={"units": "degrees"})
    a = {"long_name": "Node indices that define the element connectivity"}
    if "start_index" in src["attrs"]:
        a["start_index"] = np.int32(src["attrs"]["start_index"])
    ds["elementConn"] = xr.DataArray(np.array(src["elementConn"], dtype=np.int32), dims=["elementCount", "maxNodePElement"], attrs=a)
    ds["numElementConn"] = xr.DataArray(np.array(src["numElementConn"], dtype=np.int32), dims=["elementCount"])
    if src["centres"]:
        clon, clat = lonlat(mesh["centres"], src["lon"])
        ds["centerCoords"] = xr.DataArray(np.stack([clon, clat], axis=1), dims=["elementCount", "coordDim"], attrs={"units": "degrees"})
        ds["elementArea"] = xr.DataArray(np.array(src["elementArea"], dtype=float) / AREA_SCALE, dims=["elementCount"], attrs={"units": "radians^2"})
    ds.attrs["gridType"] = "unstructured mesh"
    return ds


def _geos_ds(case, mesh):
    import xarray as xr

    src = case["src"]
    lon, lat = lonlat(mesh["nodes"], src["lon"])
    c = np.array(src["corners"], dtype=np.int64)  # [nf, n+1, n+1]
    n = src["n"]
    ds = xr.Dataset()
    ds["corner_lons"] = xr.DataArray(lon[c], dims=["nf", "YCdim", "XCdim"], attrs={"units": "degrees_east"})
    ds["corner_lats"] = xr.DataArray(lat[c], dims=["nf", "YCdim", "XCdim"], attrs={"units": "degrees_north"})
    if src["centres"]:
        clon, clat = lonlat(mesh["centres"], src["lon"])
        ds["lons"] = xr.DataArray(clon.reshape(6, n, n), dims=["nf", "Ydim", "Xdim"], attrs={"units": "degrees_east"})
        ds["lats"] = xr.DataArray(clat.reshape(6, n, n), dims=["nf", "Ydim", "Xdim"], attrs={"units": "degrees_north"})
    return ds


def _edge_dirs(mesh, edges0):
    out = []
    for a, b in edges0:
        ua, ub = lattice.unit(mesh["nodes"][a]), lattice.unit(mesh["nodes"][b])
        out.append((ua[0] + ub[0], ua[1] + ub[1], ua[2] + ub[2]))
    return out


def _icon_ds(case, mesh):
    import xarray as xr

    src = case["src"]
    ds = xr.Dataset()
    i32 = np.int32

    def rad(dirs):
        lo, la = lonlat(dirs, "pm180")
        return np.radians(lo), np.radians(la)

    vlon, vlat = rad(mesh["nodes"])
    clon, clat = rad(mesh["centres"])
    elon, elat = rad(_edge_dirs(mesh, case["carried"]["edge_node"]))
    ds["vlon"] = xr.DataArray(vlon, dims=["vertex"])
    ds["vlat"] = xr.DataArray(vlat, dims=["vertex"])
    ds["clon"] = xr.DataArray(clon, dims=["cell"])
    ds["clat"] = xr.DataArray(clat, dims=["cell"])
    ds["elon"] = xr.DataArray(elon, dims=["edge"])
    ds["elat"] = xr.DataArray(elat, dims=["edge"])
    ds["vertex_of_cell"] = xr.DataArray(np.array(src["vertex_of_cell"], dtype=i32), dims=["nv", "cell"])
    ds["edge_of_cell"] = xr.DataArray(np.array(src["edge_of_cell"], dtype=i32), dims=["nv", "cell"])
    ds["neighbor_cell_index"] = xr.DataArray(np.array(src["neighbor_cell_index"], dtype=i32), dims=["nv", "cell"])
    ds["adjacent_cell_of_edge"] = xr.DataArray(np.array(src["adjacent_cell_of_edge"], dtype=i32), dims=["nc", "edge"])
    ds["edge_vertices"] = xr.DataArray(np.array(src["edge_vertices"], dtype=i32), dims=["nc", "edge"])
    return ds


def _geo_file(case, mesh, path_base):
    src = case["src"]
    lon, lat = lonlat(mesh["nodes"], "pm180")

    def ring(r):
        return [[float(lon[k]), float(lat[k])] for k in r]

    if src["fmt"] == "geojson":
        feats = []
        for k, f in enumerate(src["features"]):
            if f["multi"]:
                geom = {"type": "MultiPolygon", "coordinates": [[ring(r)] for r in f["rings"]]}
            else:
                geom = {"type": "Polygon", "coordinates": [ring(f["rings"][0])]}
            feats.append({"type": "Feature", "properties": {"k": k}, "geometry": geom})
        path = path_base + ".geojson"
        with open(path, "w") as fh:
            json.dump({"type": "FeatureCollection", "features": feats}, fh)
        return path
    import geopandas as gpd
    from shapely.geometry import MultiPolygon, Polygon

    geoms = []
    for f in src["features"]:
        polys = [Polygon(ring(r)) for r in f["rings"]]
        geoms.append(MultiPolygon(polys) if f["multi"] else polys[0])
    d = path_base + "_shp"
    os.makedirs(d, exist_ok=True)
    path = os.path.join(d, "faces.shp")
    gpd.GeoDataFrame({"k": list(range(len(geoms)))}, geometry=geoms, crs="EPSG:4326").to_file(path)
    # A shapefile has no MultiPolygon: parts become rings of one record and the reader of the format
    # re-derives shells and holes from the planar ring geometry.  If the file the (trusted) writer produced
    # does not hold our parts as separate shells, it is not the source the case describes.
    back = gpd.read_file(path)
    parts = [len(x.geoms) if x.geom_type == "MultiPolygon" else 1 for x in back.geometry]
    holes = sum(len(p.interiors) for x in back.geometry for p in (x.geoms if x.geom_type == "MultiPolygon" else [x]))
    if parts != [len(f["rings"]) for f in src["features"]] or holes:
        import shutil

        shutil.rmtree(d, ignore_errors=True)
        raise NotRepresentable("shapefile writer restructured the parts: %s holes=%d" % (parts, holes))
    return path


def _verts_input(case, mesh):
    _, FILL = hux.consts()
    src = case["src"]
    c = np.array(src["corners"], dtype=np.int64)
    if src["coords"] == "lonlat":
        lon, lat = lonlat(mesh["nodes"], "pm180")
        pts = np.stack([lon, lat], axis=1)
    else:
        pts = units(mesh["nodes"])
    arr = np.full(c.shape + (pts.shape[1],), float(FILL), dtype=float)
    ok = c != BIGFILL
    arr[ok] = pts[c[ok]]
    if is_f32(src):
        arr = arr.astype(np.float32)
    if src["single"]:
        arr = arr[0]
    if src["box"] == "list":
        return arr.tolist()
    if src["box"] == "tuple":
        return tuple(tuple(tuple(p) if isinstance(p, list) else p for p in f) if isinstance(f, list) else f for f in arr.tolist())
    return arr


def _boxed(a, box):
    if box == "list":
        return a.tolist()
    if box == "tuple":
        return tuple(tuple(r) if isinstance(r, list) else r for r in a.tolist())
    if box == "readonly":
        a = a.copy()
        a.setflags(write=False)
        return a
    return a


def _topology_kwargs(case, mesh):
    _, FILL = hux.consts()
    src = case["src"]
    box = src.get("box", "ndarray")
    lon, lat = lonlat(mesh["nodes"], "pm180")
    if is_f32(src):
        lon, lat = lon.astype(np.float32), lat.astype(np.float32)
    fv = None if src["fill_value"] == NOFILL else (FILL if src["fill_value"] == BIGFILL else src["fill_value"])
    kw = dict(
        node_lon=_boxed(lon, box),
        node_lat=_boxed(lat, box),
        face_node_connectivity=_boxed(_table(src["face_node"], src["dtype"]), box),
        fill_value=fv,
        start_index=src["start_index"],
    )
    if src["edge_node"]:
        kw["edge_node_connectivity"] = _boxed(_table(src["edge_node"], src["dtype"]), box)
        if src["face_edge"]:
            kw["face_edge_connectivity"] = _boxed(_table(src["face_edge"], src["dtype"]), box)
    if src.get("dims_dict"):
        kw["dims_dict"] = {"nVertices": "n_node", "nCells": "n_face", "maxEdges": "n_max_face_nodes"}
    return kw


# ----------------------------------------------------------------------------- open
def _quiet():
    import contextlib
    import io

    return contextlib.redirect_stdout(io.StringIO())


def fingerprint(obj):
    """Deep fingerprint of an input object: everything a later reader of the same object could see."""
    import hashlib

    import xarray as xr

    def arr(a):
        a = np.asarray(a)
        return (str(a.dtype), a.shape, hashlib.sha1(np.ascontiguousarray(a).tobytes()).hexdigest())

    if isinstance(obj, xr.Dataset):
        out = {"__dims__": repr(sorted(obj.sizes.items())), "__attrs__": repr(sorted((k, repr(v)) for k, v in obj.attrs.items()))}
        for name in sorted(obj.variables):
            v = obj.variables[name]
            out[str(name)] = (v.dims, arr(v.values), repr(sorted((k, repr(x)) for k, x in v.attrs.items())),
                              repr(sorted((k, repr(x)) for k, x in v.encoding.items())))
        return out
    if isinstance(obj, dict):
        return {str(k): fingerprint(v) for k, v in sorted(obj.items())}
    if isinstance(obj, np.ndarray):
        return {"__array__": arr(obj) + (bool(obj.flags.writeable),)}
    return {"__value__": (type(obj).__name__, repr(obj))}


def changed_parts(fp0, fp1):
    return sorted(k for k in set(fp0) | set(fp1) if fp0.get(k) != fp1.get(k))


def prepare(case, mesh, work, disk):
    """Materialise the source of `case` ONCE.  Returns (input object or None for files, decode(opt), cleanup):
    decode(opt) opens that same object / file through the public API with option opt
    ("same" | "primal" | "dual") and returns (grid, how)."""
    ux = hux.import_ux()
    route = case["route"]
    base = os.path.join(work, "src_%d_%s" % (os.getpid(), abs(hash(case["id"])) % 10**9))

    def use_dual(opt):
        return opt == "dual" or (opt == "same" and route == "mpas_dual")

    if route in ("ugrid", "mpas", "mpas_dual", "scrip", "exodus", "esmf", "geos", "icon"):
        ds = {
            "ugrid": _ugrid_ds,
            "mpas": _mpas_ds,
            "mpas_dual": _mpas_ds,
            "scrip": _scrip_ds,
            "exodus": _exodus_ds,
            "esmf": _esmf_ds,
            "geos": _geos_ds,
            "icon": _icon_ds,
        }[route](case, mesh)
        if route not in ("mpas", "mpas_dual"):  # mpas_dataset applies its own store
            ds = apply_storage(ds, case["src"])
        if disk:
            path = base + ".nc"
            enc = _disk_encoding(ds)
            if route == "esmf" and case["d"].get("padv") == "m1":
                enc["elementConn"] = {"_FillValue": ds["elementConn"].dtype.type(-1)}  # what ESMF's own writer declares
            ds.to_netcdf(path, encoding=enc)

            def cleanup():
                try:
                    os.remove(path)
                except OSError:
                    pass

            return None, (lambda opt: (ux.open_grid(path, use_dual=use_dual(opt)), "file")), cleanup
        if case.get("k", 0) % 2:
            return ds, (lambda opt: (ux.Grid.from_dataset(ds, use_dual=use_dual(opt)), "from_dataset")), (lambda: None)
        return ds, (lambda opt: (ux.open_grid(ds, use_dual=use_dual(opt)), "open_grid")), (lambda: None)
    if route == "geo":
        path = _geo_file(case, mesh, base)

        def dec(opt):
            with _quiet():  # the reader prints CRS information
                return ux.Grid.from_file(path), "from_file"

        def cleanup():
            import shutil

            if path.endswith(".geojson"):
                os.remove(path)
            else:
                shutil.rmtree(os.path.dirname(path), ignore_errors=True)

        return None, dec, cleanup
    if route == "verts":
        v = _verts_input(case, mesh)
        latlon = case["src"]["coords"] == "lonlat"
        if case["src"]["via"] == "open_grid":
            return v, (lambda opt: (ux.open_grid(v, latlon=latlon), "open_grid")), (lambda: None)
        return v, (lambda opt: (ux.Grid.from_face_vertices(v, latlon=latlon), "from_face_vertices")), (lambda: None)
    if route == "topology":
        kw = _topology_kwargs(case, mesh)
        if case["src"]["via"] == "open_grid":
            return kw, (lambda opt: (ux.open_grid(kw), "open_grid")), (lambda: None)
        return kw, (lambda opt: (ux.Grid.from_topology(**kw), "from_topology")), (lambda: None)
    raise ValueError(route)


def case_tol(case):
    """Positions are matched to the precision the source stores them with."""
    return 1e-6 if is_f32(case["src"]) else TOL


# ----------------------------------------------------------------------------- projection
def nearest_ids(lon, lat, dirs, tol=TOL):
    """Lattice id of every (lon, lat) in degrees by nearest match within TOL rad; -2 if none.
    Positions compare as directions, so a pole matches whatever its longitude."""
    lon = np.asarray(lon, dtype=float).ravel()
    lat = np.asarray(lat, dtype=float).ravel()
    U = np.array([lattice.unit(v) for v in dirs], dtype=float)
    ok = np.isfinite(lon) & np.isfinite(lat)
    lo, la = np.radians(np.where(ok, lon, 0.0)), np.radians(np.where(ok, lat, 0.0))
    P = np.stack([np.cos(la) * np.cos(lo), np.cos(la) * np.sin(lo), np.sin(la)], axis=1)
    if len(P) == 0:
        return []
    best = np.argmax(P @ U.T, axis=1)
    chord = np.linalg.norm(P - U[best], axis=1)  # exact near 0, unlike acos of the dot product
    good = ok & (chord <= 2.0 * math.sin(tol / 2.0))
    return [int(b) if g else -2 for b, g in zip(best, good)]


def _tags(values, scale):
    """Carried quantities back to their abstract tags (value * scale is an exact integer), else -1."""
    a = np.asarray(values, dtype=float).ravel() * scale
    return [int(x) if math.isfinite(x) and float(x).is_integer() and abs(x) < 2**30 else -1 for x in a.tolist()]


def _range_ok(a, lo, hi):
    a = np.asarray(a, dtype=float)
    return bool(np.all(np.isfinite(a)) and a.min() >= lo and a.max() <= hi) if a.size else True


INVENTORY = {"dims", "sizes", "coordinates", "connectivity", "descriptors", "parsed_attrs", "attrs"}
SWEEP_METHODS = ("compute_face_areas",)  # public methods that compute what a source may ship


def grid_attributes():
    """Every public property of the Grid class, by introspection (b-c09's list when available): a property added
    later is read in between automatically."""
    try:
        from . import x_c09

        return list(x_c09.grid_attributes())
    except Exception:
        ux = hux.import_ux()
        return [n for n, v in vars(ux.Grid).items() if isinstance(v, property) and not n.startswith("_") and n not in INVENTORY]


def sweep(g, between):
    """Read the Grid's other public attributes in the order the case prescribes (Dialects!Sweeps).  What they
    return - or raise - is other checks' business; here they are only the history before the carried values
    are read again."""
    import math as _m

    attrs = grid_attributes()
    n = len(attrs)
    step = int(between["step"])
    while _m.gcd(step, n) != 1:
        step += 1
    seq = [attrs[(int(between["start"]) + j * step) % n] for j in range(n)]
    if between["reverse"]:
        seq.reverse()
    for a in seq:
        try:
            v = getattr(g, a)
            if hasattr(v, "values"):
                v.values
        except Exception:
            pass
    for m in SWEEP_METHODS:
        try:
            getattr(g, m)()
        except Exception:
            pass
    return seq


def read_in_order(g, order):
    """Read the Grid's attributes in the order the plan prescribes; values are taken when read."""
    seen = {}
    for a in order:
        if a == "conn":
            seen["conn"] = (int(g.n_face), int(g.n_node), hux.table(g.face_node_connectivity))
        elif a == "lon":
            seen["lon"] = np.array(g.node_lon.values, dtype=float)
        elif a == "lat":
            seen["lat"] = np.array(g.node_lat.values, dtype=float)
        elif a == "xyz":
            seen["xyz"] = np.stack([np.array(g.node_x.values, dtype=float), np.array(g.node_y.values, dtype=float),
                                    np.array(g.node_z.values, dtype=float)], axis=1)
    return seen


def xyz_ids(xyz, dirs, tol):
    """Lattice id of every Cartesian node position, as a direction (the property does not fix the radius)."""
    n = np.linalg.norm(xyz, axis=1)
    ok = np.isfinite(n) & (n > 0)
    u = np.where(ok[:, None], xyz / np.where(ok, n, 1.0)[:, None], 0.0)
    lat = np.degrees(np.arcsin(np.clip(u[:, 2], -1.0, 1.0)))
    lon = np.degrees(np.arctan2(u[:, 1], u[:, 0]))
    ids = nearest_ids(np.where(ok, lon, np.nan), np.where(ok, lat, np.nan), dirs, tol)
    # arcsin loses precision near the poles: decide there on the Cartesian chord directly
    U = np.array([lattice.unit(v) for v in dirs], dtype=float)
    for k in range(len(ids)):
        if ids[k] == -2 and ok[k]:
            b = int(np.argmax(U @ u[k]))
            if np.linalg.norm(u[k] - U[b]) <= 2.0 * math.sin(max(tol, 1e-8) / 2.0):
                ids[k] = b
    return ids


def project_core(g, case, mesh, order):
    seen = read_in_order(g, order)
    n_face, n_node, (rows, d_ok, f_ok) = seen["conn"]
    tol = case_tol(case)
    got = {"n_face": n_face, "n_node": n_node, "tbl": rows, "order": list(order)}
    got["node_pos"] = nearest_ids(seen["lon"], seen["lat"], mesh["nodes"], tol)
    got["xyz_pos"] = xyz_ids(seen["xyz"], mesh["nodes"], tol)
    got["lon_ok"] = _range_ok(seen["lon"], -180.0, 180.0)
    got["lat_ok"] = _range_ok(seen["lat"], -90.0, 90.0)
    return got, seen, d_ok, f_ok


def project(g, case, mesh, order=("conn", "lon", "lat", "xyz")):
    got, seen, d_ok, f_ok = project_core(g, case, mesh, order)
    dt, fl = {"face_node": d_ok}, {"face_node": f_ok}
    nlon, nlat = seen["lon"], seen["lat"]
    tol = case_tol(case)
    lon_ok, lat_ok = got["lon_ok"], got["lat_ok"]
    car = case["carried"]
    if "centres" in car:
        if "face_lon" in g._ds and "face_lat" in g._ds:
            flon, flat = g.face_lon.values, g.face_lat.values
            got["centres"] = nearest_ids(flon, flat, mesh["centres"], tol)
            lon_ok = lon_ok and _range_ok(flon, -180.0, 180.0)
            lat_ok = lat_ok and _range_ok(flat, -90.0, 90.0)
    names = {
        "edge_node": "edge_node_connectivity",
        "face_edge": "face_edge_connectivity",
        "edge_face": "edge_face_connectivity",
        "node_face": "node_face_connectivity",
        "face_face": "face_face_connectivity",
    }
    if "derive_fe" in car:
        # derive face_edge first: the edge table read afterwards must still be the carried one
        got["face_edge_derived"], dt["face_edge_derived"], fl["face_edge_derived"] = hux.table(g.face_edge_connectivity)
    for k in ("edge_node", "face_edge", "edge_face", "node_face", "face_face"):
        if k in car:
            # carried over means: present in what the reader produced (a later derivation is a different thing)
            if case["carry_exact"] and names[k] not in g._ds:
                continue
            got[k], dt[k], fl[k] = hux.table(getattr(g, names[k]))
    for k, name, scale in (("face_areas", "face_areas", AREA_SCALE), ("edge_node_dist", "edge_node_distances", DIST_SCALE),
                           ("edge_face_dist", "edge_face_distances", DIST_SCALE)):
        # carried over = present in what the reader produced (the properties would derive a value otherwise)
        if k in car and name in g._ds:
            got[k] = _tags(g._ds[name].values, scale)
    if "npf" in car:
        if "n_nodes_per_face" in g._ds:
            got["npf"] = [int(x) for x in np.asarray(g.n_nodes_per_face.values)]
    got["dtype_ok"], got["fill_ok"], got["lon_ok"], got["lat_ok"] = dt, fl, lon_ok, lat_ok
    return got


def run_case(arg):
    """Module-level worker: (case, mesh, work, disk) -> record for JudgeReaders."""
    case, mesh, work, disk = arg
    rec = {
        "kind": "case",
        "id": case["id"],
        "route": case["route"],
        "exp": case["exp"],
        "perm": case["perm"],
        "orient": case["orient"],
        "keeps_ids": case["keeps_ids"],
        "carried": case["carried"],
        "carry_exact": case["carry_exact"],
        "fe_slots": case.get("fe_slots", "fixed"),
        "complete": case["complete"],
        "nn": case["nn"],
        "disk": bool(disk),
    }
    rec["modes"], rec["exps"] = case["modes"], case["exps"]
    cleanup = None
    try:
        inp, decode, cleanup = prepare(case, mesh, work, disk)
        fp0 = fingerprint(inp) if inp is not None else None
        plan = case["plan"]
        g, how = decode(plan[0])
        rec["how"] = how
        orders = case.get("orders") or [["conn", "lon", "lat", "xyz"]] * len(plan)
        rec["got"] = project(g, case, mesh, orders[0])
        between = case.get("between") or {"kind": "none"}
        if between.get("kind") == "sweep":
            sweep(g, between)
            rec["got_after"] = project(g, case, mesh, orders[0])
            rec["later_after"] = []
        kept, later = [], []
        if fp0 is not None:
            kept.append(fingerprint(inp) == fp0)
        # Decode ; Decode ... over the SAME input object (a file on disk: the same path)
        for step, opt in enumerate(plan[1:], start=1):
            try:
                g2, _ = decode(opt)
                later.append(project_core(g2, case, mesh, orders[step])[0])
                if (between.get("kind") == "sweep" and case["modes"][step] == "faces" and step == 1
                        and case["route"] not in ("ugrid", "topology")):  # repeats: where values are shipped
                    sweep(g2, between)
                    rec["later_after"].append(project(g2, case, mesh, orders[step]))
            except Exception as e:
                rec["error_later"] = "decoding #%d (%s) of the same input: %s: %s%s" % (len(later) + 2, opt, type(e).__name__, str(e)[:140], _where(e))
                break
            if fp0 is not None:
                fp = fingerprint(inp)
                kept.append(fp == fp0)
                if fp != fp0 and "changed" not in rec:
                    rec["changed"] = changed_parts(fp0, fp)[:8]
        if fp0 is not None:
            if not kept[0] and "changed" not in rec:
                rec["changed"] = changed_parts(fp0, fingerprint(inp))[:8]
            rec["kept"] = kept
        rec["later"] = later
    except NotRepresentable as e:
        rec["skip"] = str(e)[:200]
    except Exception as e:  # the property promises a Grid for every well-formed source
        rec["error"] = "%s: %s%s" % (type(e).__name__, str(e)[:160], _where(e))
    finally:
        if cleanup is not None:
            cleanup()
    return rec


def _where(e):
    import traceback

    for fr in reversed(traceback.extract_tb(e.__traceback__)):
        if "/uxarray/" in fr.filename:
            return " @ %s:%d" % (fr.filename.split("/uxarray/")[-1], fr.lineno)
    return ""


# ----------------------------------------------------------------------------- sample files (code -> spec)
def declared_faces(path, kw):
    """How many elements the file itself declares - read from its own metadata, no uxarray involved."""
    if kw.get("geo"):
        import geopandas as gpd

        gdf = gpd.read_file(path)
        return int(sum(len(x.geoms) if x.geom_type == "MultiPolygon" else 1 for x in gdf.geometry))
    import xarray as xr

    with xr.open_dataset(path, decode_times=False) as ds:
        sz = dict(ds.sizes)
        topo = [v for v in ds.variables.values() if v.attrs.get("cf_role") == "mesh_topology"]
        if topo and "face_node_connectivity" in topo[0].attrs:
            t = topo[0].attrs
            if "face_dimension" in t:
                return int(sz[t["face_dimension"]])
            return int(ds[t["face_node_connectivity"]].shape[0])
        if "verticesOnCell" in ds:
            return int(sz["nVertices"] if kw.get("use_dual") else sz["nCells"])
        if "elementCount" in sz:
            return int(sz["elementCount"])
        if "grid_size" in sz:
            return int(sz["grid_size"])
        if "num_el_blk" in sz:
            return int(sum(n for d, n in sz.items() if d.startswith("num_el_in_blk")))
        if "nf" in sz and "Ydim" in sz:
            return int(sz["nf"] * sz["Ydim"] * sz["Xdim"])
    return None


def file_record(arg):
    """Open one sample file; standard-form projection only (no expected faces are known)."""
    fid, path, kw = arg
    ux = hux.import_ux()
    rec = {"kind": "file", "id": fid}
    try:
        n = declared_faces(path, kw)
        if n is not None:
            rec["declared_n_face"] = n
    except Exception as e:
        rec["declared_error"] = str(e)[:200]
    try:
        if kw.get("geo"):
            with _quiet():
                g = ux.Grid.from_file(path)
        else:
            g = ux.open_grid(path, **{k: v for k, v in kw.items() if k in ("use_dual",)})
        rows, d, f = hux.table(g.face_node_connectivity)
        got = {"n_face": int(g.n_face), "n_node": int(g.n_node), "tbl": rows, "dtype_ok": {"face_node": d}, "fill_ok": {"face_node": f}}
        lon_ok = _range_ok(g.node_lon.values, -180.0, 180.0)
        lat_ok = _range_ok(g.node_lat.values, -90.0, 90.0)
        for k in ("edge_node_connectivity", "face_edge_connectivity", "edge_face_connectivity", "node_face_connectivity", "face_face_connectivity"):
            if k in g._ds:
                _, d, f = hux.table(g._ds[k])
                got["dtype_ok"][k], got["fill_ok"][k] = d, f
        for k in ("face_lon", "edge_lon"):
            if k in g._ds:
                lon_ok = lon_ok and _range_ok(g._ds[k].values, -180.0, 180.0)
        got["lon_ok"], got["lat_ok"] = lon_ok, lat_ok
        rec["got"] = got
        rec["_xyz"] = None
        if kw.get("keep_pos"):
            lo, la = np.radians(g.node_lon.values), np.radians(g.node_lat.values)
            rec["_xyz"] = np.stack([np.cos(la) * np.cos(lo), np.cos(la) * np.sin(lo), np.sin(la)], axis=1)
    except Exception as e:
        rec["error"] = "%s: %s" % (type(e).__name__, str(e)[:200])
    return rec


def pair_record(pid, ra, rb, tol=1e-6):
    """Express b's face table in a's node ids by position (nearest node within tol rad)."""
    A, B = ra["_xyz"], rb["_xyz"]
    from scipy.spatial import cKDTree

    tree = cKDTree(A)
    dist, idx = tree.query(B)
    chord = 2 * math.sin(tol / 2)
    m = np.where(dist <= chord, idx, -5)
    tb = [[(int(m[x]) if x >= 0 else -1) for x in row] for row in rb["got"]["tbl"]]
    return {"kind": "pair", "id": pid, "a": ra["got"]["tbl"], "b": tb}

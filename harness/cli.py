"""./check <ID> [--tier quick|thorough] [--replay path]"""

import importlib
import os
import sys

sys.path.insert(0, os.path.dirname(os.path.dirname(os.path.abspath(__file__))))

from harness import ux as _ux  # noqa: E402  (sets numba cache dir etc. before uxarray is imported)
from harness import core  # noqa: E402


def main():
    if len(sys.argv) < 2:
        print(__doc__)
        return 2
    prop = sys.argv[1]
    if prop == "selftest":
        from harness import selftest

        return selftest.main(sys.argv[2:])
    modname = "checks." + prop.lower()
    try:
        mod = importlib.import_module(modname)
    except ImportError as e:
        print("MACHINERY-FAILURE: cannot import %s: %s" % (modname, e), file=sys.stderr)
        return 2
    if "--replay" in sys.argv and hasattr(mod, "replay"):
        path = sys.argv[sys.argv.index("--replay") + 1]
        return mod.replay(path)
    return core.main_wrapper(prop, mod.run)


if __name__ == "__main__":
    sys.exit(main())

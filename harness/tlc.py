"""TLC runner: model checking, generation (-dump / -simulate), judging of recorded data.

All scratch lives in a caller-supplied work directory (under /verif/.work/<pid>).
Modules are resolved from /verif/tla through -DTLA-Library, so generated wrapper
modules and cfg files can live in the work directory.
"""

from __future__ import annotations

import os
import re
import subprocess
import time

from . import tlaval

VERIF = os.path.dirname(os.path.dirname(os.path.abspath(__file__)))
TLA_DIR = os.path.join(VERIF, "tla")
JAR = "/opt/veriftools/tla/tla2tools.jar"
DEPS = "/opt/veriftools/tla/CommunityModules-deps.jar"


class TLCError(RuntimeError):
    """Machinery failure (exit 2), never a verdict."""


class TLCResult:
    def __init__(self):
        self.rc = None
        self.out = ""
        self.generated = 0
        self.distinct = 0
        self.depth = 0
        self.wall = 0.0
        self.ok = False  # model checking completed with no error
        self.violated = None  # name of violated invariant/property, or "deadlock"/"assumption"
        self.prints = []  # parsed PrintT values
        self.coverage = {}  # action name -> (distinct, total)
        self.trace_text = ""

    def __repr__(self):
        return "<TLC rc=%s ok=%s gen=%d distinct=%d depth=%d %.1fs violated=%s>" % (
            self.rc,
            self.ok,
            self.generated,
            self.distinct,
            self.depth,
            self.wall,
            self.violated,
        )


_STATS = re.compile(r"(\d+) states generated, (\d+) distinct states found")
_DEPTH = re.compile(r"The depth of the complete state graph search is (\d+)")
_INV = re.compile(r"Invariant (\S+) is violated")
_PROP = re.compile(r"(?:Action|Temporal) propert(?:y|ies) (\S+)? ?(?:is|were) violated")
_COV = re.compile(r"^<(\w+) line (\d+), col (\d+) to line (\d+), col (\d+) of module (\w+)>: (\d+):(\d+)")


def run(
    module,
    cfg,
    workdir,
    *,
    workers=8,
    env=None,
    simulate=None,
    depth=None,
    dump=None,
    dump_dot=None,
    seed=None,
    coverage=False,
    timeout=1800,
    deadlock=None,
    heap="4g",
    extra_modules=None,
    dfs_queue=False,
    tool_mode=False,
):
    """Run TLC.

    module: module name (in /verif/tla or written to workdir via extra_modules)
    cfg: text of the configuration file
    extra_modules: {name: text} written into workdir before the run
    """
    os.makedirs(workdir, exist_ok=True)
    extra_modules = extra_modules or {}
    for name, text in extra_modules.items():
        with open(os.path.join(workdir, name + ".tla"), "w") as f:
            f.write(text)
    tag = "%s_%d" % (module, int(time.time() * 1000) % 10**9)
    cfg_path = os.path.join(workdir, tag + ".cfg")
    with open(cfg_path, "w") as f:
        f.write(cfg)
    meta = os.path.join(workdir, "meta_" + tag)
    if module in extra_modules:
        spec_path = os.path.join(workdir, module + ".tla")
    else:
        spec_path = os.path.join(TLA_DIR, module + ".tla")
        if not os.path.exists(spec_path):
            raise TLCError("no such module: " + spec_path)
    lib = TLA_DIR + os.pathsep + workdir
    cmd = [
        "java",
        "-XX:+UseParallelGC",
        "-Xmx" + heap,
        "-DTLA-Library=" + lib,
    ]
    if dfs_queue:
        cmd.append("-Dtlc2.tool.queue.IStateQueue=StateDeque")
    cmd += [
        "-cp",
        JAR + os.pathsep + DEPS,
        "tlc2.TLC",
        "-workers",
        str(workers),
        "-metadir",
        meta,
        "-noGenerateSpecTE",
        "-config",
        cfg_path,
    ]
    if deadlock is False:
        cmd.append("-deadlock")
    if simulate:
        cmd += ["-simulate", simulate]
    if depth:
        cmd += ["-depth", str(depth)]
    if seed is not None:
        cmd += ["-seed", str(seed)]
    if dump:
        cmd += ["-dump", dump]
    if dump_dot:
        cmd += ["-dump", "dot,actionlabels", dump_dot]
    if coverage:
        cmd += ["-coverage", "1"]
    if tool_mode:
        cmd.append("-tool")
    cmd.append(spec_path)
    e = dict(os.environ)
    e.pop("JAVA_TOOL_OPTIONS", None)
    if env:
        e.update({k: str(v) for k, v in env.items()})
    t0 = time.time()
    try:
        p = subprocess.run(
            cmd, cwd=workdir, env=e, capture_output=True, text=True, timeout=timeout
        )
    except subprocess.TimeoutExpired as ex:
        raise TLCError("TLC timed out after %ss: %s" % (timeout, " ".join(cmd))) from ex
    r = TLCResult()
    r.rc = p.returncode
    r.out = p.stdout + ("\n" + p.stderr if p.stderr else "")
    r.wall = time.time() - t0
    r.cmd = " ".join(cmd)
    _parse_out(r)
    # clean the (potentially large) metadir right away
    subprocess.run(["rm", "-rf", meta])
    return r


def _parse_out(r):
    out = r.out
    for m in _STATS.finditer(out):
        r.generated, r.distinct = int(m.group(1)), int(m.group(2))
    m = _DEPTH.search(out)
    if m:
        r.depth = int(m.group(1))
    m = _INV.search(out)
    if m:
        r.violated = m.group(1).rstrip(".")
    elif "Deadlock reached" in out:
        r.violated = "deadlock"
    elif re.search(r"propert\w+ .*violated", out):
        mm = re.search(r"propert\w+ (\S+) (?:is|was|were) violated", out)
        r.violated = mm.group(1) if mm else "property"
    elif "Assumption" in out and "is false" in out:
        r.violated = "assumption"
    elif "postcondition" in out.lower() and "violated" in out.lower():
        r.violated = "postcondition"
    r.ok = (
        r.violated is None
        and (
            "Model checking completed. No error has been found." in out
            or "Finished computing initial states" in out
            and "No error has been found" in out
            or "The number of states generated" in out  # simulation end
        )
        and r.rc == 0
    )
    # PrintT values: TLC prints each on its own line(s). We pick lines starting with << or [ or { or (
    r.prints = list(_iter_prints(out))
    for line in out.splitlines():
        m = _COV.match(line.strip())
        if m:
            r.coverage[m.group(1)] = (int(m.group(7)), int(m.group(8)))
    if r.violated:
        i = out.find("Error:")
        r.trace_text = out[i:] if i >= 0 else ""


def _iter_prints(out):
    """Yield parsed values of PrintT output: a tuple whose first element is a string, starting
    at the beginning of a line.  TLC pretty-prints long values over several lines as
    `<< "V",\n   ...>>` (with a space after `<<`), short ones as `<<"V", ...>>`: both are
    accepted.  Multi-worker runs may interleave lines; values are delimited by bracket matching.
    """
    for m in _PRINT_START.finditer(out):
        j = m.start()
        try:
            v, end = tlaval.parse_prefix(out, j)
        except tlaval.ParseError:
            continue
        yield v


_PRINT_START = re.compile(r'^<<\s*"', re.M)


def require_ok(r, what=""):
    if not r.ok:
        raise TLCError(
            "TLC did not complete cleanly (%s): rc=%s violated=%s\n%s"
            % (what, r.rc, r.violated, r.out[-4000:])
        )
    return r


def sany(path):
    p = subprocess.run(
        [
            "java",
            "-DTLA-Library=" + TLA_DIR,
            "-cp",
            JAR + os.pathsep + DEPS,
            "tla2sany.SANY",
            path,
        ],
        capture_output=True,
        text=True,
        cwd=os.path.dirname(path),
    )
    ok = p.returncode == 0 and "Semantic errors" not in p.stdout and "***Parse Error***" not in p.stdout and "Fatal" not in p.stdout
    return ok, p.stdout + p.stderr

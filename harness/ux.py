"""Environment set-up for importing the implementation from /repo's working tree,
and small helpers shared by all replay drivers (projection of tables, building grids).

Import this module *before* uxarray: it points numba's on-disk cache at a directory
keyed by a hash of the working tree, so compiled code always matches the sources
(numba keys its cache on the defining file only, and several jitted functions close
over values in constants.py).
"""

from __future__ import annotations

import hashlib
import os
import sys
import warnings

VERIF = os.path.dirname(os.path.dirname(os.path.abspath(__file__)))
REPO = os.environ.get("VERIF_REPO", "/repo")


def tree_hash():
    h = hashlib.sha1()
    root = os.path.join(REPO, "uxarray")
    for d, dirs, files in sorted(os.walk(root)):
        dirs.sort()
        for f in sorted(files):
            if f.endswith(".py"):
                p = os.path.join(d, f)
                h.update(p.encode())
                with open(p, "rb") as fh:
                    h.update(fh.read())
    return h.hexdigest()[:16]


def setup_env():
    os.environ.setdefault("PYTHONHASHSEED", "0")
    os.environ["UXARRAY_VERIF"] = "1"
    cache = os.path.join(VERIF, ".numba", tree_hash())
    os.makedirs(cache, exist_ok=True)
    os.environ["NUMBA_CACHE_DIR"] = cache
    # keep old caches from piling up (disk is limited) without pulling a cache from under a
    # running process: only directories untouched for three hours go, the newest six always stay
    base = os.path.join(VERIF, ".numba")
    try:
        import shutil
        import time

        ds = sorted(
            (os.path.join(base, d) for d in os.listdir(base)),
            key=lambda p: os.path.getmtime(p),
        )
        for p in ds[:-6]:
            if p != cache and time.time() - os.path.getmtime(p) > 3 * 3600:
                shutil.rmtree(p, ignore_errors=True)
        os.utime(cache, None)
    except OSError:
        pass
    if REPO not in sys.path:
        sys.path.insert(0, REPO)
    warnings.filterwarnings("ignore")


setup_env()

import numpy as np  # noqa: E402


def import_ux():
    import uxarray as ux  # noqa

    src = os.path.dirname(os.path.abspath(ux.__file__))
    if not src.startswith(os.path.abspath(REPO)):
        raise RuntimeError("uxarray imported from %s, not from %s" % (src, REPO))
    return ux


def consts():
    from uxarray.constants import INT_DTYPE, INT_FILL_VALUE

    return INT_DTYPE, INT_FILL_VALUE


def table(arr):
    """Project an integer index table to (rows with PAD=-1, dtype_ok, fill_ok).

    dtype_ok: the array has the standard integer type.
    fill_ok:  no negative entry other than the standard fill value occurs.
    The 64-bit fill value never crosses into JSON (TLC's reader mangles |n| >= 2^31).
    """
    INT_DTYPE, FILL = consts()
    a = np.asarray(getattr(arr, "values", arr))
    dtype_ok = a.dtype == np.dtype(INT_DTYPE)
    if a.dtype.kind == "f":
        bad = ~np.isfinite(a)
        ai = np.where(bad, -999999, a).astype(np.int64)
        fill_ok = not bad.any()
    else:
        ai = a.astype(np.int64)
        fill_ok = True
    isfill = ai == FILL
    other_neg = (ai < 0) & ~isfill
    if other_neg.any():
        fill_ok = False
    out = np.where(isfill, -1, ai)
    # clamp anything absurd so it stays below 2^31 in JSON (it is already a fill/range failure)
    out = np.where(np.abs(out) >= 2**30, -7, out)
    return out.tolist(), bool(dtype_ok), bool(fill_ok)


def pad_table(mesh, width=None, fill=None):
    INT_DTYPE, FILL = consts()
    fill = FILL if fill is None else fill
    w = width or max(len(f) for f in mesh)
    a = np.full((len(mesh), w), fill, dtype=INT_DTYPE)
    for i, f in enumerate(mesh):
        a[i, : len(f)] = f
    return a

"""C20 over histories: replay the histories TLC generates from tla/GridEqHist.tla on two real Grid
objects and record what == and != answer at every Compare step (judged by tla/TraceGridEq.tla).

A history is (init2, [(act, args, want), ...]) as printed by GridEqHist.Emit."""

from __future__ import annotations

import copy as _copy

from . import ux as hux

SCALES = ("deg10", "ulp", "nano")

# the base mesh: 5 nodes, two triangles (+ one optional extra node / extra face)
BASE_LON = [30.0, 41.0, 52.0, 33.0]
BASE_LAT = [-20.0, -11.0, 2.0, 13.0]
BASE_CONN = [[0, 1, 2], [0, 2, 3]]
LON_I, LAT_I, CONN_F, CONN_J = 1, 2, 1, 2  # the distinguished entries
CONN_VALS = (3, 1)


def _val(base, v, scale):
    import numpy as np

    if v == 0:
        return float(base)
    if scale == "deg10":
        return base + 10.0
    if scale == "ulp":
        return float(np.nextafter(np.float64(base), np.float64(1e9)))
    return base + 1e-9


def arrays(c, scale):
    """abstract content -> (lon, lat, conn) python lists"""
    lon = list(BASE_LON)
    lat = list(BASE_LAT)
    conn = [list(f) for f in BASE_CONN]
    lon[LON_I] = _val(BASE_LON[LON_I], c["lon"], scale)
    lat[LAT_I] = _val(BASE_LAT[LAT_I], c["lat"], scale)
    conn[CONN_F][CONN_J] = CONN_VALS[c["conn"]]
    if c["nn"]:
        lon.append(44.0)
        lat.append(25.0)
    if c["nf"]:
        conn.append([1, 2, 3])
    return lon, lat, conn


def build(c, scale):
    import numpy as np

    ux = hux.import_ux()
    INT_DTYPE, FILL = hux.consts()
    lon, lat, conn = arrays(c, scale)
    g = ux.Grid.from_topology(np.array(lon, dtype=float), np.array(lat, dtype=float), np.array(conn, dtype=INT_DTYPE), fill_value=FILL)
    if c["spec"] == "B":
        g = ux.Grid.from_dataset(g._ds.copy(deep=True), source_grid_spec="UGRID")
    return g


C0 = {"spec": "A", "lon": 0, "lat": 0, "conn": 0, "nn": 0, "nf": 0}


def init_content(kind):
    c = dict(C0)
    if kind == "lon":
        c["lon"] = 1
    elif kind == "lat":
        c["lat"] = 1
    elif kind == "conn":
        c["conn"] = 1
    elif kind == "spec":
        c["spec"] = "B"
    elif kind == "n_node":
        c["nn"] = 1
    elif kind == "n_face":
        c["nf"] = 1
    elif kind != "same":
        raise ValueError(kind)
    return c


def touch(g, t):
    if t in ("n_edge", "face_edge_connectivity", "bounds", "face_areas", "node_x", "face_lon", "n_nodes_per_face"):
        v = getattr(g, t)
        if hasattr(v, "values"):
            v.values  # noqa: B018  (materialise)
    elif t == "normalize":
        g.normalize_cartesian_coordinates()
    elif t == "face_centers":
        g.construct_face_centers()
    elif t == "to_gdf":
        g.to_geodataframe()
    else:
        raise ValueError(t)


def edit(g, f, how, scale, bit):
    """set the distinguished entry of field f to its abstract value `bit`, through the setter (a new array) or in place"""
    import numpy as np
    import xarray as xr

    name = {"lon": "node_lon", "lat": "node_lat", "conn": "face_node_connectivity"}[f]
    cur = getattr(g, name)
    if f == "conn":
        new = CONN_VALS[bit]
        idx = (CONN_F, CONN_J)
    else:
        i, base = (LON_I, BASE_LON[LON_I]) if f == "lon" else (LAT_I, BASE_LAT[LAT_I])
        new = _val(base, bit, scale)
        idx = (i,)
    if how == "inplace":
        cur.values[idx] = new
    else:
        arr = np.array(cur.values, copy=True)
        arr[idx] = new
        setattr(g, name, xr.DataArray(arr, dims=cur.dims, attrs=dict(cur.attrs)))


def replay(job):
    """job = (tid, init2, steps, scale) -> trace record"""
    tid, init2, steps, scale = job
    out = {"tid": tid, "init2": init2, "scale": scale, "events": []}
    try:
        cont = {1: dict(C0), 2: init_content(init2)}  # bookkeeping for realising edits only; verdicts are TLC's
        objs = {1: build(cont[1], scale), 2: build(cont[2], scale)}
    except Exception as e:  # noqa
        out["harness_error"] = "build: %s: %s" % (type(e).__name__, str(e)[:200])
        return out
    for st in steps:
        act, args = st[0], list(st[1])
        ev = {"act": act, "o": 0, "t": "", "f": "", "how": "", "x": 0, "y": 0, "obs": []}
        try:
            if act == "Touch":
                ev["o"], ev["t"] = int(args[0]), args[1]
                try:
                    touch(objs[ev["o"]], ev["t"])
                except Exception as e:  # noqa: a derivation may fail on an edited grid; contents are unchanged
                    ev["note"] = "%s: %s" % (type(e).__name__, str(e)[:80])
            elif act == "Edit":
                ev["o"], ev["f"], ev["how"] = int(args[0]), args[1], args[2]
                cont[ev["o"]][ev["f"]] = 1 - cont[ev["o"]][ev["f"]]
                edit(objs[ev["o"]], ev["f"], ev["how"], scale, cont[ev["o"]][ev["f"]])
            elif act == "Copy":
                ev["o"], ev["how"] = int(args[0]), args[1]
                src = objs[ev["o"]]
                objs[3 - ev["o"]] = src.copy() if ev["how"] == "copy" else _copy.deepcopy(src)
                cont[3 - ev["o"]] = dict(cont[ev["o"]])
            elif act == "Compare":
                ev["x"], ev["y"] = int(args[0]), int(args[1])
                a, b = objs[ev["x"]], objs[ev["y"]]
                ev["obs"] = [bool(a == b), bool(a != b)]
            else:
                raise ValueError(act)
        except Exception as e:  # noqa
            ev["obs"] = ["raised"]
            ev["note"] = "%s: %s" % (type(e).__name__, str(e)[:160])
        out["events"].append(ev)
    return out

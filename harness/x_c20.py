"""C20 over histories: replay the histories TLC generates from tla/GridEqHist.tla on two real Grid
objects and record what == and != answer at every Compare step (judged by tla/TraceGridEq.tla).

A history is (init2, [(act, args, want), ...]) as printed by GridEqHist.Emit."""

from __future__ import annotations

import copy as _copy

from . import ux as hux

SCALES = ("deg10", "ulp", "nano")

# the base mesh: 5 nodes, two triangles (+ one optional extra node / extra face)
BASE_LON = [-50.0, -39.0, -28.0, -47.0]  # western hemisphere: derived longitudes must be folded
BASE_LAT = [-20.0, -11.0, 2.0, 13.0]
# three triangles around node 0; the distinguished connectivity entry toggles the last corner of the
# third one between two nodes, and every node stays in use either way
BASE_CONN = [[0, 1, 2], [0, 2, 3], [0, 3, 1]]
LON_I, LAT_I, CONN_F, CONN_J = 1, 2, 2, 2  # the distinguished entries
CONN_VALS = (1, 2)


def _val(base, v, scale):
    import numpy as np

    if v == 0:
        return float(base)
    if scale == "deg10":
        return base + 10.0
    if scale == "ulp":
        return float(np.nextafter(np.float64(base), np.float64(1e9)))
    return base + 1e-9


def arrays(c, scale):
    """abstract content -> (lon, lat, conn) python lists"""
    lon = list(BASE_LON)
    lat = list(BASE_LAT)
    conn = [list(f) for f in BASE_CONN]
    lon[LON_I] = _val(BASE_LON[LON_I], c["lon"], scale)
    lat[LAT_I] = _val(BASE_LAT[LAT_I], c["lat"], scale)
    conn[CONN_F][CONN_J] = CONN_VALS[c["conn"]]
    if c["nn"]:
        lon.append(-36.0)
        lat.append(25.0)
    if c["nf"]:
        conn.append([1, 2, 3])
    return lon, lat, conn


def _xyz(lon, lat):
    import numpy as np

    lo, la = np.radians(lon), np.radians(lat)
    return [float(np.cos(la) * np.cos(lo)), float(np.cos(la) * np.sin(lo)), float(np.sin(la))]


def node_index(g, base_node):
    """index, in grid g, of the node that started as `base_node` of the base mesh (the face-vertex constructor
    numbers nodes itself): the nearest node; base nodes are degrees apart, edits move a node by at most 10 degrees
    in one coordinate"""
    import numpy as np

    lon, lat = np.asarray(g.node_lon.values, dtype=float), np.asarray(g.node_lat.values, dtype=float)
    d = np.minimum(abs(lon - BASE_LON[base_node]), 360.0 - abs(lon - BASE_LON[base_node])) + abs(lat - BASE_LAT[base_node])
    return int(np.argmin(d))


def build(c, scale, route="lonlat"):
    import numpy as np

    ux = hux.import_ux()
    INT_DTYPE, FILL = hux.consts()
    lon, lat, conn = arrays(c, scale)
    if route == "xyz":
        # Cartesian corner coordinates only: longitudes and latitudes are derived lazily by the grid
        verts = np.array([[_xyz(lon[n], lat[n]) for n in f] for f in conn], dtype=float)
        g = ux.Grid.from_face_vertices(verts, latlon=False)
    else:
        g = ux.Grid.from_topology(np.array(lon, dtype=float), np.array(lat, dtype=float), np.array(conn, dtype=INT_DTYPE), fill_value=FILL)
    if c["spec"] == "B":
        g = ux.Grid.from_dataset(g._ds.copy(deep=True), source_grid_spec="UGRID")
    return g


C0 = {"spec": "A", "lon": 0, "lat": 0, "conn": 0, "nn": 0, "nf": 0}


def init_content(kind):
    c = dict(C0)
    if kind == "lon":
        c["lon"] = 1
    elif kind == "lat":
        c["lat"] = 1
    elif kind == "conn":
        c["conn"] = 1
    elif kind == "spec":
        c["spec"] = "B"
    elif kind == "n_node":
        c["nn"] = 1
    elif kind == "n_face":
        c["nf"] = 1
    elif kind != "same":
        raise ValueError(kind)
    return c


def touch(g, t):
    if t in ("n_edge", "face_edge_connectivity", "bounds", "face_areas", "node_x", "face_lon", "n_nodes_per_face", "node_lon", "node_lat"):
        v = getattr(g, t)
        if hasattr(v, "values"):
            v.values  # noqa: B018  (materialise)
    elif t == "normalize":
        g.normalize_cartesian_coordinates()
    elif t == "face_centers":
        g.construct_face_centers()
    elif t == "to_gdf":
        g.to_geodataframe()
    else:
        raise ValueError(t)


def edit(g, f, how, scale, bit, route="lonlat"):
    """set the distinguished entry of field f to its abstract value `bit`, through the setter (a new array) or in place"""
    import numpy as np
    import xarray as xr

    name = {"lon": "node_lon", "lat": "node_lat", "conn": "face_node_connectivity"}[f]
    cur = getattr(g, name)
    if f == "conn":
        new = CONN_VALS[bit] if route == "lonlat" else node_index(g, CONN_VALS[bit])
        idx = (CONN_F, CONN_J)
    else:
        i, base = (LON_I, BASE_LON[LON_I]) if f == "lon" else (LAT_I, BASE_LAT[LAT_I])
        new = _val(base, bit, scale)
        idx = (i,)
        if route == "xyz":
            # the value a grid built with that content derives from its Cartesian coordinates (floating-point
            # trigonometry), at the position this grid gave the node
            c = dict(C0)
            c[f] = bit
            ref = build(c, scale, route)
            new = float(getattr(ref, name).values[node_index(ref, i)])
            idx = (node_index(g, i),)
        cur = getattr(g, name)
    if how == "inplace":
        cur.values[idx] = new
    else:
        arr = np.array(cur.values, copy=True)
        arr[idx] = new
        setattr(g, name, xr.DataArray(arr, dims=cur.dims, attrs=dict(cur.attrs)))


def replay(job):
    """job = (tid, init2, route, steps, scale) -> trace record"""
    tid, init2, route, steps, scale = job
    out = {"tid": tid, "init2": init2, "route": route, "scale": scale, "events": []}
    try:
        cont = {1: dict(C0), 2: init_content(init2)}  # bookkeeping for realising edits only; verdicts are TLC's
        objs = {1: build(cont[1], scale, route), 2: build(cont[2], scale, route)}
    except Exception as e:  # noqa
        out["harness_error"] = "build: %s: %s" % (type(e).__name__, str(e)[:200])
        return out
    for st in steps:
        act, args = st[0], list(st[1])
        ev = {"act": act, "o": 0, "t": "", "f": "", "how": "", "x": 0, "y": 0, "obs": []}
        try:
            if act == "Touch":
                ev["o"], ev["t"] = int(args[0]), args[1]
                try:
                    touch(objs[ev["o"]], ev["t"])
                except Exception as e:  # noqa: a derivation may fail on an edited grid; contents are unchanged
                    ev["note"] = "%s: %s" % (type(e).__name__, str(e)[:80])
            elif act == "Edit":
                ev["o"], ev["f"], ev["how"] = int(args[0]), args[1], args[2]
                cont[ev["o"]][ev["f"]] = 1 - cont[ev["o"]][ev["f"]]
                edit(objs[ev["o"]], ev["f"], ev["how"], scale, cont[ev["o"]][ev["f"]], route)
            elif act == "Copy":
                ev["o"], ev["how"] = int(args[0]), args[1]
                src = objs[ev["o"]]
                if ev["how"] == "copy":
                    objs[3 - ev["o"]] = src.copy()
                elif ev["how"] == "deepcopy":
                    objs[3 - ev["o"]] = _copy.deepcopy(src)
                else:  # "isel_all": every face, in order
                    objs[3 - ev["o"]] = src.isel(n_face=list(range(int(src.n_face))))
                cont[3 - ev["o"]] = dict(cont[ev["o"]], nn=0) if ev["how"] == "isel_all" else dict(cont[ev["o"]])
            elif act == "Compare":
                ev["x"], ev["y"] = int(args[0]), int(args[1])
                a, b = objs[ev["x"]], objs[ev["y"]]
                ev["obs"] = [bool(a == b), bool(a != b)]
            else:
                raise ValueError(act)
        except Exception as e:  # noqa
            ev["obs"] = ["raised"]
            ev["note"] = "%s: %s" % (type(e).__name__, str(e)[:160])
        out["events"].append(ev)
    return out
